#!/usr/bin/env python3-vt
"""regenerate MANIFEST.json from props/*.py (claimed) and properties.jsonl (the rest -> not_applicable)"""
import json, os, sys, importlib
sys.path.insert(0, os.path.dirname(os.path.abspath(__file__))); sys.path.insert(0, os.path.join(os.environ.get('BACPYPES_REPO', '/repo'), 'py34'))
ids = [json.loads(l)['id'] for l in open('properties.jsonl')]
checks, na = [], []
for pid in ids:
    fn = 'props/%s.py' % pid
    src = open(fn).read() if os.path.exists(fn) else ''
    ns = {}
    if src:
        exec(compile(src, fn, 'exec'), ns)
    if src and ns.get('CLAIMED', True):
        checks.append({
            "property_id": pid,
            "quick_cmd": "./check %s --tier quick" % pid,
            "thorough_cmd": "./check %s --tier thorough" % pid,
            "evidence_file": "evidence/%s.json" % pid,
            "replay_cmd_template": "./check %s --replay {path}" % pid,
            "engine": "pyvc",
            "level_claimed": {"category": ns.get('LEVEL', 'proof'), "text": ns['LEVEL_TEXT'], "design_ref": ns.get('DESIGN_REF', 'DESIGN.md section 4 (%s)' % pid)},
            "level_note": ns['LEVEL_NOTE'],
            "technique": ns.get('TECHNIQUE', "contract-based deductive verification: sidecar contracts on the real functions, VCs generated from the Python ast of /repo's working tree by symbolic execution, discharged by z3 (cvc5 on unknown); property as lemmas over contracts; bounded stage labelled bounded"),
        })
    else:
        na.append({"property_id": pid, "reason": ns.get('NA_REASON', "check not built yet in this round (planned, see DESIGN.md section 4); not claimed until its contracts verify")})
m = {
    "version": 1,
    "setup_cmd": "python3-vt -m compileall -q pyvc contracts spec lemmas props bounded && python3-vt selftest/smoke.py",
    "hooks": {"guard": "BACPYPES_VERIF", "enable": "none needed: contracts are sidecar files and the checks read /repo's working tree (py34) directly", 
              "baseline_off_cmd": "cd /repo && /venv/bin/python -m pytest -ra -q -p no:cacheprovider --timeout=900 --continue-on-collection-errors",
              "source_commits": [], "add_only": True},
    "engines": [{"name": "pyvc", "path": "pyvc/", "serves_properties": [c["property_id"] for c in checks],
                 "kind_free_text": "home-made deductive verifier for a Python subset: symbolic interpreter over the ast of the real source (re-read every run) + sidecar contracts + z3/cvc5"}],
    "checks": checks,
    "not_applicable": na,
    "notes": "Run from /verif. BACPYPES_REPO (default /repo) selects the tree; python3-vt hosts z3. Replays are written under replays/<id>/.",
}
json.dump(m, open('MANIFEST.json', 'w'), indent=1)
print(len(checks), 'claimed;', len(na), 'not applicable')
