"""
spec.prim -- canonical content octets of the BACnet primitive types, written
from ASHRAE 135 clause 20.2 (20.2.2 Null .. 20.2.14 Object Identifier), not
from the library's code.
"""

def unsigned(v):
    """20.2.4: binary number, most significant octet first, in the fewest
    octets (at least one); v in 0 .. 2**32-1"""
    if v < 256:
        return bytes([v])
    if v < 65536:
        return bytes([v // 256, v % 256])
    if v < 16777216:
        return bytes([v // 65536, (v // 256) % 256, v % 256])
    return bytes([v // 16777216, (v // 65536) % 256, (v // 256) % 256, v % 256])

def unsigned_representable(v):
    return 0 <= v < 4294967296

def be_value(data, n):
    """value of the first n octets of data as an unsigned big-endian number"""
    r = 0
    for i in range(n):
        r = r * 256 + data[i]
    return r

def integer(v):
    """20.2.5: two's complement, most significant octet first, fewest octets;
    v in -2**31 .. 2**31-1"""
    if -128 <= v < 128:
        return bytes([v % 256])
    if -32768 <= v < 32768:
        return bytes([(v // 256) % 256, v % 256])
    if -8388608 <= v < 8388608:
        return bytes([(v // 65536) % 256, (v // 256) % 256, v % 256])
    return bytes([(v // 16777216) % 256, (v // 65536) % 256, (v // 256) % 256, v % 256])

def integer_representable(v):
    return -2147483648 <= v < 2147483648

def twos_value(data, n):
    """value of the first n octets of data as a two's complement number"""
    u = be_value(data, n)
    if data[0] >= 128:
        return u - 256 ** n
    return u

def bitstring(bits):
    """20.2.10: first octet = number of unused bits in the last octet; then
    the bits, first bit in the most significant position, zero padded"""
    n = len(bits)
    unused = (8 - n % 8) % 8
    out = [unused]
    padded = list(bits) + [0] * unused
    for i in range(0, len(padded), 8):
        x = 0
        for j in range(8):
            x = x * 2 + padded[i + j]
        out.append(x)
    return bytes(out)

def object_identifier(objtype, instance):
    """20.2.14: 10 bits of object type, 22 bits of instance, four octets"""
    w = objtype * 4194304 + instance
    return bytes([w // 16777216, (w // 65536) % 256, (w // 256) % 256, w % 256])

def bits_of(data):
    """20.2.10 read back: the bits of the content octets after the first,
    without the unused bits of the last octet counted by data[0]"""
    out = []
    for k in range(1, len(data)):
        x = data[k]
        for j in range(8):
            out.append((x // (2 ** (7 - j))) % 2)
    unused = data[0]
    return out[:len(out) - unused]

def bitstring_content_wf(data):
    return len(data) >= 1 and 0 <= data[0] <= 7 and (len(data) > 1 or data[0] == 0)

import struct as _struct

# largest magnitude struct packs into binary32 is just below this (ties round to 2**128: overflow)
F32_OVERFLOW = (2 - 2.0 ** -24) * 2.0 ** 127

def real32(x):
    """20.2.6: ANSI/IEEE-754 single precision, most significant octet first
    (the conversion itself is struct's -- trusted)"""
    return _struct.pack('>f', x)

def real64(x):
    """20.2.7: double precision"""
    return _struct.pack('>d', x)

def round32(x):
    return _struct.unpack('>f', _struct.pack('>f', x))[0]

def object_identifier_word(data):
    return ((data[0] * 256 + data[1]) * 256 + data[2]) * 256 + data[3]
