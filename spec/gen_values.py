"""
spec.gen_values -- generic generator of structurally valid values for the
library's datatypes, driven only by class metadata (sequenceElements,
choiceElements, subtype, enumerations, bitLen/bitNames, _app_tag), plus
encode/decode helpers for full service APDUs and bare constructed values and
a structural normal form (canon) to compare values independently of the
library's own dict_contents().

  gen(cls, rng, depth=0, max_depth=4, max_len=3)
      value suitable for storing in a parent element of class cls
        Atomic            plain Python value the class normalises to itself
        AnyAtomic         an instance of one of the 13 application classes
        Sequence/Choice   instance built with keyword arguments
        SequenceOf/ListOf plain list of element values (what Sequence.encode
                          hands to the helper constructor)
        ArrayOf           instance of the generated class built from a list
        Any               Any instance with atomic / small constructed content
        SequenceOfAny     SequenceOfAny holding a ListOf(...) instance
  Ungeneratable           raised with a reason when the metadata does not
                          determine a valid value (abstract bases, ...)

Used by bounded/c03.py and bounded/c10.py; bounded only, never part of a proof.
"""
import inspect

from bacpypes.pdu import PDU
from bacpypes.comm import PDUData
from bacpypes.primitivedata import Atomic, Null, Boolean, Unsigned, Integer, \
    Real, Double, OctetString, CharacterString, BitString, Enumerated, Date, \
    Time, ObjectType, ObjectIdentifier, Tag, TagList
from bacpypes import constructeddata as _cd
from bacpypes.constructeddata import Sequence, Choice, Any, AnyAtomic, \
    SequenceOfAny, ListOf, Array, List


class Ungeneratable(Exception):
    """the class metadata does not determine a structurally valid value"""


# ---------------------------------------------------------------------------
# class kinds
# ---------------------------------------------------------------------------

def is_sequence_of(cls):
    return cls in _cd._sequence_of_classes

def is_list_of(cls):
    return cls in _cd._list_of_classes

def is_array_of(cls):
    return cls in _cd._array_of_classes

def is_listlike(cls):
    return is_sequence_of(cls) or is_list_of(cls) or is_array_of(cls)

def is_atomic(cls):
    return inspect.isclass(cls) and issubclass(cls, Atomic)

def is_constructed(cls):
    return inspect.isclass(cls) and issubclass(cls, (Sequence, Choice))


# ---------------------------------------------------------------------------
# atomic values
# ---------------------------------------------------------------------------

# floats exactly representable in binary32 (so struct '>f' round trips them)
REAL_VALUES = [0.0, 1.0, -1.0, 1.5, -2.25, 72.5, 180.0, 0.5, 1024.0, -0.0,
               16777216.0, 2.0 ** -126, 2.0 ** 127, -(2.0 ** 127),
               3.4028234663852886e+38, float('inf'), float('-inf')]
DOUBLE_VALUES = REAL_VALUES + [0.1, -0.1, 1e300, 2.2250738585072014e-308,
                               1.7976931348623157e+308, 3.141592653589793]
UNSIGNED_VALUES = [0, 1, 2, 127, 128, 255, 256, 65535, 65536, 16777215,
                   16777216, 2 ** 31, 2 ** 32 - 1]
INTEGER_VALUES = [-2 ** 31, -2 ** 31 + 1, -8388609, -8388608, -32769, -32768,
                  -129, -128, -1, 0, 1, 127, 128, 32767, 32768, 8388607,
                  8388608, 2 ** 31 - 1]
CHAR_VALUES = ['', 'a', 'OATemp', 'x' * 5, 'été', '日本', ' ', 'A' * 20]
OCTET_VALUES = [b'', b'\x00', b'\xff', b'\x01\x02\x03', bytes(range(5)),
                bytes(range(6)), b'\x7f\x80']
LONG_OCTETS = [bytes(253), bytes(i & 255 for i in range(254)), bytes(300)]
LONG_CHARS = ['z' * 252, 'y' * 253, 'w' * 300]
DATE_VALUES = [(255, 255, 255, 255), (114, 2, 28, 5), (0, 1, 1, 1),
               (254, 12, 31, 7), (100, 13, 32, 255), (255, 14, 33, 255),
               (120, 255, 34, 3), (91, 6, 15, 255)]
TIME_VALUES = [(255, 255, 255, 255), (0, 0, 0, 0), (23, 59, 59, 99),
               (12, 30, 255, 255), (17, 0, 0, 50), (255, 0, 0, 0)]
INSTANCE_VALUES = [0, 1, 5, 255, 65536, 4194302, 4194303]

# the thirteen application classes Tag.app_to_object can give back
APPLICATION_CLASSES = [Null, Boolean, Unsigned, Integer, Real, Double,
                       OctetString, CharacterString, BitString, Enumerated,
                       Date, Time, ObjectIdentifier]


def canonical_names(cls):
    """enumeration names that come back from a decode (one per value; when two
    names share a value the translate table keeps one of them)"""
    if '_xlate_table' not in cls.__dict__:
        cls()                                   # the constructor expands the table
    table = cls._xlate_table
    return sorted(k for k, v in table.items()
                  if isinstance(k, str) and table.get(v) == k)


def _object_type_value(rng):
    names = canonical_names(ObjectType)
    r = rng.random()
    if r < 0.85:
        return rng.choice(names)
    # vendor range, comes back as an int
    lo, hi = ObjectType.vendor_range
    return rng.choice([lo, hi, rng.randint(lo, hi)])


def gen_atomic(cls, rng, max_len=3, long_strings=True):
    """plain value for an Atomic subclass; the value is in the form the class
    stores after decoding, so equality of raw element values is meaningful"""
    if issubclass(cls, AnyAtomic):
        k = rng.choice(APPLICATION_CLASSES)
        return k(gen_atomic(k, rng, max_len, long_strings))
    if issubclass(cls, Null):
        return ()
    if issubclass(cls, Boolean):
        return rng.choice([True, False])
    if issubclass(cls, Unsigned):
        pool = [v for v in UNSIGNED_VALUES if cls.is_valid(v)]
        if rng.random() < 0.2:
            hi = cls._high_limit if cls._high_limit is not None else 2 ** 32 - 1
            pool = [rng.randint(cls._low_limit, hi)]
        return rng.choice(pool)
    if issubclass(cls, Integer):
        if rng.random() < 0.2:
            return rng.randint(-2 ** 31, 2 ** 31 - 1)
        return rng.choice(INTEGER_VALUES)
    if issubclass(cls, Real):
        return rng.choice(REAL_VALUES)
    if issubclass(cls, Double):
        return rng.choice(DOUBLE_VALUES)
    if issubclass(cls, OctetString):
        if long_strings and rng.random() < 0.02:
            return rng.choice(LONG_OCTETS)
        if rng.random() < 0.3:
            return bytes(rng.randint(0, 255) for _ in range(rng.randint(0, max(max_len, 1) * 2)))
        return rng.choice(OCTET_VALUES)
    if issubclass(cls, CharacterString):
        if long_strings and rng.random() < 0.02:
            return rng.choice(LONG_CHARS)
        return rng.choice(CHAR_VALUES)
    if issubclass(cls, BitString):
        n = cls.bitLen or len(cls.bitNames)
        if cls is BitString or n == 0:
            n = rng.choice([0, 1, 7, 8, 9, 16, 17])
        return [rng.randint(0, 1) for _ in range(n)]
    if issubclass(cls, Enumerated):
        names = canonical_names(cls)
        vendor = getattr(cls, 'vendor_range', None)
        if not names:
            return rng.choice([0, 1, 255, 256, 65535, 2 ** 32 - 1])
        if vendor and rng.random() < 0.1:
            lo, hi = vendor
            cand = [v for v in (lo, hi, rng.randint(lo, hi)) if v not in cls._xlate_table and v < 2 ** 32]
            if cand:
                return rng.choice(cand)
        return rng.choice(names)
    if issubclass(cls, Date):
        if rng.random() < 0.3:
            return (rng.randint(0, 255), rng.randint(0, 255), rng.randint(0, 255), rng.randint(0, 255))
        return rng.choice(DATE_VALUES)
    if issubclass(cls, Time):
        if rng.random() < 0.3:
            return (rng.randint(0, 255), rng.randint(0, 255), rng.randint(0, 255), rng.randint(0, 255))
        return rng.choice(TIME_VALUES)
    if issubclass(cls, ObjectIdentifier):
        inst = rng.choice(INSTANCE_VALUES) if rng.random() < 0.8 else rng.randint(0, 4194303)
        return (_object_type_value(rng), inst)
    raise Ungeneratable("atomic class %s has no generation rule" % (cls.__name__,))


# ---------------------------------------------------------------------------
# constructed values
# ---------------------------------------------------------------------------

# small constructed payloads for Any (chosen lazily to avoid import cycles)
def _any_payload_classes():
    from bacpypes.basetypes import DateTime, DateRange, DeviceAddress, ObjectPropertyReference
    return [DateTime, DateRange, DeviceAddress, ObjectPropertyReference]


def _element_depth_cost(klass):
    return 0 if is_atomic(klass) else 1


def _own(cls, name):
    """the defining class of a method, to spot hand-written overrides"""
    for c in cls.__mro__:
        if name in c.__dict__:
            return c
    return None


def gen(cls, rng, depth=0, max_depth=4, max_len=3, plan=None, long_strings=True):
    """see module docstring.  plan (top level only): {'optionals': 'none'|'all'}
    for a Sequence, {'alt': k} for a Choice, {'len': n} for a list class."""
    if depth > max_depth + 8:
        raise Ungeneratable("nesting does not terminate for %s" % (getattr(cls, '__name__', cls),))
    if not inspect.isclass(cls):
        raise Ungeneratable("%r is not a class" % (cls,))
    plan = plan or {}
    kw = dict(max_depth=max_depth, max_len=max_len, long_strings=long_strings)
    deep = depth >= max_depth

    # -- lists -----------------------------------------------------------------
    if is_listlike(cls):
        sub = cls.subtype
        if is_array_of(cls) and cls.fixed_length is not None:
            n = cls.fixed_length
        elif 'len' in plan:
            n = plan['len']
        elif deep:
            n = 0
        else:
            n = rng.randint(0, max_len)
        items = [gen(sub, rng, depth + 1, **kw) for _ in range(n)]
        if is_array_of(cls):
            return cls(items)
        return items

    # -- atomic ----------------------------------------------------------------
    if issubclass(cls, Atomic):
        return gen_atomic(cls, rng, max_len, long_strings)

    # -- any -------------------------------------------------------------------
    if issubclass(cls, SequenceOfAny):
        from bacpypes.basetypes import DateTime
        sub = rng.choice([Unsigned, Real, CharacterString, DateTime])
        n = 0 if deep else rng.randint(0, max_len)
        items = [gen(sub, rng, max_depth, **kw) for _ in range(n)]
        return cls(ListOf(sub)(items))
    if issubclass(cls, Any):
        r = rng.random()
        if deep or r < 0.6:
            k = rng.choice(APPLICATION_CLASSES)
            return cls(k(gen_atomic(k, rng, max_len, long_strings)))
        if r < 0.8:
            # several application tags in a row (an array or list property)
            k = rng.choice(APPLICATION_CLASSES)
            return cls(*[k(gen_atomic(k, rng, max_len, long_strings)) for _ in range(rng.randint(0, max_len))])
        k = rng.choice(_any_payload_classes())
        return cls(gen(k, rng, max_depth, **kw))

    # -- hand-written name/value pair --------------------------------------------
    if issubclass(cls, Sequence) and _own(cls, 'encode') not in (Sequence, None) \
            and not _is_apci(cls):
        return _gen_custom_sequence(cls, rng, depth, kw)

    # -- sequence ----------------------------------------------------------------
    if issubclass(cls, Sequence):
        elements = cls.sequenceElements
        kwargs = {}
        for i, el in enumerate(elements):
            if el.optional:
                mode = plan.get('optionals')
                if mode == 'none' or (mode is None and (deep or rng.random() < 0.5)):
                    continue
                if mode == 'mask' and not plan['mask'][i]:
                    continue
            kwargs[el.name] = gen(el.klass, rng, depth + _element_depth_cost(el.klass), **kw)
        try:
            return cls(**kwargs)
        except Exception as err:
            raise Ungeneratable("%s(**kwargs) refused: %s: %s" % (cls.__name__, type(err).__name__, err))

    # -- choice ------------------------------------------------------------------
    if issubclass(cls, Choice):
        elements = cls.choiceElements
        if not elements:
            raise Ungeneratable("%s has no choiceElements (abstract)" % (cls.__name__,))
        if 'alt' in plan:
            el = elements[plan['alt'] % len(elements)]
        elif deep:
            atomics = [e for e in elements if is_atomic(e.klass) and not issubclass(e.klass, AnyAtomic)]
            el = atomics[0] if atomics else elements[0]
        else:
            el = rng.choice(elements)
        value = gen(el.klass, rng, depth + _element_depth_cost(el.klass), **kw)
        if (is_sequence_of(el.klass) or is_list_of(el.klass)) and isinstance(value, list):
            # Choice.encode wants an instance of the list class where
            # Sequence.encode wants the plain list
            value = el.klass(value)
        try:
            return cls(**{el.name: value})
        except Exception as err:
            raise Ungeneratable("%s(%s=...) refused: %s: %s" % (cls.__name__, el.name, type(err).__name__, err))

    raise Ungeneratable("%s is neither atomic, constructed, list nor any" % (cls.__name__,))


def _is_apci(cls):
    from bacpypes.apdu import APCI
    return issubclass(cls, APCI)


def _gen_custom_sequence(cls, rng, depth, kw):
    """Sequence subclasses with their own encode/decode.  NameValue is the one
    in the library: a context 0 name and an optional application tagged value
    (any atomic, or date followed by time read back as a DateTime)."""
    from bacpypes.basetypes import NameValue, DateTime
    if issubclass(cls, NameValue):
        name = gen_atomic(CharacterString, rng, kw['max_len'], kw['long_strings'])
        r = rng.random()
        if r < 0.3:
            return cls(name=name)
        if r < 0.45:
            return cls(name=name, value=gen(DateTime, rng, depth + 1, **kw))
        k = rng.choice(APPLICATION_CLASSES)
        return cls(name=name, value=k(gen_atomic(k, rng, kw['max_len'], kw['long_strings'])))
    raise Ungeneratable("%s overrides encode/decode; no generic rule" % (cls.__name__,))


# ---------------------------------------------------------------------------
# structural normal form
# ---------------------------------------------------------------------------

def _canon_plain(v):
    if isinstance(v, (bytes, bytearray)):
        return ('octets', bytes(v))
    if isinstance(v, (list, tuple)):
        return tuple(_canon_plain(x) for x in v)
    if isinstance(v, float):
        return ('float', repr(v))
    if isinstance(v, bool):
        return ('bool', v)
    return v


def _canon_atomic_instance(v):
    # application class only: subclasses of the thirteen collapse to the base
    for k in APPLICATION_CLASSES:
        if isinstance(v, k):
            return (k.__name__, _canon_plain(v.value))
    return (type(v).__name__, _canon_plain(getattr(v, 'value', None)))


def canon(cls, value):
    """comparable nested structure of an element value of class cls"""
    if value is None:
        return None
    if is_sequence_of(cls) or is_list_of(cls):
        if not isinstance(value, list):
            value = value.value                 # instance of the list class
        return [canon(cls.subtype, v) for v in value]
    if is_array_of(cls):
        body = value.value if isinstance(value, Array) else [len(value)] + list(value)
        return ('array', body[0], [canon(cls.subtype, v) for v in body[1:]])
    if issubclass(cls, AnyAtomic):
        return _canon_atomic_instance(value)
    if issubclass(cls, Atomic):
        return _canon_plain(value)
    if issubclass(cls, Any):
        return [(t.tagClass, t.tagNumber, t.tagLVT, bytes(t.tagData)) for t in value.tagList]
    if issubclass(cls, Sequence) and _own(cls, 'encode') not in (Sequence, None) and not _is_apci(cls):
        out = {}
        for el in cls.sequenceElements:
            v = getattr(value, el.name, None)
            if v is None:
                continue
            if isinstance(v, Atomic):
                out[el.name] = _canon_atomic_instance(v)
            elif isinstance(v, (Sequence, Choice)):
                out[el.name] = (type(v).__name__, canon(type(v), v))
            else:
                out[el.name] = _canon_plain(v)
        return out
    if issubclass(cls, Sequence):
        out = {}
        for el in cls.sequenceElements:
            v = getattr(value, el.name, None)
            if v is not None:
                out[el.name] = canon(el.klass, v)
        return out
    if issubclass(cls, Choice):
        out = {}
        for el in cls.choiceElements:
            v = getattr(value, el.name, None)
            if v is not None:
                out[el.name] = canon(el.klass, v)
        return out
    return ('?', repr(value))


def describe(cls, value, limit=500):
    """short printable form of a generated value"""
    try:
        s = repr(canon(cls, value))
    except Exception as err:                     # never let a report raise
        s = '<canon failed: %r>' % (err,)
    s = cls.__name__ + ' ' + s
    return s if len(s) <= limit else s[:limit - 3] + '...'


# ---------------------------------------------------------------------------
# class inventories
# ---------------------------------------------------------------------------

def all_service_classes():
    """kind -> list of classes (values of the four registries; the error
    registry maps eight service choices to six classes)"""
    import bacpypes.apdu as A
    return {
        'confirmed_request_types': list(A.confirmed_request_types.values()),
        'complex_ack_types': list(A.complex_ack_types.values()),
        'unconfirmed_request_types': list(A.unconfirmed_request_types.values()),
        'error_types': list(A.error_types.values()),
    }


def all_service_entries():
    """kind -> sorted list of (service choice, class): the 58 registrations"""
    import bacpypes.apdu as A
    return {
        'confirmed_request_types': sorted(A.confirmed_request_types.items()),
        'complex_ack_types': sorted(A.complex_ack_types.items()),
        'unconfirmed_request_types': sorted(A.unconfirmed_request_types.items()),
        'error_types': sorted(A.error_types.items()),
    }


def all_constructed_classes():
    """every Sequence / Choice subclass defined in basetypes and apdu that is a
    bare constructed type (service PDUs, which carry an APCI, are listed by
    all_service_classes)"""
    import bacpypes.basetypes as B
    import bacpypes.apdu as A
    out = []
    for mod in (B, A):
        for name, obj in inspect.getmembers(mod, inspect.isclass):
            if obj.__module__ != mod.__name__:
                continue
            if not issubclass(obj, (Sequence, Choice)):
                continue
            if issubclass(obj, A.APCI):
                continue
            out.append(obj)
    return sorted(set(out), key=lambda c: (c.__module__, c.__name__))


# ---------------------------------------------------------------------------
# encode / decode helpers
# ---------------------------------------------------------------------------

def service_choice_of(inst):
    """the service choice an instance will be sent with; error classes are
    registered under a choice but do not carry one themselves"""
    import bacpypes.apdu as A
    if inst.apduService is not None:
        return inst.apduService
    for choice, klass in sorted(A.error_types.items()):
        if klass is type(inst):
            return choice
    return None


def prepare_header(inst, invoke_id=1, service_choice=None, max_segs=0, max_resp=4):
    """fill the fixed header fields the access point / state machine would
    fill before the APDU reaches the wire"""
    import bacpypes.apdu as A
    if service_choice is not None:
        inst.apduService = service_choice
    elif inst.apduService is None:
        inst.apduService = service_choice_of(inst)
    if inst.apduType == A.ConfirmedRequestPDU.pduType:
        if inst.apduInvokeID is None:
            inst.apduInvokeID = invoke_id
        if inst.apduMaxSegs is None:
            inst.apduMaxSegs = max_segs
        if inst.apduMaxResp is None:
            inst.apduMaxResp = max_resp
    elif inst.apduType in (A.ComplexAckPDU.pduType, A.ErrorPDU.pduType, A.SimpleAckPDU.pduType):
        if inst.apduInvokeID is None:
            inst.apduInvokeID = invoke_id
    return inst


def encode_service(inst, invoke_id=1, service_choice=None):
    """octets of the full APDU: service parameters into an APDU, then the APDU
    (fixed header and tags) into a PDU"""
    import bacpypes.apdu as A
    prepare_header(inst, invoke_id, service_choice)
    apdu = A.APDU()
    inst.encode(apdu)
    pdu = PDU()
    apdu.encode(pdu)
    return bytes(pdu.pduData)


def decode_apdu(data):
    """octets -> (generic APDU, typed APDU of apdu_types) the way the network
    layer and StateMachineAccessPoint.confirmation do it"""
    import bacpypes.apdu as A
    apdu = A.APDU()
    apdu.decode(PDU(bytes(data)))
    atype = A.apdu_types.get(apdu.apduType)
    if atype is None:
        return apdu, None
    xpdu = atype()
    xpdu.decode(apdu)
    return apdu, xpdu


def decode_service(cls, data):
    import bacpypes.apdu as A
    apdu = A.APDU()
    apdu.decode(PDU(bytes(data)))
    inst = cls()
    inst.decode(apdu)
    return inst


def encode_constructed(inst):
    taglist = TagList()
    inst.encode(taglist)
    data = PDUData()
    taglist.encode(data)
    return bytes(data.pduData)


def decode_constructed_ex(cls, data):
    """-> (instance, number of tags left over)"""
    taglist = TagList()
    taglist.decode(PDUData(bytes(data)))
    inst = cls()
    inst.decode(taglist)
    return inst, len(taglist)


def decode_constructed(cls, data):
    return decode_constructed_ex(cls, data)[0]


HEADER_FIELDS = ('apduType', 'apduService', 'apduInvokeID', 'apduSeg', 'apduMor',
                 'apduSA', 'apduMaxSegs', 'apduMaxResp')


def header_of(inst):
    """fixed header fields with the flag bits normalised (None == False)"""
    out = {}
    for f in HEADER_FIELDS:
        v = getattr(inst, f, None)
        if f in ('apduSeg', 'apduMor', 'apduSA'):
            v = bool(v)
        out[f] = v
    return out
