"""
spec.rep_types -- a representative constructed type exercising every element
kind the generic Sequence / Choice / SequenceOf code of constructeddata.py
distinguishes: required and optional context-tagged atomics, an
application-tagged atomic, a nested constructed element (opening / closing
tags), a list of atomics in a context, a choice (atomic and constructed
alternatives) and an Any in a context.  The classes only carry metadata; the
encoders and decoders are the library's.
"""
from bacpypes.constructeddata import Sequence, Choice, SequenceOf, Element, Any
from bacpypes.primitivedata import Unsigned, Integer, Boolean, Enumerated

class Inner(Sequence):
    sequenceElements = [Element('a', Unsigned, 0), Element('b', Boolean, 1, True)]

class Alt(Choice):
    choiceElements = [Element('num', Unsigned, 0), Element('flag', Boolean, 1), Element('inner', Inner, 2)]

class Rep(Sequence):
    sequenceElements = [
        Element('ident', Unsigned, 0),
        Element('opt', Integer, 1, True),
        Element('app', Unsigned),
        Element('inner', Inner, 2, True),
        Element('items', SequenceOf(Unsigned), 3),
        Element('alt', Alt, 4, True),
        Element('extra', Any, 5, True),
        Element('tail', SequenceOf(Unsigned), 6, True),      # as in the library's own types, an optional list is the last element
    ]
