"""
spec.bvll -- BACnet/IP virtual link layer frames, written from ASHRAE 135
Annex J (J.2 BVLL messages), not from the library's code.

Every frame: type 0x81, function (1 octet), length (2 octets, most significant
first) = number of octets of the whole frame including these four.
"""

BVLL_TYPE = 0x81

def short(n):
    return bytes([n // 256, n % 256])

def long4(n):
    return bytes([n // 16777216, (n // 65536) % 256, (n // 256) % 256, n % 256])

def frame(function, body):
    n = 4 + len(body)
    return bytes([BVLL_TYPE, function]) + short(n) + body

# bodies ------------------------------------------------------------------------

def result(code):                       # J.2.1
    return short(code)

def bdt(entries):                       # J.2.2 / J.2.4: entries are (six address octets, 32-bit mask)
    out = b''
    for e in entries:
        out = out + e[0] + long4(e[1])
    return out

def forwarded_npdu(addr6, npdu):        # J.2.5
    return addr6 + npdu

def register_foreign_device(ttl):       # J.2.6
    return short(ttl)

def fdt(entries):                       # J.2.8: entries are (six address octets, ttl, remaining)
    out = b''
    for e in entries:
        out = out + e[0] + short(e[1]) + short(e[2])
    return out

def delete_fdt_entry(addr6):            # J.2.9
    return addr6

def parse_header(data):
    """(function, body) for a well-framed datagram, else None: the type must be
    0x81 and the length field must equal the datagram length"""
    if len(data) < 4:
        return None
    if data[0] != BVLL_TYPE:
        return None
    if data[2] * 256 + data[3] != len(data):
        return None
    return (data[1], data[4:])
