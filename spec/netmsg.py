"""
spec.netmsg -- bodies of the BACnet network-layer messages, written from
ASHRAE 135 clause 6.4 (6.4.1 Who-Is-Router-To-Network .. 6.4.20
Network-Number-Is), not from the library's code.  Two-octet quantities are
most significant octet first.
"""

def short(n):
    return bytes([n // 256, n % 256])

def nets(netlist):
    """6.4.2, 6.4.5, 6.4.6: a sequence of two-octet network numbers"""
    out = b''
    for n in netlist:
        out = out + short(n)
    return out

def who_is_router(net):
    """6.4.1: optional two-octet DNET"""
    return b'' if net is None else short(net)

def i_could_be_router(net, perf):
    """6.4.3: DNET, performance index"""
    return short(net) + bytes([perf])

def reject_message(reason, dnet):
    """6.4.4: reject reason, DNET"""
    return bytes([reason]) + short(dnet)

def routing_table(entries):
    """6.4.7/6.4.8: number of ports, then per port: DNET (2), port ID (1),
    port info length (1), port info; entries are (dnet, port_id, info)"""
    out = bytes([len(entries)])
    for e in entries:
        out = out + short(e[0]) + bytes([e[1], len(e[2])]) + e[2]
    return out

def establish_connection(dnet, termination_time):
    """6.4.9: DNET, termination time"""
    return short(dnet) + bytes([termination_time])

def disconnect_connection(dnet):
    """6.4.10: DNET"""
    return short(dnet)

def network_number_is(net, flag):
    """6.4.20: network number, flag (0 learned, 1 configured)"""
    return short(net) + bytes([flag])

def parse_nets(data):
    """the list of network numbers in data, or None when the length is odd"""
    if len(data) % 2 != 0:
        return None
    out = []
    for i in range(0, len(data), 2):
        out.append(data[i] * 256 + data[i + 1])
    return out
