"""
spec.apci -- the fixed part of the eight BACnet APDU types, written from
ASHRAE 135 clause 20.1 (20.1.2 .. 20.1.9), not from the library's code.

Pure Python over ints/bools/bytes: interpreted symbolically inside contracts
and executed natively in replays.

Bit layout of the first octet (bit 7 = MSB):
  bits 7..4  PDU type
  Confirmed-Request: bit3 SEG, bit2 MOR, bit1 SA, bit0 = 0
  Complex-ACK:       bit3 SEG, bit2 MOR, bits 1..0 = 0
  Segment-ACK:       bit1 NAK, bit0 SRV
  Abort:             bit0 SRV
Confirmed-Request second octet: bit7 = 0, bits 6..4 max-segments-accepted,
bits 3..0 max-APDU-length-accepted.
"""

CONFIRMED_REQUEST = 0
UNCONFIRMED_REQUEST = 1
SIMPLE_ACK = 2
COMPLEX_ACK = 3
SEGMENT_ACK = 4
ERROR = 5
REJECT = 6
ABORT = 7

# 20.1.2.4 max-segments-accepted: code -> meaning (None: 0 unspecified, 7 more than 64)
MAX_SEGMENTS = (None, 2, 4, 8, 16, 32, 64, None)
# 20.1.2.5 max-APDU-length-accepted: codes 0..5; 6..15 reserved
MAX_APDU = (50, 128, 206, 480, 1024, 1476)

def bit(flag):
    return 1 if flag else 0

def header(h):
    """octets of the fixed header for the header fields held by h"""
    t = h.apduType
    if t == CONFIRMED_REQUEST:
        first = [t * 16 + bit(h.apduSeg) * 8 + bit(h.apduMor) * 4 + bit(h.apduSA) * 2,
                 h.apduMaxSegs * 16 + h.apduMaxResp,
                 h.apduInvokeID]
        if h.apduSeg:
            return bytes(first + [h.apduSeq, h.apduWin, h.apduService])
        return bytes(first + [h.apduService])
    if t == UNCONFIRMED_REQUEST:
        return bytes([t * 16, h.apduService])
    if t == SIMPLE_ACK:
        return bytes([t * 16, h.apduInvokeID, h.apduService])
    if t == COMPLEX_ACK:
        first = [t * 16 + bit(h.apduSeg) * 8 + bit(h.apduMor) * 4, h.apduInvokeID]
        if h.apduSeg:
            return bytes(first + [h.apduSeq, h.apduWin, h.apduService])
        return bytes(first + [h.apduService])
    if t == SEGMENT_ACK:
        return bytes([t * 16 + bit(h.apduNak) * 2 + bit(h.apduSrv), h.apduInvokeID, h.apduSeq, h.apduWin])
    if t == ERROR:
        return bytes([t * 16, h.apduInvokeID, h.apduService])
    if t == REJECT:
        return bytes([t * 16, h.apduInvokeID, h.apduAbortRejectReason])
    if t == ABORT:
        return bytes([t * 16 + bit(h.apduSrv), h.apduInvokeID, h.apduAbortRejectReason])
    raise ValueError("no such PDU type")

def fields_in_range(h):
    """the header fields a PDU of h's type carries are within their widths"""
    t = h.apduType
    if t == CONFIRMED_REQUEST:
        return (0 <= h.apduMaxSegs <= 7 and 0 <= h.apduMaxResp <= 15 and 0 <= h.apduInvokeID <= 255
                and 0 <= h.apduService <= 255
                and ((not h.apduSeg) or (0 <= h.apduSeq <= 255 and 0 <= h.apduWin <= 255)))
    if t == UNCONFIRMED_REQUEST:
        return 0 <= h.apduService <= 255
    if t == SIMPLE_ACK or t == ERROR:
        return 0 <= h.apduInvokeID <= 255 and 0 <= h.apduService <= 255
    if t == COMPLEX_ACK:
        return (0 <= h.apduInvokeID <= 255 and 0 <= h.apduService <= 255
                and ((not h.apduSeg) or (0 <= h.apduSeq <= 255 and 0 <= h.apduWin <= 255)))
    if t == SEGMENT_ACK:
        return 0 <= h.apduInvokeID <= 255 and 0 <= h.apduSeq <= 255 and 0 <= h.apduWin <= 255
    if t == REJECT or t == ABORT:
        return 0 <= h.apduInvokeID <= 255 and 0 <= h.apduAbortRejectReason <= 255
    return True

def header_length(data):
    """number of header octets at the front of data, or None when data is
    not a complete header (truncated)"""
    if len(data) < 1:
        return None
    t = data[0] // 16
    seg = (data[0] // 8) % 2 == 1
    if t == CONFIRMED_REQUEST:
        n = 6 if seg else 4
    elif t == UNCONFIRMED_REQUEST:
        n = 2
    elif t == SIMPLE_ACK or t == ERROR or t == REJECT or t == ABORT:
        n = 3
    elif t == COMPLEX_ACK:
        n = 5 if seg else 3
    elif t == SEGMENT_ACK:
        n = 4
    else:
        return None
    if len(data) < n:
        return None
    return n

def parses(data):
    return header_length(data) is not None

def field(data, name, absent):
    """value of header field `name` carried by the header at the front of
    data (which must parse); `absent` when that PDU type has no such field"""
    t = data[0] // 16
    b0 = data[0]
    seg = (b0 // 8) % 2 == 1
    if name == 'apduType':
        return t
    if t == CONFIRMED_REQUEST:
        if name == 'apduSeg': return seg
        if name == 'apduMor': return (b0 // 4) % 2 == 1
        if name == 'apduSA': return (b0 // 2) % 2 == 1
        if name == 'apduMaxSegs': return (data[1] // 16) % 8
        if name == 'apduMaxResp': return data[1] % 16
        if name == 'apduInvokeID': return data[2]
        if seg:
            if name == 'apduSeq': return data[3]
            if name == 'apduWin': return data[4]
            if name == 'apduService': return data[5]
        else:
            if name == 'apduService': return data[3]
        return absent
    if t == UNCONFIRMED_REQUEST:
        if name == 'apduService': return data[1]
        return absent
    if t == SIMPLE_ACK or t == ERROR:
        if name == 'apduInvokeID': return data[1]
        if name == 'apduService': return data[2]
        return absent
    if t == COMPLEX_ACK:
        if name == 'apduSeg': return seg
        if name == 'apduMor': return (b0 // 4) % 2 == 1
        if name == 'apduInvokeID': return data[1]
        if seg:
            if name == 'apduSeq': return data[2]
            if name == 'apduWin': return data[3]
            if name == 'apduService': return data[4]
        else:
            if name == 'apduService': return data[2]
        return absent
    if t == SEGMENT_ACK:
        if name == 'apduNak': return (b0 // 2) % 2 == 1
        if name == 'apduSrv': return b0 % 2 == 1
        if name == 'apduInvokeID': return data[1]
        if name == 'apduSeq': return data[2]
        if name == 'apduWin': return data[3]
        return absent
    if t == REJECT:
        if name == 'apduInvokeID': return data[1]
        if name == 'apduAbortRejectReason': return data[2]
        return absent
    if t == ABORT:
        if name == 'apduSrv': return b0 % 2 == 1
        if name == 'apduInvokeID': return data[1]
        if name == 'apduAbortRejectReason': return data[2]
        return absent
    return absent

# -- capability tables -------------------------------------------------------

def max_segments_code(n):
    """largest code whose meaning does not exceed n (never rounds up);
    0/None: unspecified -> 0; more than 64 -> 7"""
    if n is None or n == 0:
        return 0
    if n > 64:
        return 7
    if n >= 64: return 6
    if n >= 32: return 5
    if n >= 16: return 4
    if n >= 8: return 3
    if n >= 4: return 2
    if n >= 2: return 1
    return None     # 1 segment or a negative number cannot be expressed

def max_segments_value(code):
    return MAX_SEGMENTS[code]

def max_apdu_code(n):
    if n >= 1476: return 5
    if n >= 1024: return 4
    if n >= 480: return 3
    if n >= 206: return 2
    if n >= 128: return 1
    if n >= 50: return 0
    return None

def max_apdu_value(code):
    if 0 <= code <= 5:
        return MAX_APDU[code]
    return None     # reserved
