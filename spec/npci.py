"""
spec.npci -- the BACnet network-layer header (NPCI), written from ASHRAE 135
clause 6.2 (6.2.1 version, 6.2.2 control octet and address fields, 6.2.3 hop
count, 6.2.4 message type, vendor ID), not from the library's code.

  octet 0  version (1)
  octet 1  control: bit7 network-layer message, bit6 reserved (0),
           bit5 DNET/DLEN/DADR/hop count present, bit4 reserved (0),
           bit3 SNET/SLEN/SADR present, bit2 data expecting reply,
           bits 1..0 network priority
  then     DNET (2) DLEN (1) DADR (DLEN)        if bit5; DNET 0xFFFF = global
                                                broadcast, DLEN 0 = broadcast on DNET
           SNET (2) SLEN (1) SADR (SLEN)        if bit3; SNET 0xFFFF and SLEN 0 are not allowed
           hop count (1)                        if bit5
           message type (1)                     if bit7
           vendor ID (2)                        if bit7 and message type 0x80..0xFF

Address kinds: 'station' (net, octets), 'broadcast' (net), 'global'.
"""

def control(is_message, has_dest, has_source, expecting_reply, priority):
    return ((128 if is_message else 0) + (32 if has_dest else 0) + (8 if has_source else 0)
            + (4 if expecting_reply else 0) + priority)

def dest_octets(kind, net, addr):
    if kind == 'station':
        return bytes([net // 256, net % 256, len(addr)]) + addr
    if kind == 'broadcast':
        return bytes([net // 256, net % 256, 0])
    return bytes([255, 255, 0])        # global

def header(version, expecting_reply, priority, dest, source, hop_count, message_type, vendor_id):
    """dest: None or (kind, net, addr); source: None or (net, addr)"""
    out = bytes([version, control(message_type is not None, dest is not None, source is not None, expecting_reply, priority)])
    if dest is not None:
        out = out + dest_octets(dest[0], dest[1], dest[2])
    if source is not None:
        out = out + bytes([source[0] // 256, source[0] % 256, len(source[1])]) + source[1]
    if dest is not None:
        out = out + bytes([hop_count])
    if message_type is not None:
        out = out + bytes([message_type])
        if message_type >= 128:
            out = out + bytes([vendor_id // 256, vendor_id % 256])
    return out

def parse(data):
    """None when the octets are not an acceptable header, else the tuple
    (control, expecting_reply, priority, dest, source, hop_count, message_type, vendor_id, header_length)"""
    n = len(data)
    if n < 2:
        return None
    if data[0] != 1:
        return None
    c = data[1]
    is_message = (c // 128) % 2 == 1
    has_dest = (c // 32) % 2 == 1
    has_source = (c // 8) % 2 == 1
    expecting_reply = (c // 4) % 2 == 1
    priority = c % 4
    pos = 2
    dest = None
    source = None
    hop = None
    if has_dest:
        if n < pos + 3:
            return None
        dnet = data[pos] * 256 + data[pos + 1]
        dlen = data[pos + 2]
        pos = pos + 3
        if n < pos + dlen:
            return None
        if dnet == 65535:
            dest = ('global', None, None)
        elif dlen == 0:
            dest = ('broadcast', dnet, None)
        else:
            dest = ('station', dnet, data[pos:pos + dlen])
        pos = pos + dlen
    if has_source:
        if n < pos + 3:
            return None
        snet = data[pos] * 256 + data[pos + 1]
        slen = data[pos + 2]
        pos = pos + 3
        if n < pos + slen:
            return None
        if snet == 65535 or slen == 0:
            return None
        source = (snet, data[pos:pos + slen])
        pos = pos + slen
    if has_dest:
        if n < pos + 1:
            return None
        hop = data[pos]
        pos = pos + 1
    mtype = None
    vendor = None
    if is_message:
        if n < pos + 1:
            return None
        mtype = data[pos]
        pos = pos + 1
        if mtype >= 128:
            if n < pos + 2:
                return None
            vendor = data[pos] * 256 + data[pos + 1]
            pos = pos + 2
    return (c, expecting_reply, priority, dest, source, hop, mtype, vendor, pos)
