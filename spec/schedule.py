"""
spec.schedule -- calendar date patterns (ASHRAE 135 clause 20.2.12 Date,
clause 21 BACnetDateRange / BACnetWeekNDay) and the evaluation of a Schedule
object (clause 12.24), written from the standard, not from the library's code.

Dates are (year - 1900, month, day, day_of_week) with day_of_week 1 = Monday
.. 7 = Sunday; times are (hour, minute, second, hundredths), compared
lexicographically.
"""

def is_leap(y):
    return (y % 4 == 0 and y % 100 != 0) or y % 400 == 0

def days_in_month(y, m):
    """Gregorian calendar; y is the full year"""
    if m == 2:
        return 29 if is_leap(y) else 28
    if m == 4 or m == 6 or m == 9 or m == 11:
        return 30
    return 31

def is_calendar_date(date):
    """a specific date of the years 1900..2154 (the weekday is not checked here)"""
    y, m, d, w = date
    return 0 <= y <= 254 and 1 <= m <= 12 and 1 <= d <= days_in_month(y + 1900, m) and 1 <= w <= 7

def month_ok(m, p):
    return p == 255 or (p == 13 and m % 2 == 1) or (p == 14 and m % 2 == 0) or p == m

def match_date(date, pattern):
    """20.2.12: year 255 = any; month 13 = odd, 14 = even, 255 = any; day 32 = last day of the month, 33 = odd days,
    34 = even days, 255 = any; day of week 255 = any"""
    y, m, d, w = date
    yp, mp, dp, wp = pattern
    year_ok = yp == 255 or yp == y
    day_ok = (dp == 255 or (dp == 32 and d == days_in_month(y + 1900, m)) or (dp == 33 and d % 2 == 1) or (dp == 34 and d % 2 == 0) or dp == d)
    dow_ok = wp == 255 or wp == w
    return year_ok and month_ok(m, mp) and day_ok and dow_ok

def unspecified(d3):
    return d3[0] == 255 and d3[1] == 255 and d3[2] == 255

def le3(a, b):
    return a[0] < b[0] or (a[0] == b[0] and (a[1] < b[1] or (a[1] == b[1] and a[2] <= b[2])))

def match_date_range(date, start, end):
    """clause 21 BACnetDateRange: start <= date <= end on (year, month, day); an unspecified start or end leaves that side open"""
    d = (date[0], date[1], date[2])
    return (unspecified(start) or le3((start[0], start[1], start[2]), d)) and (unspecified(end) or le3(d, (end[0], end[1], end[2])))

def match_weeknday(date, month_p, week_p, dow_p):
    """clause 21 BACnetWeekNDay: week of month 1..5 = days 1-7, 8-14, 15-21, 22-28, 29-31; 6 = last 7 days; 7, 8, 9 = the 7 days
    before the last 7, 14, 21 days; 255 = any"""
    y, m, d, w = date
    last = days_in_month(y + 1900, m)
    if week_p == 255:
        week_ok = True
    elif 1 <= week_p <= 5:
        week_ok = 7 * (week_p - 1) + 1 <= d <= 7 * week_p
    elif 6 <= week_p <= 9:
        week_ok = last - 7 * (week_p - 5) + 1 <= d <= last - 7 * (week_p - 6)
    else:
        week_ok = True          # not a defined code: the standard gives it no meaning
    return month_ok(m, month_p) and week_ok and (dow_p == 255 or dow_p == w)

# -- schedule evaluation (12.24.4 .. 12.24.9) ------------------------------------------------

END_OF_DAY = (24, 0, 0, 0)

def latest_entry(entries, t):
    """the last (time, value) entry at or before t of a time-ordered list, or None"""
    found = None
    for e in entries:
        if e[0] <= t:
            found = e
    return found

def value_at(in_period, exceptions, daily, default, t):
    """the value a schedule shows at time t of a day:
    in_period    the day lies in the effective period
    exceptions   [(priority 1..16, in force that day, [(time, value or None for Null)])]
    daily        [(time, value or None)] of that weekday
    -> ('none',) outside the effective period, else ('value', v)"""
    if not in_period:
        return ('none',)
    for p in range(1, 17):
        for (prio, in_force, entries) in exceptions:
            if prio == p and in_force:
                e = latest_entry(entries, t)
                if e is not None and e[1] is not None:
                    return ('value', e[1])
    e = latest_entry(daily, t)
    if e is not None and e[1] is not None:
        return ('value', e[1])
    return ('value', default)
