"""
spec.tags -- BACnet tag framing, written from ASHRAE 135 clause 20.2.1
(20.2.1.1 class, 20.2.1.2 tag number, 20.2.1.3 length/value/type), not from
the library's code.

initial octet:  bits 7..4 tag number (1111: the number follows in one octet)
                bit 3     class (0 application, 1 context specific)
                bits 2..0 length/value/type:
                    0..4  length of the content in octets
                    101   the length follows: one octet 5..253; 254 then two
                          octets; 255 then four octets
                    110   opening tag, 111 closing tag (class bit set)
application-tagged Boolean: L/V/T holds the value, there is no content.
"""

APPLICATION = 0
CONTEXT = 1
OPENING = 2
CLOSING = 3
BOOLEAN = 1

def is_app_boolean(tclass, tnum):
    return tclass == APPLICATION and tnum == BOOLEAN

def wf(tclass, tnum, lvt, data):
    """a tag the encoder can be asked to frame"""
    if not (0 <= tclass <= 3 and 0 <= tnum <= 254):
        return False
    if tclass == OPENING or tclass == CLOSING:
        return lvt == 0 and len(data) == 0
    if is_app_boolean(tclass, tnum):
        return len(data) == 0 and 0 <= lvt < 4294967296
    return lvt == len(data) and lvt < 4294967296

def head(tclass, tnum, lvt):
    """octets in front of the content"""
    if tclass == CONTEXT:
        low = 8
    elif tclass == OPENING:
        low = 14
    elif tclass == CLOSING:
        low = 15
    else:
        low = 0
    if tclass == APPLICATION or tclass == CONTEXT:
        low = low + (lvt if lvt < 5 else 5)
    first = (tnum * 16 if tnum < 15 else 240) + low
    out = [first]
    if tnum >= 15:
        out = out + [tnum]
    if (tclass == APPLICATION or tclass == CONTEXT) and lvt >= 5:
        if lvt <= 253:
            out = out + [lvt]
        elif lvt <= 65535:
            out = out + [254, lvt // 256, lvt % 256]
        else:
            out = out + [255, lvt // 16777216, (lvt // 65536) % 256, (lvt // 256) % 256, lvt % 256]
    return bytes(out)

def frame(tclass, tnum, lvt, data):
    return head(tclass, tnum, lvt) + data

def parse(octets):
    """(tclass, tnum, lvt, data, consumed) of the tag at the front of octets,
    or None when the octets are not a complete tag"""
    n = len(octets)
    if n < 1:
        return None
    first = octets[0]
    pos = 1
    tnum = first // 16
    if tnum == 15:
        if n < pos + 1:
            return None
        tnum = octets[pos]
        pos = pos + 1
    tclass = (first // 8) % 2
    lvt = first % 8
    if lvt == 5:
        if n < pos + 1:
            return None
        lvt = octets[pos]
        pos = pos + 1
        if lvt == 254:
            if n < pos + 2:
                return None
            lvt = octets[pos] * 256 + octets[pos + 1]
            pos = pos + 2
        elif lvt == 255:
            if n < pos + 4:
                return None
            lvt = ((octets[pos] * 256 + octets[pos + 1]) * 256 + octets[pos + 2]) * 256 + octets[pos + 3]
            pos = pos + 4
    elif lvt == 6:
        tclass = OPENING
        lvt = 0
    elif lvt == 7:
        tclass = CLOSING
        lvt = 0
    if is_app_boolean(tclass, tnum):
        return (tclass, tnum, lvt, b'', pos)
    if n < pos + lvt:
        return None
    return (tclass, tnum, lvt, octets[pos:pos + lvt], pos + lvt)
