"""
spec.addr -- what BACnet address notations denote (ASHRAE 135 clause 6.2.2
addressing, Annex J.1.2 B/IP addresses) and IPv4 prefix arithmetic as the
standard library's `ipaddress` module defines it: for an address word ip and a
prefix length m,

    netmask   = 2**32 - 2**(32-m)
    network   = ip & netmask          (ip - ip mod 2**(32-m))
    hostmask  = 2**(32-m) - 1
    host      = ip & hostmask         (ip mod 2**(32-m))
    broadcast = network | hostmask    (network + 2**(32-m) - 1)
"""

NULL = 0
LOCAL_BROADCAST = 1
LOCAL_STATION = 2
REMOTE_BROADCAST = 3
REMOTE_STATION = 4
GLOBAL_BROADCAST = 5

def ip_word(o):
    return ((o[0] * 256 + o[1]) * 256 + o[2]) * 256 + o[3]

def word_octets(w):
    return bytes([w // 16777216, (w // 65536) % 256, (w // 256) % 256, w % 256])

def netmask(m):
    return 4294967296 - 2 ** (32 - m)

def network(ip, m):
    return (ip // 2 ** (32 - m)) * 2 ** (32 - m)

def host(ip, m):
    return ip % (2 ** (32 - m))

def broadcast(ip, m):
    return network(ip, m) + 2 ** (32 - m) - 1

def port_octets(p):
    return bytes([(p // 256) % 256, p % 256])
