"""
spec.balance -- extraction of context-tagged values and groups from a tag
list (clause 20.2.1.3.2: an opening tag and the closing tag with the same
nesting level delimit a constructed value), written as a direct definition
over the list of tag classes and numbers.

classes: 0 application, 1 context, 2 opening, 3 closing.
"""

def matching_close(classes, i):
    """index of the closing tag that balances the opening tag at i, or None"""
    depth = 0
    for j in range(i + 1, len(classes)):
        if classes[j] == 2:
            depth = depth + 1
        elif classes[j] == 3:
            if depth == 0:
                return j
            depth = depth - 1
    return None

def get_context(classes, numbers, context):
    """what a search for `context` over the top level of the list yields:
    ('tag', i)        the context tag at i
    ('group', a, b)   the tags a..b-1 between the opening tag a-1 and its closing tag b
    ('none',)         nothing with that context number at the top level
    ('invalid',)      the list does not balance (or has a stray closing tag) before anything was found"""
    i = 0
    n = len(classes)
    while i < n:
        c = classes[i]
        if c == 0:
            i = i + 1
        elif c == 1:
            if numbers[i] == context:
                return ('tag', i)
            i = i + 1
        elif c == 2:
            j = matching_close(classes, i)
            if j is None:
                return ('invalid',)
            if numbers[i] == context:
                return ('group', i + 1, j)
            i = j + 1
        else:
            return ('invalid',)
    return ('none',)

def any_extent(classes):
    """how many tags from the front belong to a constructed value's content:
    everything up to (not including) the first closing tag that is not matched
    by an opening tag inside the content; ('ok', k) or ('unbalanced',) when
    the list ends inside an open group"""
    depth = 0
    for j in range(len(classes)):
        if classes[j] == 2:
            depth = depth + 1
        elif classes[j] == 3:
            if depth == 0:
                return ('ok', j)
            depth = depth - 1
    if depth > 0:
        return ('unbalanced',)
    return ('ok', len(classes))
