"""setup-time smoke test of the engine: one proof and one refutation on a tiny contract"""
import os, sys
VERIF = os.path.dirname(os.path.dirname(os.path.abspath(__file__)))
sys.path.insert(0, VERIF)
sys.path.insert(0, os.path.join(os.environ.get('BACPYPES_REPO', '/repo'), 'py34'))
from pyvc.contracts import Contract, Obj, Bytes, Int, verify_unit
from bacpypes.errors import DecodingError
good = Contract("bacpypes.comm:PDUData.get", {"self": Obj("bacpypes.comm:PDUData", pduData=Bytes(mutable=True))},
                raises=[(DecodingError, "len(self.pduData) == 0")],
                post={"result": "old(self.pduData)[0]", "self.pduData[:]": "old(self.pduData)[1:]"}, namespace=globals())
bad = Contract("bacpypes.comm:PDUData.get", {"self": Obj("bacpypes.comm:PDUData", pduData=Bytes(mutable=True))},
               raises=[(DecodingError, "len(self.pduData) == 0")],
               post={"result": "old(self.pduData)[0]", "self.pduData[:]": "old(self.pduData)[2:]"}, namespace=globals())
rr = os.path.join(os.environ.get('BACPYPES_REPO', '/repo'), 'py34')
a = verify_unit(good, rr, VERIF)
b = verify_unit(bad, rr, VERIF)
assert a.status() == 'proved', (a.status(), a.error)
assert b.status() == 'refuted', (b.status(), b.error)
# a contract stands in only for calls inside the domain it declares (a CharacterString source is not a str)
from bacpypes.primitivedata import CharacterString
from pyvc.contracts import Str
dom = Contract("bacpypes.primitivedata:CharacterString.__init__", {"self": Obj("bacpypes.primitivedata:CharacterString"),
               "arg": Obj("bacpypes.primitivedata:CharacterString", value=Str())}, post={"self.value": "arg.value"}, namespace=globals())
assert dom._args_in_domain({"self": CharacterString(), "arg": CharacterString("a")})
assert not dom._args_in_domain({"self": CharacterString(), "arg": "a"})
print("pyvc smoke test ok: %d clauses proved, canary refuted" % len(a.clauses))
