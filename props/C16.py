"""C16 -- COV subscribers are told of every qualifying change, and only while subscribed."""
ID = "C16"
LEVEL = "proof"
MODULES = ["contracts.comm", "contracts.cov"]
_NS = 4 if __import__("os").environ.get("VERIF_TIER") == "thorough" else 3
_D = "bacpypes.service.detect:"
_C = "bacpypes.service.cov:"
FUNCTIONS = ([_C + "COVIncrementCriteria.present_value_filter"]
    + [_D + "DetectionMonitor.property_change[%s]" % k for k in ("analog presentValue", "generic presentValue", "statusFlags")]
    + [_D + "DetectionAlgorithm._execute[%s, %d subscriptions]" % (c, n) for c in ("COVIncrementCriteria", "GenericCriteria") for n in range(_NS)]
    + [_C + "Subscription.process_task[%d subscriptions]" % n for n in (1, 2)]
    + [_C + "ChangeOfValueServices.do_SubscribeCOVRequest[%d subscriptions]" % n for n in range(_NS)]
    + [_C + "ActiveCOVSubscriptions.ReadProperty[%d subscriptions]" % n for n in range(_NS)])
LEMMAS = []
MIN_OBLIGATIONS = 30
BOUNDED = None
ASSUMPTIONS = [
    "the monitored object, the application leaf (object lookup, response, request_io), the clock and the datatype / Any constructors that bundle reported values are sidecar stand-ins (GhostObject, GhostApp / NotifyApp, GhostTaskManager, GhostDatum); the code under contract is the real detect.py / cov.py",
    "timers are the trusted summaries of _Task.install_task / suspend_task (verified under C14); core.deferred is a ghost-traced external (its drain is verified under C14)",
    "bounded in structure: 0..2 subscriptions per object; subscribers, process identifiers, lifetimes, values, increments and the clock are symbolic",
    "whole-history claim (random timelines) = induction over the per-call contracts: each change of a tracked property triggers at most one deferred run per burst and the run notifies every subscription in the list exactly once; the list holds exactly the subscriptions created and not yet cancelled / expired",
    "floats as reals",
]
NOT_DECIDED = [
    "SubscribeCOVProperty",
    "the criteria classes other than GenericCriteria and COVIncrementCriteria (pulse converter period filter, access point, load control)",
    "delivery of a confirmed notification through the IOCB / transaction layers (C04)",
]
EXPLANATION = ("present_value_filter reports a change iff it is at least the COV increment away from the last reported value; DetectionMonitor.property_change always "
               "mirrors the new value into the algorithm (also while a run is pending), triggers iff the filter (or !=) says so and defers exactly one run per burst; "
               "the run (_execute -> execute -> send_cov_notifications) hands the application exactly one notification per subscription, in order, of the requested kind "
               "(confirmed / unconfirmed), addressed to the subscriber with its process identifier, carrying the object's current present value and status flags and the "
               "remaining lifetime (0 for indefinite, at least 1 otherwise), remembers the reported value and clears the trigger; expiry (Subscription.process_task) and "
               "cancellation remove exactly that subscription, disarm its timer, and when it was the object's last one unhook every monitor and drop the detection from the "
               "application's map; SubscribeCOV is acknowledged, creates exactly one subscription per (subscriber, process id, object), re-times and re-parameterises an "
               "existing one instead of adding a second, arms the lifetime timer iff the lifetime is non-zero, and defers an initial notification to that subscriber; the active-subscriptions property lists exactly the live subscriptions, each with its subscriber, "
               "process identifier, object, notification type and remaining lifetime.")
LEVEL_TEXT = "Proof per entry point for all values, increments, lifetimes and clock readings over 0..2 subscriptions per object; histories by induction over the per-call contracts."
LEVEL_NOTE = ("Trusted: pyvc (cross-checked against CPython every run), z3/cvc5, the sidecar stand-ins listed under assumptions. Two genuine defects were repaired "
              "(see known_findings.json).")
