"""C17 -- a commandable value equals its highest-priority command or the default."""
ID = "C17"
LEVEL = "proof"
MODULES = ["contracts.comm", "contracts.commandable", "lemmas.c17"]
_K = ("analog", "binary", "multistate")
FUNCTIONS = (["local.object:_Commando._highest_priority_value[%s]" % k for k in _K]
    + ["local.object:_Commando.WriteProperty[%s, presentValue, priority %s]" % (k, p) for k in _K for p in [None] + list(range(1, 17))
       if not (k == "binary" and p == 6)]
    + ["local.object:_Commando.WriteProperty[%s, presentValue, priority out of range]" % k for k in _K]
    + ["local.object:_Commando.WriteProperty[%s, priorityArray, index out of range]" % k for k in _K]
    + ["local.object:_Commando.WriteProperty[%s, priorityArray, index %d]" % (k, p) for k in _K for p in ((1, 8, 16) if k == "binary" else (1, 6, 8, 16))]
    + ["bacpypes.local.object:MinOnOffTask.present_value_change", "bacpypes.local.object:MinOnOffTask.process_task"])
LEMMAS = ["C17.constructed_consistent"]
MIN_OBLIGATIONS = 300
BOUNDED = "bounded.c17"
ASSUMPTIONS = [
    "the commandable classes are used registered (register_object_type), as the library's samples do; unregistered, presentValue stays the base class's read-only property",
    "the mix-in is verified on three representative datatypes (Real stored as is; BinaryPV, an enumeration: names outside, numbers in the slots, with MinOnOff; Unsigned); the 20 classes differ only in the datatype handed to the same factory and are swept natively in the bounded stage (18 constructed; the two DateTime-valued ones are skipped there)",
    "for binary objects priority 6 is reserved for the minimum on/off algorithm, which commands that slot itself; commands at priority 6 are not claimed to be 'held as commanded' for them",
    "whole-history claim = induction over the contracts: invariant established by the constructor (lemma), preserved by every command for every state satisfying it (contracts), refused commands change nothing (frame condition on the raising path)",
    "_Task.install_task (arming the release timer) is a ghost-traced external here; its own contract is verified under C14; property monitors other than MinOnOff (COV) are absent from the object under contract",
    "floats as reals",
]
NOT_DECIDED = ["the two DateTime-valued commandable classes", "timer expiry itself (task scheduling is C14)"]
EXPLANATION = ("The object under contract is a real instance built by its own constructor whose sixteen slots, default and present value are symbolic "
               "(each slot null or holding a value, decided lazily). _highest_priority_value returns the value of the lowest-numbered non-null slot or "
               "the default; every WriteProperty at priority 1..16 (none = 16), through presentValue or priorityArray[index], sets exactly that slot to "
               "the commanded value (relinquish = null), leaves every other slot and property unchanged (checked frame condition) and re-establishes "
               "present value == winner; priorities outside 1..16 are refused with the right error code and change nothing; the minimum on/off task "
               "holds a new active state at priority 6 for the minimum on time and a new inactive state for the minimum off time, and releases it.")
LEVEL_TEXT = ("Proof for all slot contents, defaults, commanded values and priorities (all integers for the refusals) on the real mix-in code for three "
              "representative datatypes; unbounded histories by induction over the per-command contracts. The per-class instantiation of the factory "
              "and multi-step histories are additionally swept natively (bounded stage).")
LEVEL_NOTE = ("Trusted: pyvc (cross-checked against CPython every run), z3, the induction step composing per-call contracts into histories (standard "
              "invariant argument, not machine-checked as a whole). Bounded: which of the 20 classes are exercised natively.")
