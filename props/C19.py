"""C19 -- routing knowledge stays coherent: one next hop per destination, newest wins."""
ID = "C19"
LEVEL = "proof"
MODULES = ["contracts.comm", "contracts.netcache"]
FUNCTIONS = (["bacpypes.netservice:RouterInfoCache.get_router_info[%d paths]" % k for k in range(4)]
             + ["bacpypes.netservice:RouterInfoCache.update_router_info", "bacpypes.netservice:RouterInfoCache.delete_router_info[router]",
                "bacpypes.netservice:RouterInfoCache.delete_router_info[destinations]", "bacpypes.netservice:RouterInfoCache.update_source_network"])
LEMMAS = []
MIN_OBLIGATIONS = 10
BOUNDED = "bounded.c19"
ASSUMPTIONS = [
    "the mutating operations (update_router_info, delete_router_info with and without a router, update_source_network) are verified over a structurally bounded cache: every assignment of three destinations of attached network 1 to {nobody, router A, router B} (27 states, built through the real update_router_info) plus a separate path on network 2 that must stay untouched; arguments: routers A / B / a new one, every non-empty subset of the destinations plus a foreign destination; the code uses network numbers and addresses only as dictionary keys, so concrete representatives stand for all values (the lookup itself is verified with symbolic numbers)",
    "update_source_network(old, new) is used with `new` not yet holding routers (two adapters cannot be attached to the same network); renumbering onto a populated network overwrites its routers and is outside the contract's precondition",
    "unbounded histories = induction over the per-call contracts: each operation maps a cache satisfying the representation invariant to one satisfying it, with the abstract view changed exactly as stated; the bounded stage additionally drives whole histories (sequences to depth 4 / 5, random length 300, real I-Am-Router-To-Network messages and traffic after renumbering)",
]
NOT_DECIDED = ["caches with more than two routers per attached network or more than three destinations in one call (structural bound)"]
EXPLANATION = ("get_router_info returns the record credited with (attached network, destination) or None for any network numbers and never changes the cache. "
               "update_router_info makes the named router the next hop for exactly the given destinations (newest knowledge wins, also over another router's older claim), "
               "delete_router_info forgets exactly the given router (entirely or for the given destinations) or exactly the given destinations, update_source_network moves an "
               "attached network's knowledge to its new number; each leaves every other (network, destination) pair as it was, keeps the two indexes of the cache in agreement "
               "(no path to a record the router table does not hold, no router credited with a destination the lookup does not lead to, no router left with no destinations) "
               "and never touches the knowledge of another attached network.")
LEVEL_TEXT = ("Proof per operation over a structurally bounded cache (27 states x routers x destination sets) with the abstract view and the representation invariant as "
              "postconditions; symbolic network numbers for the lookup; whole histories by induction and, bounded, by the native stage.")
LEVEL_NOTE = ("Trusted: pyvc (cross-checked against CPython every run), z3/cvc5. Bounded: number of routers and destinations in the cache; the native stage's sequences "
              "<= 4/5 over 2x3x4 plus random length 300. One genuine defect (delete_router_info) was repaired.")
