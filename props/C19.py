"""C19 -- routing knowledge stays coherent: one next hop per destination, newest wins."""
ID = "C19"
LEVEL = "other"
MODULES = ["contracts.comm", "contracts.netcache"]
FUNCTIONS = ["bacpypes.netservice:RouterInfoCache.get_router_info[%d paths]" % k for k in range(4)]
LEMMAS = []
MIN_OBLIGATIONS = 4
BOUNDED = "bounded.c19"
ASSUMPTIONS = [
    "the mutating operations (update_router_info, delete_router_info, update_source_network) are dicts of dicts of identity-compared records traversed by nested loops: outside the encoded subset for an unbounded proof; they are decided by executable contracts (abstract view path: (attached net, destination) -> router, representation invariant 'the two indexes agree') checked after every operation over ALL operation sequences up to length 4 (quick) / 5 (thorough) on 2 attached networks x 3 routers x 4 destinations from every distinct abstract state, plus random sequences of length 300 -- the property's own exhaustive bound",
    "update_source_network(old, new) is used with `new` not yet holding routers (two adapters cannot be attached to the same network); renumbering onto a populated network overwrites its routers and is outside the contract's precondition",
]
NOT_DECIDED = ["unbounded proof of the mutating cache operations (heap with quantified invariants)"]
EXPLANATION = ("get_router_info is verified deductively (symbolic network numbers). update/delete/renumber are stated as contracts over the abstract view and "
               "the representation invariant and checked exhaustively (breadth-first over distinct abstract states) through the public methods, and through "
               "real I-Am-Router-To-Network messages into a NetworkServiceAccessPoint -- bounded, never counted as proved.")
LEVEL_TEXT = ("Bounded-exhaustive check of executable contracts (abstract view + representation invariant) over the property's own bound; only the loop-free "
              "lookup is a discharged proof. This is the level DESIGN.md commits for C19: the nested-dict heap structure is not within reach of the home-made "
              "VC generator without quantified heap invariants.")
LEVEL_NOTE = ("Bounded: sequences <= 4/5 over 2x3x4 plus random length 300. Trusted: the model interpreter in bounded/c19.py (the abstract 'newest wins / forget "
              "exactly that' semantics written from the property statement).")
