"""C08 -- network-layer headers and messages encode and decode faithfully."""
ID = "C08"
LEVEL = "proof"
MODULES = ["contracts.comm", "contracts.npdu", "lemmas.c08"]
_MSGS = ["WhoIsRouterToNetwork", "IAmRouterToNetwork", "ICouldBeRouterToNetwork", "RejectMessageToNetwork", "RouterBusyToNetwork",
         "RouterAvailableToNetwork", "InitializeRoutingTable", "InitializeRoutingTableAck", "EstablishConnectionToNetwork",
         "DisconnectConnectionToNetwork", "WhatIsNetworkNumber", "NetworkNumberIs"]
FUNCTIONS = [
    "bacpypes.comm:PDUData.get", "bacpypes.comm:PDUData.get_data", "bacpypes.comm:PDUData.get_short",
    "bacpypes.comm:PDUData.put", "bacpypes.comm:PDUData.put_data[bytes]", "bacpypes.comm:PDUData.put_short",
    "bacpypes.pdu:PCI.update", "bacpypes.npdu:NPCI.update", "bacpypes.npdu:NPCI.encode", "bacpypes.npdu:NPCI.decode",
    "bacpypes.npdu:NPDU.encode", "bacpypes.npdu:NPDU.decode",
] + ["bacpypes.npdu:%s.%s" % (m, f) for m in _MSGS for f in ("encode", "decode")]
LEMMAS = ["C08.header_roundtrip", "C08.forbidden_refused", "C08.truncated_refused"] + ["C08.msg." + n for n in (
    "who_is_router", "i_am_router", "i_could_be_router", "reject_message", "router_busy", "router_available",
    "initialize_routing_table", "initialize_routing_table_ack", "establish_connection", "disconnect_connection",
    "what_is_network_number", "network_number_is")]
MIN_OBLIGATIONS = 300
BOUNDED = "bounded.c08"
ASSUMPTIONS = [
    "header fields within their widths: priority 0..3, hop count 0..255, message type 0..255, vendor ID 0..65535, network numbers 0..65534 for addresses and 0..65535 in message bodies (put_short masks wider values silently; they are outside the property)",
    "station addresses of 1..255 octets",
    "list-valued messages (I-Am-Router, Router-Busy/Available: 0..3 networks; routing tables: 0..2 entries with port info of 0..255 octets) are verified bounded in structure with every value symbolic; longer lists are covered by the bounded stage only (0..20 / 0..5)",
    "spec/npci.py and spec/netmsg.py are faithful transcriptions of clauses 6.2 and 6.4 (hand-written)",
]
NOT_DECIDED = ["unbounded list lengths for the five list-valued messages (loop invariants not yet supplied)"]
EXPLANATION = ("NPCI/NPDU encode and decode and all twelve message codecs carry contracts verified against the real bodies; the header round trip is "
               "one lemma over a fully symbolic header (all 2**8 reachable control combinations, symbolic addresses of symbolic length 1..255); "
               "refusal of forbidden and of truncated headers are two further lemmas over arbitrary octets / arbitrary cut points.")
LEVEL_TEXT = ("Proof for all inputs of the network header: layout per clause 6.2, exact inverse for every flag/priority/destination/source/hop/"
              "message-type/vendor combination with addresses of any length 1..255 and payload of any length; decode of arbitrary octets returns "
              "only what the standard's layout accepts and raises only DecodingError (version, broadcast or empty source, any truncation). The seven "
              "fixed-layout messages are proved for all parameter values; the five list-valued ones for bounded list lengths (bounded stage beyond).")
LEVEL_NOTE = ("Trusted: pyvc (cross-checked against CPython every run), z3, spec/npci.py + spec/netmsg.py as transcriptions of clauses 6.2/6.4. "
              "Bounded, not proved: list lengths above 3 networks / 2 table entries.")
