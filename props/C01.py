"""C01 -- primitive values survive encoding unchanged and are never silently altered."""
ID = "C01"
LEVEL = "proof"
MODULES = ["contracts.comm", "contracts.primitivedata", "lemmas.c01"]
_P = "bacpypes.primitivedata:"
FUNCTIONS = [
    "bacpypes.comm:PDUData.get", "bacpypes.comm:PDUData.get_data", "bacpypes.comm:PDUData.get_short", "bacpypes.comm:PDUData.get_long",
    "bacpypes.comm:PDUData.put", "bacpypes.comm:PDUData.put_data[bytes]", "bacpypes.comm:PDUData.put_short", "bacpypes.comm:PDUData.put_long",
] + [_P + n for n in (
    "Tag.set", "Tag.set_app_data", "Tag.encode", "Tag.decode", "Tag.app_to_context",
    "Tag.context_to_app[boolean]", "Tag.context_to_app[other]",
    "Null.encode", "Null.decode", "Boolean.encode", "Boolean.decode",
    "Unsigned.encode", "Unsigned.decode", "Integer.encode", "Integer.decode",
    "Enumerated.encode[number]", "Enumerated.decode[Segmentation]", "Enumerated.encode[Segmentation name]",
    "OctetString.encode", "OctetString.decode", "CharacterString.encode", "CharacterString.__init__[copy]",
    "Date.encode", "Date.decode", "Time.encode", "Time.decode",
    "BitString.encode", "BitString.decode", "Real.encode", "Real.decode", "Double.encode", "Double.decode",
    "ObjectIdentifier.get_tuple", "ObjectIdentifier.get_long", "ObjectIdentifier.set_long", "ObjectIdentifier.set_tuple",
    "ObjectIdentifier.encode", "ObjectIdentifier.decode")]
LEMMAS = ["C01.null", "C01.boolean", "C01.unsigned", "C01.unsigned8_16", "C01.integer", "C01.enumerated_number",
          "C01.enumerated_named", "C01.real", "C01.double", "C01.octetstring", "C01.characterstring_octets",
          "C01.bitstring", "C01.date", "C01.time", "C01.objectidentifier", "C01.objectidentifier_word"]
MIN_OBLIGATIONS = 250
BOUNDED = "bounded.c01"
ASSUMPTIONS = [
    "IEEE-754 conversion is struct.pack/unpack's (uninterpreted word function with the axiom unpack(pack(x)) == round-to-format(x)); Real's 'same value' is the value rounded to binary32; NaN/infinities are outside the real-number model and covered by the bounded stage only",
    "the utf-8 text codec is trusted: CharacterString is proved at the octet level (encoding octet + string octets survive), its text value is covered by the bounded stage only",
    "enumeration names mean the numbers the class tables give them (tables are data read from the imported classes; their agreement with the standard is not checked); named enumerations are proved on Segmentation and swept exhaustively (bounded stage) on every other table",
    "BitString: lengths 0..64 by case split (the property's own bound), every bit symbolic",
    "Unsigned/Integer/Enumerated.decode are verified for content of 0..8 octets (case split on the length); the encoders never produce more than 4",
    "spec/prim.py and spec/tags.py are faithful transcriptions of clause 20.2 (hand-written; no copy of the standard in the sandbox)",
]
NOT_DECIDED = ["NaN and infinities for Real/Double (bounded stage only)", "text value of CharacterString (bounded stage only)"]
EXPLANATION = ("Each primitive codec function, the tag framing and the application<->context conversions carry contracts verified against the real "
               "bodies for all inputs; the property is one lemma per type: construct through the public constructor, encode in both tagging modes "
               "with a symbolic context number 0..254, frame, append arbitrary octets, decode, compare value and canonical octets.")
LEVEL_TEXT = ("Proof for all inputs of the integer-valued, octet-valued and tuple-valued types (Null, Boolean, Unsigned(+8/16), Integer, Enumerated, "
              "OctetString, Date, Time, ObjectIdentifier incl. all 2**32 words): every codec function and the tag framing are verified against "
              "contracts stated over a spec written from clause 20.2, and one lemma per type proves inverse + canonical form + refusal in both "
              "tagging modes for every context number. BitString is proved for every content at each length 0..64 (bounded in length). Real/Double/"
              "CharacterString: the plumbing is proved, the float/text conversions are trusted externals checked in a bounded stage.")
LEVEL_NOTE = ("Trusted: pyvc's VC generation (cross-checked against CPython every run), z3, struct's float conversion, the utf-8 codec, the "
              "enumeration tables as the meaning of names, spec/prim.py + spec/tags.py as transcriptions of clause 20.2. Bounded, not proved: "
              "bit-string length <= 64, decode content length <= 8, special floats, text values, every Enumerated table other than Segmentation.")
