"""C20 -- a schedule shows the value its calendar dictates at every instant, never stale."""
ID = "C20"
LEVEL = "proof"
MODULES = ["contracts.comm", "contracts.schedule"]
from contracts.schedule import _EVAL_BOUNDS, _REF_BOUNDS
FUNCTIONS = ["bacpypes.local.schedule:match_date", "bacpypes.local.schedule:match_date_range", "bacpypes.local.schedule:match_weeknday"] + [
    "bacpypes.local.schedule:LocalScheduleInterpreter.eval[%d exceptions x %d time values, %d daily entries]" % b for b in _EVAL_BOUNDS] + [
    "bacpypes.local.schedule:LocalScheduleInterpreter.eval[calendar reference with %d entries, %d time values, %d daily entries]" % b for b in _REF_BOUNDS] + [
    "bacpypes.local.schedule:LocalScheduleInterpreter.eval[calendar reference to an unknown object]"]
LEMMAS = []
MIN_OBLIGATIONS = 10
BOUNDED = "bounded.c20"
ASSUMPTIONS = [
    "dates are calendar dates of 1900..2154; calendar.monthrange is modelled by the Gregorian rule, and the model is compared with the real function for every month of that range on every run",
    "eval is verified on configuration objects exposing exactly the attributes it reads, bounded in structure (0..2 exceptions x 0..2 time values, 0..2 entries of the weekday; thorough: up to 2x2 + 1), with every time, priority (1..16 for one exception; a 3-point grid in both orders for two), period match and effective-period membership symbolic; whether a period is in force on the date is an arbitrary boolean inside eval (the matchers are verified separately against the standard); values are distinct tokens",
    "time lists are in strictly increasing time order and exception priorities are distinct (the standard requires the former; _check_reliability does not enforce it)",
    "process_task (timer re-arming, mktime/localtime) is covered by the bounded stage's timer-driven run only",
    "spec/schedule.py is a faithful transcription of clauses 12.24, 20.2.12 and 21 (hand-written)",
]
NOT_DECIDED = ["eval for unbounded list lengths (nested loops over object lists)", "process_task / wall-clock conversion at proof level", "calendar-reference periods in combination with a second exception (the reference units have one exception; the period test is the same code for every exception)"]
EXPLANATION = ("The three date matchers are proved against the standard's definitions for every calendar date and every pattern octet. eval is proved, per "
               "structural bound, against a direct interpreter of clause 12.24: (i) the value, (ii) stability -- for a universally quantified probe time "
               "between the evaluated instant and the reported transition the standard's value is unchanged, (iii) the transition lies strictly after the "
               "instant and not after the end of the day. Calendar-reference periods: the exception is in force exactly on the days on which some entry of the referenced "
               "calendar object's date list matches (every entry is asked until one matches, 0..2 entries), a dangling reference is reported inside the effective period.")
LEVEL_TEXT = ("Proof for all dates/patterns of the matchers (incl. open-ended ranges, last/odd/even day, odd/even month, week-of-month 1..9); proof of "
              "eval's value, stability and progress for all times/priorities/period outcomes within stated structural bounds; larger schedules, real "
              "object plumbing and timer-driven behaviour across the effective period are swept in the bounded stage.")
LEVEL_NOTE = ("Trusted: pyvc (cross-checked against CPython every run), z3, the Gregorian month-length model (checked exhaustively against calendar.monthrange "
              "each run), spec/schedule.py. Bounded in structure as stated.")
