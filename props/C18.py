"""C18 -- addresses parse, print, compare and hash coherently in every notation."""
ID = "C18"
LEVEL = "other"
MODULES = ["contracts.comm", "contracts.pdu", "lemmas.c18"]
FUNCTIONS = ["bacpypes.pdu:" + n for n in (
    "LocalStation.__init__[int]", "LocalStation.__init__[octets]", "RemoteStation.__init__[int]", "RemoteStation.__init__[octets]",
    "LocalBroadcast.__init__", "RemoteBroadcast.__init__", "GlobalBroadcast.__init__",
    "Address.decode_address[int]", "Address.decode_address[octets]", "Address.decode_address[six octets]",
    "Address.decode_address[(text, port)]", "Address.decode_address[(word, port)]",
    "Address.decode_address[block: dotted IPv4 with mask and port]",
    "Address.__eq__", "Address.__ne__", "Address._tuple")]
LEMMAS = ["C18.equivalence", "C18.hash", "C18.constructors", "C18.ip_tuple"]
MIN_OBLIGATIONS = 80
BOUNDED = "bounded.c18"
ASSUMPTIONS = [
    "route-less addresses (settings.route_aware off, addrRoute None): with routes __eq__ is deliberately lenient and not transitive; none of the listed notations carries a route",
    "ports are 16-bit quantities (0..65535); '1.2.3.4:70000' is accepted by the library with a truncated port and is outside the notation's meaning",
    "the IPv4 block of the text branch is verified as a contract on that block of Address.decode_address with the regex groups as typed symbolic texts (dotted quad of four symbolic octets, decimal texts for prefix 0..32 and port): the regex engine, int() of decimal text and inet_aton/inet_ntoa are trusted",
    "hash(): equal tuples of equal members hash equally (uninterpreted function of the members); station addresses of 1..8 octets in the hash lemma",
    "the regex-driven text notations and printing are NOT proved: they are swept in the bounded stage (exhaustive over stations and the stated grids, against the ipaddress module)",
]
NOT_DECIDED = ["text notations (regex matching, which notation a text belongs to) and __str__ / print->parse at proof level: string theory is not encoded; bounded stage only"]
EXPLANATION = ("Proved for all inputs: the typed constructors and the int / raw-octet / (address, port) notations denote exactly the stated type, network, "
               "octets, IP word and port and refuse stations above 255 and networks above 65534; the IPv4 arithmetic block (mask, subnet, host, directed "
               "broadcast, six octets) for all 2**32 addresses x 33 prefix lengths x all ports against the ipaddress definitions; == is (type, network, "
               "octets) equality and an equivalence relation, != its negation, equal addresses hash equally. Bounded: every regex-driven text notation "
               "and print->parse over exhaustive/boundary grids.")
LEVEL_TEXT = ("Mixed, stated per clause: proof (all inputs) for constructors, non-text notations, the IPv4 arithmetic block, equality/hash coherence; "
              "bounded enumeration (labelled bounded) for the regex-driven text notations, printing and print->parse, because string/regex reasoning is "
              "outside the verifier's encoded subset.")
LEVEL_NOTE = ("Trusted: pyvc (cross-checked against CPython every run), z3, the regex engine, int()/str() on decimal text, inet_aton/inet_ntoa, tuple "
              "hashing. The text-notation clauses are bounded, not proved.")
