"""C10 -- a device answers every well-framed request and stays healthy under garbage."""
from props._ssm_names import P, SERVER_START, SAP_DEMUX, SERVER_TASK
ID = "C10"
LEVEL = "proof"
MODULES = ["contracts.comm", "contracts.ssm", "contracts.ssm_sap", "contracts.dispatch", "contracts.netservice"]
_N = "bacpypes.netservice:"
FUNCTIONS = ([P + "ApplicationServiceAccessPoint.indication[confirmed, %s]" % k for k in ("known service, decoding ok", "known service, decoding reject",
                                                                                       "known service, decoding abort", "known service, decoding crash",
                                                                                       "unknown service, decoding ok")]
             + ["bacpypes.app:Application.indication[%s]" % k for k in ("confirmed, handler present", "confirmed, no handler", "unconfirmed")]
             + SERVER_START + SAP_DEMUX + SERVER_TASK
             + [_N + "NetworkServiceAccessPoint.process_npdu[router, from network %d]" % n for n in (1, 2, 3)]
             + [_N + "NetworkServiceAccessPoint.process_npdu[station, from network 1]"])
LEMMAS = []
MIN_OBLIGATIONS = 60
BOUNDED = "bounded.c10"
ASSUMPTIONS = [
    "in the dispatch units the service's decoder and the application's handler are ghosts whose outcome is a symbolic choice (succeed / RejectException / AbortException / ExecutionError / another exception); that the real decoders of the 58 services raise nothing but RejectException / AbortException on malformed parameters is what the bounded stage sweeps",
    "the transaction side (no leftover transaction or timer) is the class invariant of the segmentation state machines, see C04; the return path of a routed request is C06's learned-path clause",
]
NOT_DECIDED = [
    "garbage at the UDP / asyncore level and the loop's own error handling (what the BVLL codec does with an arbitrary datagram -- one decoded message or a refusal, nothing else -- is the lemma C09.codec_receives_any_datagram; an exception escaping a deferred call is contained by the drain loop, C14); interleavings with valid traffic are covered only through the per-call contracts (each call leaves the invariants intact)",
]
EXPLANATION = ("ApplicationServiceAccessPoint.indication: a confirmed request of an unknown service is answered with exactly one reject (unrecognized service), one whose parameters "
               "the decoder rejects / aborts with exactly one reject / abort carrying that reason, a decoded one reaches the application exactly once and a reject / abort raised "
               "there becomes exactly one reject / abort reply; each reply carries the request's invoke ID and goes to its source. Application.indication: the handler's own "
               "acknowledgement, or exactly one Error reply for an ExecutionError (its class and code) or for any unexpected exception (device, operational-problem); rejects / "
               "aborts travel on to the access point; no handler -> unrecognized-service reject; unconfirmed requests are never answered. A new server transaction never stays "
               "IDLE -- it ends or has a timer -- for every header value including the reserved max-APDU codes (answered with an abort, nothing kept); PDUs that match no live "
               "transaction are ignored by the demultiplexer; every timeout of a server transaction ends it or re-arms the timer. A routed request refreshes the return path "
               "to its source network (the reply follows the newest knowledge, C06 / C19).")
LEVEL_TEXT = "Proof per entry point with the decoder / handler outcome as a symbolic choice; the real decoders under corruption are swept natively (bounded stage)."
LEVEL_NOTE = "Trusted: pyvc (cross-checked against CPython every run), z3/cvc5. One genuine defect (reserved max-APDU code left a dead transaction) was repaired."
