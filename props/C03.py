"""C03 -- every service PDU and constructed type round-trips and matches the standard."""
ID = "C03"
LEVEL = "proof"
MODULES = ["contracts.comm", "contracts.primitivedata", "lemmas.c03"]
FUNCTIONS = []
LEMMAS = (["C03.any_decode[%d tags]" % n for n in range(6)]
          + ["C03.rep_roundtrip[choice %s, any %s]" % (a, e) for a in (None, 'num', 'flag', 'inner') for e in (None, 'atomic', 'constructed')]
          + ["C03.namevalue_roundtrip"]
          + ["C03.%s_roundtrip[%s elements]" % (k, c) for k in ("arrayof", "listof") for c in ("atomic", "constructed")] + ["C03.arrayof_item_roundtrip"])
MIN_OBLIGATIONS = 60
BOUNDED = "bounded.c03"
ASSUMPTIONS = [
    "the deductive part verifies the library's *generic* constructed-data code (Sequence.encode / decode, Choice, SequenceOf, Any, and the hand-written NameValue decoder) on a representative type that has every element kind the code distinguishes (spec.rep_types.Rep), for every presence pattern, every choice alternative, lists of 0..2 items and symbolic leaf values; the 58 service PDUs and ~170 base types are instances of that code differing in their element tables only, and are swept natively by the bounded stage",
    "equality of octets follows from equality of tags (class, number, length, data) because TagList.encode is a function of those fields (C02)",
    "as in all of the library's own types, an optional list element is the last element of its sequence (a non-last omitted optional list decodes to [] instead of None in Sequence.decode; unreachable for the registered types, recorded in DESIGN.md as an observation)",
]
NOT_DECIDED = [
    "the Annex F worked examples (exact published octets): concrete test vectors, not a contract; those present in the repository's tests are run by the bounded stage",
    "AnyAtomic outside NameValue (bounded stage only); ArrayOf / ListOf with more than 3 elements (structural bound of the container lemmas)",
]
EXPLANATION = ("Any.decode takes exactly the maximal prefix of the tag list in which every closing tag closes an earlier opening tag -- any tag numbers, any nesting depth within "
               "the bound of 5 tags --, leaves the rest for the enclosing decoder and refuses only an unclosed opening tag; Any.encode gives the same tags back. For the "
               "representative sequence (required / optional context-tagged atomics, an application-tagged atomic, a nested sequence, a required list, a choice with atomic and "
               "constructed alternatives, an Any holding an atomic or a constructed value, an optional list at the end) decode(encode(v)) consumes everything, has the same "
               "fields as v for every presence pattern and re-encodes to the same tags. NameValue (optional value that is absent, a primitive, a date or a date-time, followed "
               "or not by another member) round-trips likewise.")
LEVEL_TEXT = "Proof for the generic code on a representative type (structurally bounded: list lengths 0..2, Any nesting within 5 tags); the registered types are swept natively (bounded stage)."
LEVEL_NOTE = "Trusted: pyvc (cross-checked against CPython every run), z3/cvc5, the argument that registered types are instances of the verified generic code."
