"""C13 -- B/IP broadcasts reach every node once; foreign registrations expire on time."""
ID = "C13"
LEVEL = "proof"
MODULES = ["contracts.comm", "contracts.bvllservice"]
_B = "bacpypes.bvllservice:"
FUNCTIONS = [_B + "BIPBBMD.confirmation[%s]" % k for k in ("OriginalBroadcastNPDU", "ForwardedNPDU, unicast to me", "ForwardedNPDU, directed broadcast",
                                                          "DistributeBroadcastToNetwork", "RegisterForeignDevice")] + [
    _B + "BIPBBMD.register_foreign_device", _B + "BIPBBMD.process_task", _B + "BIPBBMD.delete_foreign_device_table_entry",
    _B + "BIPForeign.confirmation[Result]", _B + "BIPForeign.confirmation[ForwardedNPDU]", _B + "BIPForeign.process_task",
    _B + "BIPForeign.indication[local broadcast]", _B + "BIPForeign._registration_expired", _B + "BIPForeign.unregister", _B + "BIPForeign.register",
    _B + "BIPForeign.confirmation[Result, no BBMD configured]",
    _B + "BIPSimple.confirmation[OriginalUnicastNPDU]", _B + "BIPSimple.confirmation[OriginalBroadcastNPDU]", _B + "BIPSimple.confirmation[ForwardedNPDU]",
    _B + "BIPSimple.confirmation[BBMD functions]", _B + "BIPSimple.indication"]
LEMMAS = []
MIN_OBLIGATIONS = 30
BOUNDED = "bounded.c13"
ASSUMPTIONS = [
    "whole-system complement: real B/IP nodes on bacpypes.vlan IP networks (bounded stage): 1..5 subnets, BBMDs with full / partial tables, ordinary nodes, foreign devices with TTL 1..300 s, broadcasts from every node across registration, renewal, expiry, unregistration and table-entry deletion",
    "bounded in structure: broadcast distribution tables [], [me, P1], [P1, me, P2], [P1, P2]; 0..3 registered foreign devices with concrete, distinct addresses; time-to-live, remaining time and payload are symbolic",
    "downstream (Client.request), upstream (Server.response) and the service access point are ghost-traced externals; frames are read with their fields at the moment of the call (the code re-addresses and re-sends one PDU object)",
    "timers are the trusted summaries of _Task.install_task / suspend_task (C14); the BBMD's process_task is one tick of its 1 s recurring task",
    "'exactly once at every node of the layout' = composition of the per-node contracts: each node forwards a broadcast to exactly the set stated here (own subnet handled by the IP broadcast itself), a Forwarded-NPDU is never forwarded to another BBMD, so with tables that list one another each node is reached by exactly one path; the composition over a layout is not machine-checked as a whole",
]
NOT_DECIDED = [
    "BIPNAT; the UDP multiplexer; write/read of the tables over the wire",
    "whole-layout runs with random instants (see the composition assumption)",
]
EXPLANATION = ("Ordinary node (BIPSimple): a neighbour's Original-Broadcast and a BBMD's Forwarded-NPDU are each handed up exactly once as a local broadcast whose source is the true originator (the neighbour, resp. the address carried in the Forwarded-NPDU, not the relaying BBMD), a unicast once to the station, BBMD functions never; one frame goes out per request. BBMD, broadcast heard on its subnet: handed to its network layer once as a local broadcast from the sender, forwarded (Forwarded-NPDU naming the sender, "
               "same octets) exactly once to the directed-broadcast address of every other BBMD in its table and to every registered foreign device. Forwarded-NPDU from a peer: "
               "handed up once with the true originator as source, re-broadcast locally only if it came unicast and this BBMD lists itself, sent once to every registered foreign "
               "device, never to another BBMD. Distribute-Broadcast-To-Network from a registered foreign device: handed up once, forwarded once to every table entry (own subnet as "
               "local broadcast) and to every registered foreign device except the sender; from an unregistered (expired, deleted) device: refused with the NAK and nothing is "
               "distributed. Foreign device table: a registration or renewal is one entry per device with remaining time = time-to-live + 5 s grace; every tick takes one second "
               "off every entry and removes exactly those that reach zero, keeping the order; deletion removes exactly that entry at once. Foreign device: the renewal request goes "
               "to its BBMD with its time-to-live and the next one is armed one time-to-live later (before TTL + grace); every acknowledgement from its BBMD sets status OK and "
               "pushes the 'definitely expired' deadline to TTL + 30 s from now; results from others or while unregistering are ignored; while not registered it neither accepts "
               "Forwarded-NPDUs (accepted only from its own BBMD, delivered with the true originator) nor sends broadcasts; unregistering sends a zero time-to-live registration and "
               "disarms both timers; expiry sets the status to not registered.")
LEVEL_TEXT = "Proof per entry point over structurally bounded tables; symbolic time-to-live, remaining time and payload."
LEVEL_NOTE = "Trusted: pyvc (cross-checked against CPython every run), z3/cvc5, the timer summaries (C14), the per-node to whole-layout composition. One genuine defect was repaired."
