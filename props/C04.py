"""C04 -- a confirmed request ends in exactly one outcome, in bounded time, no residue."""
from props._ssm_names import *
ID = "C04"
LEVEL = "proof"
MODULES = ["contracts.comm", "contracts.ssm", "contracts.iocb"]
FUNCTIONS = CLIENT_CONF + CLIENT_TASK + CLIENT_LEARNED + CLIENT_START + SERVER_TASK + IOCB
LEMMAS = []
MIN_OBLIGATIONS = 150
BOUNDED = "bounded.c04"
ASSUMPTIONS = SSM_ASSUMPTIONS + [
    "whole-system complement: two real stacks over a fault-injecting wire on a virtual clock (bounded stage, bounded/ssm_sim.py): every single fault at every frame, random multi-fault runs, silence from every point on; IOCB layer not part of the simulation",
] + [
    "IOCB.trigger (completion event and user callbacks) and core.deferred are ghost-traced externals in the IOCB units; queues hold 0..2 waiting requests (structural bound)",
]
NOT_DECIDED = [
    "the numeric time bound itself: each timeout strictly decreases the retry measure (retries left, segment retries left) and re-arms one timer, or ends the transaction -- the sum of the armed intervals is not computed",
    "IOCB timeouts (IOCB.set_timeout arms a task that calls abort: covered by the idempotence of abort_io / complete_io, the task itself is C14)",
    "end-to-end runs of two stacks over a faulty medium are bounded (simulation stage); the unbounded whole-history claim is by the invariant argument, see assumptions",
]
EXPLANATION = ("(The device-info record handed back to the cache when a transaction ends is exactly the one it acquired at its creation, once -- also when the peer was entered into the cache while the request was outstanding.) A client transaction is a real ClientSSM object with symbolic fields, registered with a real StateMachineAccessPoint exactly when it is live. "
               "For every live state and every kind of inbound PDU (18 state x kind units, arbitrary header fields), for every timeout and for the start of a "
               "request, the entry point preserves the class invariant (live <=> tracked by the access point <=> a timer is armed; terminal <=> untracked and "
               "no timer; other transactions untouched), hands the application exactly one PDU exactly when the transaction ends (ack / error / reject / abort with its "
               "invoke ID and peer) and none otherwise, emits nothing once terminal, and every timeout either ends the transaction with an abort or strictly "
               "decreases the retry measure while re-arming the timer (so silence ends in an abort after finitely many timeouts). On the IOCB side "
               "_app_complete gives the active request its one outcome, keeps queued requests reachable through queue_by_address and starts the next, and "
               "process_io makes a submitted request active or queued in the reachable queue of its destination; complete_io / abort_io give a request its outcome once and ignore "
               "every later completion or abort; _trigger starts the first waiting request when the queue is idle and nothing otherwise.")
LEVEL_TEXT = ("Proof per entry point for all field values (bounded only in window size for the sender-side units and in queue length for the IOCB units); "
              "unbounded histories by induction over the per-call contracts.")
LEVEL_NOTE = ("Trusted: pyvc (cross-checked against CPython every run), z3/cvc5, the timer summaries (C14), the induction step composing per-call "
              "contracts into histories. Three genuine defects surfaced by these units were repaired (see known_findings.json).")
