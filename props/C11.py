"""C11 -- concurrent transactions never cross."""
from props._ssm_names import *
ID = "C11"
LEVEL = "proof"
MODULES = ["contracts.comm", "contracts.ssm", "contracts.ssm_sap"]
FUNCTIONS = SAP_ALLOC + SAP_START + SAP_DEMUX + SAP_ANSWER + [P + "ServerSSM.indication[AWAIT_RESPONSE, ConfirmedRequest]", P + "ServerSSM.indication[AWAIT_RESPONSE, Abort]",
             P + "ServerSSM.process_task[AWAIT_RESPONSE]", P + "ServerSSM.process_task[SEGMENTED_REQUEST]", P + "ClientSSM.confirmation[AWAIT_CONFIRMATION, SimpleAck]",
             P + "ClientSSM.confirmation[AWAIT_CONFIRMATION, Abort]", P + "ClientSSM.process_task[SEGMENTED_CONFIRMATION]"] + SERVER_ANSWER
LEMMAS = []
MIN_OBLIGATIONS = 60
BOUNDED = "bounded.c11"
ASSUMPTIONS = SSM_ASSUMPTIONS + [
    "whole-system complement: several real stacks over the same wire (bounded stage): 1..40 concurrent requests over 1..4 peers, equal invoke IDs across peers, late / duplicate / foreign replies, > 256 requests in sequence",
] + [
    "bounded in structure: the access point's lists hold up to 3 live transactions (2 + 2 for the demultiplexing block) with symbolic invoke IDs over 2 peers, the inbound PDU comes from one of 3 peers with any invoke ID; the listed transactions are sidecar subclasses of the real ClientSSM / ServerSSM whose entry points record the delivery (the state machines are under contract in contracts.ssm)",
    "StateMachineAccessPoint.confirmation is verified as a block contract on everything after `apdu.decode(pdu)` (decoding is C02)",
]
NOT_DECIDED = ["invoke-ID exhaustion (256 live requests to one peer): the RuntimeError branch of get_next_invoke_id is outside the structural bound"]
EXPLANATION = ("get_next_invoke_id returns the first ID at or after the cursor that no live request to that peer uses and moves the cursor past it (any cursor, so "
               "wrap-around included); sap_indication refuses an application-chosen ID already live to that peer, otherwise appends exactly one new transaction for "
               "the destination and keeps all (peer, ID) pairs distinct; the demultiplexing block of confirmation() hands each reply, segment ack or abort to the one "
               "live transaction with the same peer address and invoke ID (client or server side as the server bit says), ignores it when there is none, gives a "
               "retransmitted request to the server transaction already working on it instead of creating a second one, and creates exactly one new transaction "
               "otherwise; sap_confirmation hands the application's answer to the matching server transaction only. A duplicate request in AWAIT_RESPONSE is not "
               "handed to the application again; ending a transaction removes exactly that transaction from the access point (others_kept in every state-machine unit).")
LEVEL_TEXT = "Proof for all invoke IDs, cursors and PDU header values over a structurally bounded population of live transactions."
LEVEL_NOTE = "Trusted: pyvc (cross-checked against CPython every run), z3/cvc5. Bounded: number of live transactions per list (3)."
