"""C07 -- APDU fixed headers carry every field of all eight PDU types faithfully."""
ID = "C07"
LEVEL = "proof"
MODULES = ["contracts.comm", "contracts.apdu", "lemmas.c07"]
FUNCTIONS = [
    "bacpypes.comm:PDUData.get", "bacpypes.comm:PDUData.get_data", "bacpypes.comm:PDUData.put",
    "bacpypes.comm:PDUData.put_data[bytes]", "bacpypes.comm:PCI.update", "bacpypes.pdu:PCI.update",
    "bacpypes.apdu:encode_max_segments_accepted", "bacpypes.apdu:decode_max_segments_accepted",
    "bacpypes.apdu:encode_max_apdu_length_accepted", "bacpypes.apdu:decode_max_apdu_length_accepted",
    "bacpypes.apdu:APCI.encode", "bacpypes.apdu:APCI.decode", "bacpypes.apdu:APDU.encode", "bacpypes.apdu:APDU.decode",
]
LEMMAS = ["C07.header_roundtrip", "C07.decode_total", "C07.max_segments_table", "C07.max_apdu_table"]
MIN_OBLIGATIONS = 100
BOUNDED = None
ASSUMPTIONS = [
    "header fields are ints within their field widths and flags are bools (requires of APCI.encode); other values are outside the property",
    "spec/apci.py is a faithful transcription of clause 20.1 (hand-written; no copy of the standard in the sandbox)",
]
NOT_DECIDED = []
EXPLANATION = ("Every function between the property and the octets (PDUData get/put, PCI.update, APCI/APDU encode/decode, the four "
               "table functions) carries a contract verified against its real body for all inputs; the property itself is four lemmas "
               "(client programs) verified against those contracts only.")
LEVEL_TEXT = ("Proof for all inputs: each function on the header path (PDUData get/put, PCI.update, APCI.encode/decode, APDU.encode/decode, "
              "the four max-segments/max-APDU table functions) is verified against a contract stated over a spec written from clause 20.1; "
              "the property (layout, round trip of every field of all eight types with the payload untouched, totality of decode, table "
              "rounding) is four lemmas verified over those contracts only. No bound on field values, payload length or capability values.")
LEVEL_NOTE = ("Trusted: the pyvc VC generator and its Python-subset semantics (cross-checked against CPython on random inputs every run), z3, "
              "spec/apci.py as a transcription of clause 20.1. Preconditions: header fields are ints within their widths and flags are bools.")
