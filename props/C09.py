"""C09 -- BACnet/IP frames carry a correct length and round-trip all twelve functions."""
ID = "C09"
LEVEL = "proof"
MODULES = ["contracts.comm", "contracts.bvll", "lemmas.c09"]
_MSGS = ["Result", "WriteBroadcastDistributionTable", "ReadBroadcastDistributionTable", "ReadBroadcastDistributionTableAck", "ForwardedNPDU",
         "RegisterForeignDevice", "ReadForeignDeviceTable", "ReadForeignDeviceTableAck", "DeleteForeignDeviceTableEntry",
         "DistributeBroadcastToNetwork", "OriginalUnicastNPDU", "OriginalBroadcastNPDU"]
FUNCTIONS = [
    "bacpypes.comm:PDUData.get", "bacpypes.comm:PDUData.get_data", "bacpypes.comm:PDUData.get_short", "bacpypes.comm:PDUData.get_long",
    "bacpypes.comm:PDUData.put", "bacpypes.comm:PDUData.put_data[bytes]", "bacpypes.comm:PDUData.put_short", "bacpypes.comm:PDUData.put_long",
    "bacpypes.pdu:PCI.update", "bacpypes.bvll:BVLCI.update", "bacpypes.bvll:BVLPDU.encode", "bacpypes.bvll:BVLPDU.decode",
    "bacpypes.pdu:unpack_ip_addr",
] + ["bacpypes.bvll:%s.%s" % (m, f) for m in _MSGS for f in ("encode", "decode")]
LEMMAS = ["C09." + n for n in ("result", "write_bdt", "read_bdt", "read_bdt_ack", "forwarded_npdu", "register_foreign_device", "read_fdt",
                               "read_fdt_ack", "delete_fdt_entry", "distribute_broadcast", "original_unicast", "original_broadcast",
                               "mismatch_refused", "ip_address", "codec_emits_frames", "codec_receives_any_datagram")]
MIN_OBLIGATIONS = 200
BOUNDED = "bounded.c09"
ASSUMPTIONS = [
    "frames of at most 65535 octets (the width of the length field)",
    "socket.inet_aton/inet_ntoa are mutually inverse on four octets / dotted quads (trusted library axiom)",
    "BDT/FDT tables are verified for 0..2 entries with every address, mask, TTL and remaining time symbolic (bounded in structure); larger tables (0..40) are covered by the bounded stage only",
    "message objects are built by the real constructors, which compute the length field; Write-BDT and Read-FDT-Ack do not recompute it at encode time, so changing the table of an existing object is refused by BVLPDU.encode (EncodingError) -- a refusal, not a wrong frame (proved in the BVLPDU.encode contract)",
    "calls to Client.request / Server.response leave the unit: they are ghost-traced externals",
    "spec/bvll.py is a faithful transcription of Annex J.2 (hand-written)",
]
NOT_DECIDED = ["tables of unbounded length (loop invariants not yet supplied)"]
EXPLANATION = ("BVLPDU.encode/decode and the encode/decode of all twelve functions carry contracts against an Annex J spec, verified on the real bodies; "
               "one lemma per function builds the message with the real constructor, runs the library's two-stage encode, checks 81/function/length/"
               "body with length == number of octets, decodes and compares parameters; a further lemma proves that a datagram is accepted only when "
               "type and length agree, and one that AnnexJCodec.indication emits exactly one such frame. Receive side: for a datagram of 0..16 arbitrary octets AnnexJCodec.confirmation "
               "either hands exactly one message of the class the function octet names upward -- only when type octet and length field agree with the datagram -- or refuses it "
               "(DecodingError; KeyError for a function code outside Annex J) and hands nothing upward.")
LEVEL_TEXT = ("Proof for all inputs of the frame header (type, function, length == number of octets; stale length refused), of the nine functions without "
              "tables for every parameter value and every payload length up to the 16-bit limit, of six-octet address packing for all addresses/ports, "
              "and of datagram acceptance (only when type and length agree). The three table-carrying functions are proved for tables of 0..2 entries "
              "with symbolic content; larger tables are bounded-stage only.")
LEVEL_NOTE = ("Trusted: pyvc (cross-checked against CPython every run), z3, inet_aton/inet_ntoa inverse axiom, spec/bvll.py as a transcription of Annex J. "
              "Bounded, not proved: tables above 2 entries.")
