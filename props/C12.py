"""C12 -- what is sent respects what the peer said it can accept."""
from props._ssm_names import *
ID = "C12"
LEVEL = "proof"
MODULES = ["contracts.comm", "contracts.ssm", "contracts.devinfo"]
FUNCTIONS = CLIENT_START + SERVER_START + SERVER_ANSWER + SEGMENTS[1:] + [
    P + "ClientSSM.confirmation[SEGMENTED_REQUEST, SegmentAck]", P + "ClientSSM.confirmation[AWAIT_CONFIRMATION, ComplexAck]",
    P + "ClientSSM.confirmation[SEGMENTED_REQUEST, ComplexAck]", P + "ServerSSM.indication[SEGMENTED_RESPONSE, SegmentAck]",
    "bacpypes.app:DeviceInfoCache.iam_device_info", P + "ClientSSM.__init__", P + "ServerSSM.__init__"]
LEMMAS = []
MIN_OBLIGATIONS = 80
BOUNDED = "bounded.c12"
ASSUMPTIONS = SSM_ASSUMPTIONS + [
    "whole-system complement: two real stacks (bounded stage): capability pairs x lengths around every boundary, max-segments on both sides, windows up to 127, stale device information, every frame length checked against the receiver's limit",
] + [
    "peer capabilities at the client come from the DeviceInfo record the transaction holds (max APDU 50 / 1024 / unknown, max NPDU 50 / 1497 / unknown, the four segmentation values, max segments 2..1000 / unknown); that record is the one DeviceInfoCache.iam_device_info builds from the peer's I-Am and the transaction's constructor looks up by address (both under contract); inside the state-machine units DeviceInfoCache.acquire / release / update_device_info are ghost-traced externals",
]
NOT_DECIDED = [
    "fixed-header sizes of subsequent segments rely on the get_segment contract (same header shape for every index >= 1)",
]
EXPLANATION = ("Start of a request: the first (or only) frame carries at most segmentSize octets with segmentSize + header <= the peer's announced max APDU (and max NPDU), "
               "count == ceil(len / size); a request needing segments is sent only if the local device can transmit and the peer can receive segments and the count is within "
               "the peer's max-segments, otherwise the requester gets an abort and nothing is sent. Server: the client's limits are recorded from the request header "
               "(max segments and max APDU decoded per 20.1.2.4/5 for segmented and unsegmented requests alike, segmented-response-accepted), the response goes out "
               "unsegmented only if header + payload fit the client's max APDU, segmented only if the request allowed it, the server can transmit segments and the count "
               "is within the client's limit, otherwise an abort. Peer knowledge: the record built from an I-Am (max APDU, segmentation support, vendor, address, instance) is what lookups by address and by instance return from then on, other devices' records untouched, and a new transaction to that peer holds exactly that record. Windows: the server's actual window is min(proposed by client, own) within 1..127; the sender adopts the "
               "window of every segment ack (never keeps a larger earlier one); the receiving client uses the window the server proposed.")
LEVEL_TEXT = "Proof for all payload lengths and header values over the standard's max-APDU sizes and all four segmentation-support values per side."
LEVEL_NOTE = "Trusted: pyvc (cross-checked against CPython every run), z3/cvc5. Three genuine defects (segments exceeded the max APDU by the header size; I-Am information never stored; transactions to a known peer could not be created) were repaired."
