"""C15 -- property reads and writes over the wire are consistent, typed, all-or-nothing."""
ID = "C15"
LEVEL = "proof"
MODULES = ["contracts.comm", "contracts.propaccess"]
FUNCTIONS = ["bacpypes.constructeddata:ArrayOf(Unsigned).__getitem__", "bacpypes.constructeddata:ArrayOf(Unsigned).__setitem__[element]",
             "bacpypes.constructeddata:ArrayOf(Unsigned).__setitem__[length]", "bacpypes.constructeddata:ArrayOf(PriorityValue).fix_length",
             "bacpypes.object:Object.ReadProperty[array]", "bacpypes.object:Object.ReadProperty[scalar]", "bacpypes.object:Object.ReadProperty[unknown]",
             "bacpypes.object:Object.WriteProperty[level]", "bacpypes.object:Object.WriteProperty[limit, read-only]", "bacpypes.object:Object.WriteProperty[level, with index]",
             "bacpypes.object:Object.WriteProperty[slots element]", "bacpypes.service.object:read_property_to_any",
             "bacpypes.service.object:ReadWritePropertyServices.do_ReadPropertyRequest", "bacpypes.service.object:ReadWritePropertyServices.do_WritePropertyRequest",
             "bacpypes.service.object:read_property_to_result_element",
             "bacpypes.service.object:ReadWritePropertyMultipleServices.do_ReadPropertyMultipleRequest[one reference]",
             "bacpypes.service.object:ReadWritePropertyMultipleServices.do_ReadPropertyMultipleRequest[two specifications, wildcard device]"]
LEMMAS = []
MIN_OBLIGATIONS = 60
BOUNDED = None
ASSUMPTIONS = [
    "the object is a real bacpypes.object.Object instance holding five representative properties (Unsigned, read-only Unsigned, CharacterString, ArrayOf(Unsigned) with 0..3 symbolic elements, ArrayOf(PriorityValue)); Object / Property code is class-generic, the 150+ registered object types differ in their property tables only",
    "in the service units constructeddata.Any is replaced by a stand-in that keeps the value it is asked to carry (encoding / decoding of Any is C03); the application leaf (object lookup, response) records ghost events",
    "commandable properties (priority array) are C17; COV monitors are absent from the object (C16)",
    "ReadPropertyMultiple units: the object additionally has a propertyList property (an array of Unsigned instead of the enumeration PropertyIdentifier, whose first use initialises class tables -- outside the subset) and its optional CharacterString property is present or absent; requests of one specification with one reference of any kind, and of two specifications with two and one references",
]
NOT_DECIDED = [
    "ReadPropertyMultiple requests with more than two specifications or more than two references per specification (structural bound of the two service units; the handler's loops treat every specification and reference alike)",
    "whole-array replacement over the wire (depends on Any.cast_out, C03) and list properties",
    "properties of constructed datatypes other than arrays",
]
EXPLANATION = ("ArrayOf: index 0 reads the length, 1..n the elements, anything else raises IndexError (no wrap-around); writing 1..n replaces exactly that element, writing 0 "
               "resizes keeping the leading elements, and growing an array of a constructed element type gives every new slot its own element. Object.ReadProperty / "
               "Property.ReadProperty: whole value without index, length / element with index, invalidArrayIndex outside 0..n, propertyIsNotAnArray for an index on a scalar, "
               "PropertyError for an unknown property, and reading never changes anything. Object.WriteProperty / Property.WriteProperty: a valid value is stored and read back "
               "(scalar, array element), a wrong-typed or missing value, a read-only property, an index on a scalar or a bad array index is refused with the matching error and "
               "every property is unchanged. Services: read_property_to_any (the ReadPropertyMultiple path) and do_ReadPropertyRequest hand Any the same typed value for every "
               "(property, index) -- the whole value, the length as Unsigned, the element as its datatype -- and raise the matching error otherwise; do_WritePropertyRequest "
               "acknowledges exactly the writes that are stored (then read back) and raises, answering nothing and changing nothing, for the refused ones. ReadPropertyMultiple: "
               "read_property_to_result_element never raises and embeds, per (object, property, index), the typed value ReadProperty answers or the error it refuses with "
               "(unknown object / property, absent optional property, index on a scalar, index outside 0..n); do_ReadPropertyMultipleRequest answers exactly one ack with the "
               "request's invoke ID whose result lists follow the request's order, expands 'all' / 'required' / 'optional' to the object's property table (without "
               "propertyList, absent optional properties left out), answers the wildcard device instance under the device's identifier, and changes nothing.")
LEVEL_TEXT = "Proof per function for all indexes (any integer), values and array contents over arrays of 0..3 elements."
LEVEL_NOTE = "Trusted: pyvc (cross-checked against CPython every run), z3/cvc5, the Any stand-in. Bounded: array lengths."
