"""C06 -- routers deliver each packet once to exactly the addressed stations."""
ID = "C06"
LEVEL = "proof"
MODULES = ["contracts.comm", "contracts.netservice"]
_N = "bacpypes.netservice:"
FUNCTIONS = ([_N + "NetworkServiceAccessPoint.process_npdu[router, from network %d]" % n for n in (1, 2, 3)]
             + [_N + "NetworkServiceAccessPoint.process_npdu[station, from network 1]", _N + "NetworkServiceAccessPoint.indication"]
             + [_N + "NetworkServiceElement.WhoIsRouterToNetwork[router, asked on network %d]" % n for n in (1, 2, 3)]
             + [_N + "NetworkServiceElement.IAmRouterToNetwork[station, heard on network 1]", _N + "NetworkServiceElement.IAmRouterToNetwork[router, heard on network 2]"])
LEMMAS = []
MIN_OBLIGATIONS = 15
BOUNDED = "bounded.c06"
ASSUMPTIONS = [
    "whole-system complement: real network-layer nodes on bacpypes.vlan topologies (bounded stage, bounded/net_sim.py): fixed and random tree topologies of 2..8 networks, routers with 2..4 ports, cold / warm caches, stations with unknown network number, every (source, destination kind, destination), replies to the shown source; small cyclic topologies for termination",
    "one router shape (three attached networks, an application on network 1, optionally a known path to network 5 through a router on network 2) and one station shape (network 1); destinations are concrete representatives of every class (none, this station, station / broadcast on each attached network, global broadcast, station / broadcast behind the known router, unknown network), with and without source routing; hop count is any value 0..255, the payload symbolic behind a fixed two-octet APDU header",
    "frames put on an attached network (NetworkAdapter.process_npdu), deliveries to the application (Server.response) and traffic with the network service element are ghost-traced externals; the RouterInfoCache is the real one (C19)",
    "excluded by precondition: a packet for a network whose known router sits on the arrival network itself -- the WhoIsRouterToNetwork contract shows this router never advertises such a path, so a correct sender does not hand it that packet",
    "whole-internetwork claims (every station of the target network exactly once, termination on cyclic topologies) = composition of the per-node contracts: every hop lowers the hop count by one and never uses the arrival network, the last hop puts exactly one frame on the target network; the composition over a topology is not machine-checked as a whole",
]
NOT_DECIDED = [
    "routers whose local adapter is not network 1, network-number learning",
    "random topologies as such (see the composition assumption)",
]
EXPLANATION = ("A frame arriving from an attached network is handed to the local application exactly once iff it is addressed to this station, to its network or to everybody "
               "(never for other stations' unicasts), with a source address naming the originator's network and station (source routing kept, otherwise arrival network + "
               "MAC on a router); it is forwarded only when it has a remote destination, this node is a router and the hop count is not exhausted; every forwarded copy has "
               "hop count - 1, carries the same octets, names the originator in its SADR and never goes out on the arrival network; a global broadcast goes once onto every "
               "other attached network, a packet for an attached network becomes exactly one local unicast / broadcast there with the DADR removed, a packet for a network "
               "behind a known router goes once to that router with the DADR kept, and for an unknown network nothing is forwarded and the path is asked for on every other "
               "network; a packet addressed to the network it came from is dropped; the return path of a source-routed packet is learned. A packet from the local application "
               "goes out once: locally, as a global broadcast, to the known router, or it waits -- complete with its final destination -- while the path is asked for exactly "
               "once. When the I-Am-Router-To-Network arrives the path is learned, every packet that waited for an announced network goes out exactly once, in order, to the announcing router with its final destination intact, packets for other networks keep waiting, and a router passes the announcement on once to each of its other networks. A router answers Who-Is-Router-To-Network only with networks it reaches through another attached network than the one the question came from.")
LEVEL_TEXT = "Proof per entry point over representative node shapes and destination classes; hop count and payload symbolic."
LEVEL_NOTE = "Trusted: pyvc (cross-checked against CPython every run), z3/cvc5, the per-node to whole-topology composition."
