"""C14 -- scheduled work runs once, in order, never early; failures stay isolated."""
ID = "C14"
LEVEL = "proof"
MODULES = ["contracts.comm", "contracts.task", "lemmas.c14"]
from contracts.task import HEAP_BOUND, DRAIN_BOUND, SUSPEND_BOUND
FUNCTIONS = (
    ["bacpypes.task:TaskManager.install_task[heap of %d, new task]" % k for k in range(HEAP_BOUND + 1)]
    + ["bacpypes.task:TaskManager.install_task[heap of %d, re-install entry %d]" % (k, j) for k in range(HEAP_BOUND + 1) for j in range(k)]
    + ["bacpypes.task:TaskManager.suspend_task[heap of %d, absent task]" % k for k in range(SUSPEND_BOUND + 1)]
    + ["bacpypes.task:TaskManager.suspend_task[heap of %d, entry %d]" % (k, j) for k in range(SUSPEND_BOUND + 1) for j in range(k)]
    + ["bacpypes.task:TaskManager.get_next_task[heap of %d]" % k for k in range(HEAP_BOUND + 2)]
    + ["bacpypes.task:_Task.install_task", "bacpypes.task:RecurringTask.install_task", "bacpypes.core:deferred"]
    + ["bacpypes.task:TaskManager.process_task[%s, heap of %d]" % (c, k) for c in ("OneShotTask", "OneShotDeleteTask") for k in range(3)]
    + ["bacpypes.task:TaskManager.process_task[RecurringTask]"]
    + ["bacpypes.core:%s[block: drain of %d deferred functions%s]" % (f, k, n) for f in ("run", "run_once") for k in range(DRAIN_BOUND + 1)
       for n in (("", ", first defers another") if k > 0 else ("",))])
LEMMAS = ["C14.order", "C14.ties_in_installation_order", "C14.suspended_does_not_fire", "C14.reinstall_moves", "C14.recurring_successive_slots"]
MIN_OBLIGATIONS = 150
BOUNDED = "bounded.c14"
ASSUMPTIONS = [
    "bounded in structure: heaps of 0..4 entries (the property's scope is 4 tasks; suspend_task, which rebuilds the heap, up to 6) with every time and sequence number symbolic; deferred batches of 0..4 functions with every subset of raising members and one optional nested deferral",
    "time.time is a ghost-traced external returning an arbitrary real on every reading; TaskManager.trigger is None (the event object only wakes the I/O loop)",
    "float arithmetic treated as exact real arithmetic (incl. the 1e-6 jitter, read as the decimal constant); recurring intervals/offsets from a grid because the quotient by a symbolic interval is non-linear; rounding of non-representable binary fractions is covered by the bounded stage only",
    "heapq is modelled by the algorithms of CPython's heapq.py, itertools.count by a ghost counter",
    "deferred functions are ghost callables that record their call, may defer one further function and may raise RuntimeError; asyncore.loop, signals and sleeping in core.run are outside the unit (the drain loops are verified as contracts on those blocks of run and run_once)",
]
NOT_DECIDED = ["float rounding of recurring slots (bounded stage only)", "asyncore/signal/sleep behaviour of core.run", "heaps of more than 4 entries"]
EXPLANATION = ("TaskManager.install_task/suspend_task/get_next_task are verified against contracts over the abstract view of the heap (set of (time, "
               "sequence, task) entries) plus the representation invariant; ordering, ties, suspension, re-installation and recurring slots are lemmas "
               "(client programs); the deferred-call drain loops of run and run_once are verified as contracts on those blocks: every queued function "
               "is called exactly once in submission order whichever members raise. TaskManager.process_task (firing): the callback runs once, a recurring task is installed "
               "again once, and for one-shot tasks whose callback may install the task again the flag isScheduled says exactly whether the task is queued (so a later "
               "re-install moves it and a suspend removes it), the other entries untouched.")
LEVEL_TEXT = ("Proof for all times/clock readings and every subset of raising functions, bounded in structure (heaps <= 4 entries, batches <= 4 "
              "functions): the returned task is the minimum (due time, installation order) entry, never early, removed on return; suspended tasks "
              "never fire; re-installing moves; recurring tasks hit successive multiples strictly after installation (exact reals); every deferred "
              "function runs exactly once in order regardless of exceptions.")
LEVEL_NOTE = ("Trusted: pyvc (cross-checked against CPython every run), z3 + cvc5 (cvc5 discharges the floor/mixed-integer obligations z3 leaves open), "
              "heapq/itertools.count models, reals for floats. Bounded in structure as stated; whole histories and float rounding in the bounded stage.")
