"""C02 -- tag streams are self-delimiting: framing is total, canonical and balanced."""
ID = "C02"
LEVEL = "proof"
MODULES = ["contracts.comm", "contracts.primitivedata", "contracts.taglist", "lemmas.c02"]
_P = "bacpypes.primitivedata:"
FUNCTIONS = [
    "bacpypes.comm:PDUData.get", "bacpypes.comm:PDUData.get_data", "bacpypes.comm:PDUData.get_short", "bacpypes.comm:PDUData.get_long",
    "bacpypes.comm:PDUData.put", "bacpypes.comm:PDUData.put_data[bytes]", "bacpypes.comm:PDUData.put_short", "bacpypes.comm:PDUData.put_long",
    _P + "Tag.set", _P + "Tag.encode", _P + "Tag.decode",
    _P + "TagList.Peek", _P + "TagList.Pop", _P + "TagList.push", _P + "TagList.append", _P + "TagList.get_context", _P + "TagList.encode",
    "bacpypes.constructeddata:Any.decode",
]
LEMMAS = ["C02.frame_parse", "C02.decode_step", "C02.list_roundtrip"]
MIN_OBLIGATIONS = 80
BOUNDED = "bounded.c02"
ASSUMPTIONS = [
    "tag numbers 0..254, content lengths below 2**32 (the width of the longest length escape)",
    "list-level operations (TagList.encode, TagList.get_context, Any.decode, list round trip) are verified for lists of bounded length (2, 5, 5, 2 tags) with every field symbolic; the per-tag statements they compose (frame_parse, decode_step) are proved without bound; the while-rule composition over arbitrary list lengths is a meta-step not machine-checked in this round",
    "spec/tags.py and spec/balance.py are faithful transcriptions of clause 20.2.1 (hand-written)",
]
NOT_DECIDED = ["unbounded-length tag lists as a machine-checked loop proof (per-iteration step and variant are proved; composition is by the while-rule)"]
EXPLANATION = ("Tag.encode/Tag.decode carry contracts against the standard's framing, verified for all tags and all octet strings; the per-tag lemmas "
               "(frame_parse: decode(frame(t) ++ rest) == (t, rest) with the standard's escapes; decode_step: arbitrary octets give InvalidTag or a "
               "tag with progress, no over-read, and a stable re-encoding) are the step function and variant of the two list loops.")
LEVEL_TEXT = ("Proof, for every tag (class, number 0..254, content of any length below 2**32) and every octet string, of the per-tag framing: "
              "canonical escapes, exact inverse with nothing over-read, decode totality (returns or InvalidTag, always progress), stable re-encoding. "
              "Balanced-group extraction (get_context, Any.decode) is proved against a direct definition for every list of up to 5 tags with symbolic "
              "classes/numbers, and swept natively over all shapes to length 8 / depth 4 (bounded).")
LEVEL_NOTE = ("Trusted: pyvc (cross-checked against CPython every run), z3, spec/tags.py + spec/balance.py as transcriptions of clause 20.2.1. "
              "Bounded, not proved: list lengths (see assumptions); the bounded stage sweeps octet strings to length 3 and shapes to length 8.")
