"""C05 -- segmented transfers deliver the exact payload."""
from props._ssm_names import *
ID = "C05"
LEVEL = "proof"
MODULES = ["contracts.comm", "contracts.ssm"]
FUNCTIONS = SEGMENTS + [P + "ClientSSM.confirmation[SEGMENTED_REQUEST, SegmentAck]", P + "ClientSSM.confirmation[SEGMENTED_CONFIRMATION, ComplexAck]",
                        P + "ClientSSM.confirmation[AWAIT_CONFIRMATION, ComplexAck]", P + "ClientSSM.confirmation[SEGMENTED_REQUEST, ComplexAck]",
                        P + "ClientSSM.process_task[SEGMENTED_REQUEST]", P + "ClientSSM.process_task[SEGMENTED_CONFIRMATION]",
                        P + "ServerSSM.indication[SEGMENTED_REQUEST, ConfirmedRequest]", P + "ServerSSM.indication[SEGMENTED_RESPONSE, SegmentAck]",
                        P + "ServerSSM.process_task[SEGMENTED_RESPONSE]", P + "ServerSSM.process_task[SEGMENTED_REQUEST]"] + CLIENT_START + SERVER_ANSWER
LEMMAS = []
MIN_OBLIGATIONS = 100
BOUNDED = "bounded.c05"
ASSUMPTIONS = SSM_ASSUMPTIONS + [
    "whole-system complement: two real stacks over a fault-injecting wire on a virtual clock (bounded stage): payload lengths around every boundary, windows 1..8, every single fault at every frame index must still succeed, random multi-fault runs, > 256 segments in the thorough tier",
]
NOT_DECIDED = [
    "'any single fault is repaired and the transaction still succeeds': the contracts show that a lost / duplicated / late frame never corrupts the payload (out-of-order and duplicate segments are refused, stale acks move nothing, timeouts retransmit exactly the outstanding window); that the two sides' timers let the retransmission win is a two-party timing claim: the contracts pin the receiver's wait to 4 x Tseg against the sender's 1 x Tseg, the end-to-end success under every single fault is checked by the simulation only (bounded)",
    "the concatenation lemma (the slices [i*size:(i+1)*size], i < count, appended in order, give back the payload) is the textbook fact composing the sender and receiver contracts; it is stated, not machine-checked",
]
EXPLANATION = ("Sender: get_segment(i) is exactly octets [i*size, (i+1)*size) of the payload with sequence number i mod 256, more-follows iff i < count-1 and the "
               "proposed (i = 0) or actual window (functional contract, all indexes, counts, payloads); count == ceil(len / size) is part of the invariant; a segment ack "
               "in the window moves the position by the number of segments acknowledged (also beyond 256 segments) and sends exactly the next min(window, rest) "
               "segments in order, a stale or duplicate ack sends nothing and moves nothing, a timeout resends exactly the outstanding window (only the first segment "
               "while its ack is missing). Receiver: the in-order segment (last + 1 mod 256) is appended exactly once, anything else changes nothing and is answered "
               "with a negative ack; acks are sent at the end of each window and for the final segment; the reassembled PDU object is what reaches the application. "
               "in_window(a, b) == ((a - b) mod 256 < window).")
LEVEL_TEXT = ("Proof per entry point for all payloads, segment counts (no bound: beyond 256 segments included), indexes and sequence numbers; segment sizes from the "
              "standard's values; windows up to SSM_WINDOW for the sender-side units.")
LEVEL_NOTE = ("Trusted: pyvc (cross-checked against CPython every run), z3/cvc5, the composition of sender and receiver contracts into whole transfers.")
