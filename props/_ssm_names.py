"""unit names of contracts.ssm / contracts.ssm_sap / contracts.iocb, grouped (shared by the C04 / C05 / C11 / C12 plans)"""
P = "bacpypes.appservice:"
SEG = ('noSegmentation', 'segmentedTransmit', 'segmentedReceive', 'segmentedBoth')
_CS = ("SEGMENTED_REQUEST", "AWAIT_CONFIRMATION", "SEGMENTED_CONFIRMATION")
_CK = ("SegmentAck", "SimpleAck", "ComplexAck", "Error", "Reject", "Abort")
CLIENT_CONF = [P + "ClientSSM.confirmation[%s, %s]" % (s, k) for s in _CS for k in _CK]
CLIENT_TASK = [P + "ClientSSM.process_task[%s]" % s for s in _CS + ("COMPLETED", "ABORTED")]
CLIENT_LEARNED = [P + "ClientSSM.process_task[AWAIT_CONFIRMATION, peer learned meanwhile]", P + "ClientSSM.confirmation[AWAIT_CONFIRMATION, SimpleAck, peer learned meanwhile]"]
CLIENT_START = [P + "ClientSSM.indication[local %s]" % s for s in SEG]
SERVER_START = [P + "ServerSSM.indication[IDLE, ConfirmedRequest, local %s%s]" % (s, c) for s in SEG for c in ("", ", reserved max-APDU code")]
SERVER_IN = [P + "ServerSSM.indication[%s, %s]" % sk for sk in (("SEGMENTED_REQUEST", "ConfirmedRequest"), ("SEGMENTED_REQUEST", "Abort"),
             ("SEGMENTED_REQUEST", "SegmentAck"), ("AWAIT_RESPONSE", "ConfirmedRequest"), ("AWAIT_RESPONSE", "Abort"), ("AWAIT_RESPONSE", "SegmentAck"),
             ("SEGMENTED_RESPONSE", "SegmentAck"), ("SEGMENTED_RESPONSE", "Abort"), ("SEGMENTED_RESPONSE", "ConfirmedRequest"))]
SERVER_ANSWER = [P + "ServerSSM.confirmation"]
SERVER_TASK = [P + "ServerSSM.process_task[%s]" % s for s in ("SEGMENTED_REQUEST", "AWAIT_RESPONSE", "SEGMENTED_RESPONSE", "COMPLETED", "ABORTED")]
SEGMENTS = [P + "SSM.in_window", P + "SSM.get_segment[ClientSSM]", P + "SSM.get_segment[ServerSSM]"]
_B = 4 if __import__("os").environ.get("VERIF_TIER") == "thorough" else 3
SAP_ALLOC = [P + "StateMachineAccessPoint.get_next_invoke_id[%d live]" % n for n in range(_B + 1)]
SAP_START = [P + "StateMachineAccessPoint.sap_indication[confirmed request, %d live]" % n for n in range(_B)]
SAP_DEMUX = [P + "StateMachineAccessPoint.confirmation[block: demultiplexing, %s]" % k
             for k in ("ConfirmedRequest", "SimpleAck", "ComplexAck", "SegmentAck", "Error", "Reject", "Abort")]
SAP_ANSWER = [P + "StateMachineAccessPoint.sap_confirmation"]
IOCB = ["bacpypes.app:ApplicationIOController._app_complete", "bacpypes.app:ApplicationIOController.process_io",
        "bacpypes.iocb:IOController.complete_io", "bacpypes.iocb:IOController.abort_io", "bacpypes.iocb:IOQController._trigger"]

SSM_ASSUMPTIONS = [
    "the timer is the pair of trusted summaries of _Task.install_task / suspend_task (isScheduled := True / False); their own contracts over the real TaskManager are verified under C14",
    "everything leaving a transaction is a ghost-traced external: Client.request (to the network), ServiceAccessPoint.sap_request / sap_response (to the application), DeviceInfoCache.acquire / release / update_device_info",
    "segment sizes are drawn from {50, 480} in mid-transfer states and computed from max-APDU values in {50, 128.., 480, 1024, 1476, 1497} at the start (a symbolic size makes count * size non-linear); payload, counts, indexes, sequence numbers, invoke IDs, retry counts and timeouts are symbolic and unbounded where the type allows",
    "fill_window is unrolled over the actual window size: windows up to SSM_WINDOW (2 in the quick tier, 8 in the thorough tier -- the property's window range 1..8); larger windows are not covered by the sender-side obligations",
    "conforming peer: window sizes in acks and requests are 1..127 (which segment an ack names is not restricted: late copies from an earlier try are covered)",
    "whole-history claims (any loss / duplication / delay / reordering) = induction over the per-call contracts: the class invariant is established at the start and preserved by every entry point for every PDU and every timeout, so it holds after every sequence of them; the composition itself is the standard invariant argument and is not machine-checked as a whole",
]
