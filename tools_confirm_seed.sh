#!/bin/sh
# usage: tools_confirm_seed.sh <prop> <n>  -- confirm a sub-agent's seeded change in a fresh scratch worktree, then store it under /verif/seeded/<prop>_<n>
set -u
prop="$1"; n="$2"
src=/tmp/mut/$prop/_out/${prop}_$n
wt=/tmp/confirm_${prop}_$n
rm -rf "$wt"; git -C /repo worktree add -q --detach "$wt" HEAD || exit 9
cd "$wt"
PYTHONPATH=$wt/py34 /venv/bin/python "$src/demo.py" >/tmp/confirm_clean.out 2>&1; clean=$?
git apply "$src/patch.diff" || { echo "patch does not apply"; git -C /repo worktree remove --force "$wt"; exit 9; }
tests=$(PYTHONPATH=$wt/py34 /venv/bin/python -m pytest -q -p no:cacheprovider --timeout=900 2>&1 | tail -1)
PYTHONPATH=$wt/py34 /venv/bin/python "$src/demo.py" >/tmp/confirm_mut.out 2>&1; mut=$?
cd /; git -C /repo worktree remove --force "$wt"
echo "${prop}_$n: demo clean exit=$clean, tests with change: $tests, demo with change exit=$mut"
case "$tests" in *"405 passed"*) t_ok=1;; *) t_ok=0;; esac
if [ "$clean" = 0 ] && [ "$mut" != 0 ] && [ "$t_ok" = 1 ]; then
  d=/verif/seeded/${prop}_$n; mkdir -p "$d"
  cp "$src/patch.diff" "$src/demo.py" "$src/notes.txt" "$d/"
  tail -3 /tmp/confirm_mut.out > "$d/demo_output_with_change.txt"
  echo CONFIRMED
else
  echo "NOT CONFIRMED"; tail -5 /tmp/confirm_clean.out; tail -5 /tmp/confirm_mut.out
fi
