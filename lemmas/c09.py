"""
C09 as lemmas over contracts: every BVLL frame the library produces (message
.encode(bvlpdu) then bvlpdu.encode(pdu), as bvllservice.AnnexJCodec does) is
81 fn len body with len == the number of octets; each of the twelve functions
round-trips its parameters; a datagram whose type or length disagrees is
refused.  Message objects are built with the real constructors (they compute
the length field).
"""
from pyvc.contracts import lemma, requires, check, Obj, Bytes, Int, Bool, Const, OneOf, NoneOr, List
from spec import bvll as sv
from bacpypes.errors import DecodingError
from bacpypes.pdu import PDU, Address
from bacpypes.bvll import BVLPDU, Result, WriteBroadcastDistributionTable, ReadBroadcastDistributionTable, \
    ReadBroadcastDistributionTableAck, ForwardedNPDU, RegisterForeignDevice, ReadForeignDeviceTable, \
    ReadForeignDeviceTableAck, DeleteForeignDeviceTableEntry, DistributeBroadcastToNetwork, OriginalUnicastNPDU, \
    OriginalBroadcastNPDU, FDTEntry
from contracts.comm import BPDUObj
from contracts.bvll import IPObj, BDTs, FDTs, bdt_tuples, fdt_tuples, BVLPDUBuf, TABLE_BOUND

_DEC = ["bacpypes.bvll:%s.decode" % c for c in ("ForwardedNPDU", "DeleteForeignDeviceTableEntry", "WriteBroadcastDistributionTable",
                                               "ReadBroadcastDistributionTableAck", "ReadForeignDeviceTableAck")] + ["bacpypes.pdu:unpack_ip_addr"]

def wire(m):
    """the library's own two-stage encode"""
    bvlpdu = BVLPDU()
    m.encode(bvlpdu)
    pdu = PDU()
    bvlpdu.encode(pdu)
    return bytes(pdu.pduData)

def unwire(octets, m2):
    bvlpdu = BVLPDU()
    bvlpdu.decode(PDU(octets))
    m2.decode(bvlpdu)
    return bvlpdu

def framed(octets, function, body):
    check(octets == sv.frame(function, body), "81, function, length, body per Annex J")
    check(len(octets) >= 4 and octets[0] == 129 and octets[1] == function, "type and function code")
    check(octets[2] * 256 + octets[3] == len(octets), "length field equals the number of octets of the frame")

@lemma("C09.result", params={"code": Int(0, 65535)})
def l_result(code):
    octets = wire(Result(code))
    framed(octets, 0, sv.result(code))
    d = Result()
    b = unwire(octets, d)
    check(d.bvlciResultCode == code and d.bvlciFunction == 0 and len(b.pduData) == 0, "result code")

@lemma("C09.write_bdt", params={"table": BDTs()}, uses_bodies=_DEC)
def l_write_bdt(table):
    octets = wire(WriteBroadcastDistributionTable(table))
    framed(octets, 1, sv.bdt(bdt_tuples(table)))
    d = WriteBroadcastDistributionTable()
    unwire(octets, d)
    check(len(d.bvlciBDT) == len(table), "number of entries")
    for a, b in zip(d.bvlciBDT, table):
        check(a.addrAddr == b.addrAddr and a.addrMask == b.addrMask, "address and mask")

@lemma("C09.read_bdt", params={})
def l_read_bdt():
    octets = wire(ReadBroadcastDistributionTable())
    framed(octets, 2, b'')
    d = ReadBroadcastDistributionTable()
    unwire(octets, d)
    check(d.bvlciFunction == 2, "function")

@lemma("C09.read_bdt_ack", params={"table": BDTs()}, uses_bodies=_DEC)
def l_read_bdt_ack(table):
    octets = wire(ReadBroadcastDistributionTableAck(table))
    framed(octets, 3, sv.bdt(bdt_tuples(table)))
    d = ReadBroadcastDistributionTableAck()
    unwire(octets, d)
    check(len(d.bvlciBDT) == len(table), "number of entries")
    for a, b in zip(d.bvlciBDT, table):
        check(a.addrAddr == b.addrAddr and a.addrMask == b.addrMask, "address and mask")

@lemma("C09.forwarded_npdu", params={"addr": IPObj(), "npdu": Bytes(0, 65525)}, uses_bodies=_DEC)
def l_forwarded(addr, npdu):
    octets = wire(ForwardedNPDU(addr, npdu))
    framed(octets, 4, sv.forwarded_npdu(addr.addrAddr, npdu))
    d = ForwardedNPDU()
    unwire(octets, d)
    check(d.bvlciAddress.addrAddr == addr.addrAddr and d.pduData == npdu, "originating address and NPDU")

@lemma("C09.register_foreign_device", params={"ttl": Int(0, 65535)})
def l_register(ttl):
    octets = wire(RegisterForeignDevice(ttl))
    framed(octets, 5, sv.register_foreign_device(ttl))
    d = RegisterForeignDevice()
    unwire(octets, d)
    check(d.bvlciTimeToLive == ttl, "time to live")

@lemma("C09.read_fdt", params={})
def l_read_fdt():
    octets = wire(ReadForeignDeviceTable())
    framed(octets, 6, b'')
    d = ReadForeignDeviceTable()
    unwire(octets, d)
    check(d.bvlciFunction == 6, "function")

@lemma("C09.read_fdt_ack", params={"table": FDTs()}, uses_bodies=_DEC)
def l_read_fdt_ack(table):
    octets = wire(ReadForeignDeviceTableAck(table))
    framed(octets, 7, sv.fdt(fdt_tuples(table)))
    d = ReadForeignDeviceTableAck()
    unwire(octets, d)
    check(len(d.bvlciFDT) == len(table), "number of entries")
    for a, b in zip(d.bvlciFDT, table):
        check(a.fdAddress.addrAddr == b.fdAddress.addrAddr and a.fdTTL == b.fdTTL and a.fdRemain == b.fdRemain, "address, TTL, remaining time")

@lemma("C09.delete_fdt_entry", params={"addr": IPObj()}, uses_bodies=_DEC)
def l_delete(addr):
    octets = wire(DeleteForeignDeviceTableEntry(addr))
    framed(octets, 8, sv.delete_fdt_entry(addr.addrAddr))
    d = DeleteForeignDeviceTableEntry()
    unwire(octets, d)
    check(d.bvlciAddress.addrAddr == addr.addrAddr, "address")

def _npdu_lemma(name, cls, fn):
    @lemma("C09." + name, params={"npdu": Bytes(0, 65531)})
    def _l(npdu):
        octets = wire(cls(npdu))
        framed(octets, fn, npdu)
        d = cls()
        unwire(octets, d)
        check(d.pduData == npdu, "NPDU untouched")
    return _l

_npdu_lemma("distribute_broadcast", DistributeBroadcastToNetwork, 9)
_npdu_lemma("original_unicast", OriginalUnicastNPDU, 10)
_npdu_lemma("original_broadcast", OriginalBroadcastNPDU, 11)

@lemma("C09.mismatch_refused", params={"pdu": BPDUObj()})
def mismatch_refused(pdu):
    """a received datagram is accepted only when its type is 0x81 and its
    length field equals the datagram length; otherwise DecodingError"""
    octets = bytes(pdu.pduData)
    b = BVLPDU()
    try:
        b.decode(pdu)
    except DecodingError:
        return
    check(len(octets) >= 4 and octets[0] == 129, "type 0x81")
    check(octets[2] * 256 + octets[3] == len(octets), "length field equals the datagram length")
    check(b.bvlciFunction == octets[1] and b.pduData == octets[4:], "function and body")

@lemma("C09.ip_address", params={"six": Bytes(6, 6)}, uses_bodies=_DEC)
def ip_address(six):
    """six octets -> Address -> six octets; IP word and port are what the octets say"""
    from bacpypes.pdu import unpack_ip_addr, pack_ip_addr
    t = unpack_ip_addr(six)
    a = Address(t)
    check(a.addrAddr == six and a.addrLen == 6, "same six octets")
    check(a.addrPort == six[4] * 256 + six[5], "port")
    check(a.addrIP == ((six[0] * 256 + six[1]) * 256 + six[2]) * 256 + six[3], "IP word")
    check(pack_ip_addr(t) == six, "pack(unpack(x)) == x")

# -- what actually leaves AnnexJCodec ----------------------------------------------------
from pyvc.contracts import trace
from bacpypes.bvllservice import AnnexJCodec

def CodecObj():
    from contracts.comm import Token
    return Obj("bacpypes.bvllservice:AnnexJCodec", clientID=Const(None), clientPeer=Token(), serverID=Const(None), serverPeer=Token())

@lemma("C09.codec_emits_frames", params={"codec": CodecObj(), "addr": IPObj(), "npdu": Bytes(0, 65525), "ttl": Int(0, 65535), "which": Int(0, 3)})
def codec_emits(codec, addr, npdu, ttl, which):
    """AnnexJCodec.indication hands exactly one PDU downward and its octets are a
    well-formed frame (shown on four representative functions; the per-function
    lemmas above cover the bodies)"""
    if which == 0:
        m = ForwardedNPDU(addr, npdu)
        want = sv.frame(4, sv.forwarded_npdu(addr.addrAddr, npdu))
    elif which == 1:
        m = RegisterForeignDevice(ttl)
        want = sv.frame(5, sv.register_foreign_device(ttl))
    elif which == 2:
        m = OriginalBroadcastNPDU(npdu)
        want = sv.frame(11, npdu)
    else:
        m = ReadForeignDeviceTable()
        want = sv.frame(6, b'')
    codec.indication(m)
    sent = trace("down")
    check(len(sent) == 1, "exactly one PDU handed downward")
    octets = bytes(sent[0][0].pduData)
    check(octets == want, "a well-formed Annex J frame")
    check(octets[2] * 256 + octets[3] == len(octets), "length field equals the number of octets")

# -- what AnnexJCodec does with an arbitrary datagram ------------------------------------------
from bacpypes.bvll import bvl_pdu_types
from bacpypes.pdu import PDU as _PDU

@lemma("C09.codec_receives_any_datagram", params={"codec": CodecObj(), "data": Bytes(0, 16)}, max_paths=40000)
def codec_receives(codec, data):
    """a datagram of 0..16 arbitrary octets: either exactly one decoded message of the class its function octet names is handed
    upward -- and then type octet and length field agree with the datagram -- or the datagram is refused (DecodingError; KeyError
    for a function code outside Annex J) and nothing is handed upward"""
    n = len(data)
    well_framed = n >= 4 and data[0] == 0x81 and data[2] * 256 + data[3] == n
    pdu = _PDU(data)
    try:
        codec.confirmation(pdu)
    except DecodingError:
        check(len(trace("up")) == 0, "a refused datagram is not handed upward")
    except KeyError:
        check(len(trace("up")) == 0, "a refused datagram is not handed upward (unknown function)")
        check(well_framed and data[1] not in bvl_pdu_types, "KeyError only for a function code outside Annex J")
    else:
        up = trace("up")
        check(len(up) == 1, "exactly one message handed upward")
        check(well_framed, "accepted only when type octet and length field agree with the datagram")
        check(type(up[0][0]) is bvl_pdu_types[data[1]], "the message class the function octet names")
