"""
C02 as lemmas over contracts.

frame_parse / reframe / decode_step are per-tag statements proved for every
tag and every octet string (no bound).  The list-level statements are then
instances of the while-rule: TagList.decode is `while pdu.pduData: append(Tag(pdu))`
and TagList.encode is `for tag in tagList: tag.encode(pdu)`; decode_step gives
the loop's variant (each iteration consumes at least one octet or raises
InvalidTag) and frame_parse its step function.  list_roundtrip checks the
composition on lists of 0..2 fully symbolic tags (bounded in structure).
"""
from pyvc.contracts import lemma, requires, check, Obj, Bytes, Int, Bool, Const, OneOf, List
from spec import tags as st
from bacpypes.pdu import PDUData
from bacpypes.primitivedata import Tag, TagList
from bacpypes.errors import InvalidTag
from contracts.primitivedata import TagObj
from contracts.comm import PDUDataObj
from contracts.taglist import TagLists, frames, all_wf

@lemma("C02.frame_parse", params={"t": TagObj(), "rest": Bytes()})
def frame_parse(t, rest):
    """every well-formed tag, followed by anything, decodes to itself and
    consumes exactly its own octets; the octets use the standard's escapes"""
    requires(st.wf(t.tagClass, t.tagNumber, t.tagLVT, t.tagData))
    pdu = PDUData()
    t.encode(pdu)
    octets = bytes(pdu.pduData)
    check(octets == st.frame(t.tagClass, t.tagNumber, t.tagLVT, t.tagData), "standard framing")
    # the length escapes of clause 20.2.1.3.1
    n = t.tagLVT
    head = len(octets) - len(t.tagData)
    ext = 1 if t.tagNumber >= 15 else 0
    if t.tagClass <= 1:
        if n <= 4:
            check(head == 1 + ext, "short length in the initial octet")
        elif n <= 253:
            check(head == 2 + ext and octets[1 + ext] == n, "one length octet for 5..253")
        elif n <= 65535:
            check(head == 4 + ext and octets[1 + ext] == 254, "254 escape and two octets for 254..65535")
        else:
            check(head == 6 + ext and octets[1 + ext] == 255, "255 escape and four octets above")
    pdu.put_data(rest)
    d = Tag(pdu)
    check(d.tagClass == t.tagClass and d.tagNumber == t.tagNumber and d.tagLVT == t.tagLVT and d.tagData == t.tagData, "same tag")
    check(bytes(pdu.pduData) == rest, "exactly the tag's octets consumed")

@lemma("C02.decode_step", params={"pdu": PDUDataObj(), "d": TagObj()})
def decode_step(pdu, d):
    """arbitrary octets: one decoding step terminates, raises only InvalidTag,
    never over-reads, makes progress, and yields a tag whose re-encoding
    decodes to the same tag (even when the input used a non-canonical escape)"""
    octets = bytes(pdu.pduData)
    try:
        d.decode(pdu)
    except InvalidTag:
        return
    consumed = len(octets) - len(pdu.pduData)
    check(1 <= consumed <= len(octets), "progress and no over-read")
    check(bytes(pdu.pduData) == octets[consumed:], "the unread octets are the tail")
    check(0 <= d.tagClass <= 3 and 0 <= d.tagNumber <= 255 and d.tagLVT >= 0, "a tag")
    if d.tagNumber <= 254:
        check(st.wf(d.tagClass, d.tagNumber, d.tagLVT, d.tagData), "what was decoded can be encoded")
        p2 = PDUData()
        d.encode(p2)
        e = Tag(p2)
        check(e.tagClass == d.tagClass and e.tagNumber == d.tagNumber and e.tagLVT == d.tagLVT and e.tagData == d.tagData, "re-encoding decodes to the same tag")
        check(len(p2.pduData) == 0, "and consumes every octet")

@lemma("C02.list_roundtrip", params={"tl": TagLists(2, TagObj)})
def list_roundtrip(tl):
    requires(all_wf(tl.tagList))
    pdu = PDUData()
    tl.encode(pdu)
    out = TagList()
    out.decode(pdu)
    check(len(pdu.pduData) == 0, "every octet consumed")
    check(len(out.tagList) == len(tl.tagList), "same number of tags")
    for a, b in zip(out.tagList, tl.tagList):
        check(a.tagClass == b.tagClass and a.tagNumber == b.tagNumber and a.tagLVT == b.tagLVT and a.tagData == b.tagData, "same tags in order")
