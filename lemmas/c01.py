"""
C01 as lemmas over contracts: construct a primitive value through the public
constructor, encode it as an application tag and as a context tag (context
number symbolic 0..254), frame it, append arbitrary following octets, decode,
and compare -- verified against the callees' contracts only.
"""
import struct
from pyvc.contracts import lemma, requires, check, Obj, Bytes, Int, Bool, Real, Const, OneOf, Tuple, List, Str
from spec import prim as sp
from spec import tags as st
from bacpypes.pdu import PDUData
from bacpypes.primitivedata import Tag, Null, Boolean, Unsigned, Unsigned8, Unsigned16, Integer, Real as BReal, Double, \
    OctetString, CharacterString, BitString, Enumerated, Date, Time, ObjectIdentifier, ObjectType
from bacpypes.basetypes import Segmentation
from contracts.primitivedata import _type_number, _type_shown, _ObjTypeShape, _bits

def app_octets(obj, rest):
    """encode obj as an application tag, frame it, append rest; returns (pdu, tag)"""
    t = Tag()
    obj.encode(t)
    pdu = PDUData()
    t.encode(pdu)
    pdu.put_data(rest)
    return pdu, t

def ctx_octets(obj, ctx, rest):
    t = Tag()
    obj.encode(t)
    c = t.app_to_context(ctx)
    pdu = PDUData()
    c.encode(pdu)
    pdu.put_data(rest)
    return pdu, c

def both_modes(make, obj, canonical, ctx, rest, app_tag, same):
    """the shared client program: `make(tag)` builds a value from a decoded tag,
    `canonical` is the standard's content octets, `same(w)` compares values"""
    # application tagging
    pdu, t = app_octets(obj, rest)
    if app_tag == 1:
        check(bytes(pdu.pduData) == st.frame(0, 1, 1 if obj.value else 0, b'') + rest, "application form is canonical")
    else:
        check(bytes(pdu.pduData) == st.frame(0, app_tag, len(canonical), canonical) + rest, "application form is canonical")
    d = Tag(pdu)
    check(bytes(pdu.pduData) == rest, "application: exactly the tag's octets consumed")
    w = make(d)
    check(same(w), "application: same value")
    # context tagging
    pdu, c = ctx_octets(obj, ctx, rest)
    check(bytes(pdu.pduData) == st.frame(1, ctx, len(canonical), canonical) + rest, "context form is canonical")
    d = Tag(pdu)
    check(bytes(pdu.pduData) == rest, "context: exactly the tag's octets consumed")
    check(d.tagClass == 1 and d.tagNumber == ctx, "context number survives")
    a = d.context_to_app(app_tag)
    w = make(a)
    check(same(w), "context: same value")

CTX = Int(0, 254)
REST = Bytes()

@lemma("C01.null", params={"ctx": CTX, "rest": REST})
def null_rt(ctx, rest):
    v = Null(())
    both_modes(lambda tag: Null(tag), v, b'', ctx, rest, 0, lambda w: w.value == ())

@lemma("C01.boolean", params={"b": Bool(), "ctx": CTX, "rest": REST})
def boolean_rt(b, ctx, rest):
    v = Boolean(b)
    both_modes(lambda tag: Boolean(tag), v, bytes([1 if b else 0]), ctx, rest, 1, lambda w: w.value == b)

@lemma("C01.unsigned", params={"v": Int(), "ctx": CTX, "rest": REST})
def unsigned_rt(v, ctx, rest):
    try:
        u = Unsigned(v)
    except ValueError:
        check(v < 0, "only negative numbers are refused by the constructor")
        return
    try:
        Tag_ = Tag()
        u.encode(Tag_)
    except struct.error:
        check(v >= 4294967296, "the encoder refuses only what four octets cannot hold")
        return
    both_modes(lambda tag: Unsigned(tag), u, sp.unsigned(v), ctx, rest, 2, lambda w: w.value == v)

@lemma("C01.unsigned8_16", params={"v": Int(), "ctx": CTX, "rest": REST, "wide": Bool()})
def unsigned_sub_rt(v, ctx, rest, wide):
    cls = Unsigned16 if wide else Unsigned8
    try:
        u = cls(v)
    except ValueError:
        check(v < 0 or v > (65535 if wide else 255), "refused only outside the subclass range")
        return
    both_modes(lambda tag: cls(tag), u, sp.unsigned(v), ctx, rest, 2, lambda w: w.value == v)

@lemma("C01.integer", params={"v": Int(), "ctx": CTX, "rest": REST})
def integer_rt(v, ctx, rest):
    i = Integer(v)
    try:
        Tag_ = Tag()
        i.encode(Tag_)
    except ValueError:
        check(not sp.integer_representable(v), "the encoder refuses only what four octets cannot hold")
        return
    both_modes(lambda tag: Integer(tag), i, sp.integer(v), ctx, rest, 3, lambda w: w.value == v)

@lemma("C01.enumerated_number", params={"v": Int(), "ctx": CTX, "rest": REST})
def enumerated_rt(v, ctx, rest):
    """an Enumerated with no names: every number"""
    try:
        e = Enumerated(v)
    except ValueError:
        check(v < 0, "only negative numbers are refused")
        return
    try:
        Tag_ = Tag()
        e.encode(Tag_)
    except struct.error:
        check(v >= 4294967296, "the encoder refuses only what four octets cannot hold")
        return
    both_modes(lambda tag: Enumerated(tag), e, sp.unsigned(v), ctx, rest, 9, lambda w: w.value == v)

@lemma("C01.enumerated_named", params={"name": OneOf(*sorted(Segmentation.enumerations)), "v": Int(0, 4294967295), "ctx": CTX, "rest": REST, "by_name": Bool()})
def enumerated_named_rt(name, v, ctx, rest, by_name):
    """an Enumerated with names (Segmentation): by name and by number"""
    if by_name:
        e = Segmentation(name)
        n = Segmentation.enumerations[name]
    else:
        e = Segmentation(v)
        n = v
    both_modes(lambda tag: Segmentation(tag), e, sp.unsigned(n), ctx, rest, 9, lambda w: w.value == e.value and w.get_long() == n)

@lemma("C01.real", params={"x": Real(), "ctx": CTX, "rest": REST})
def real_rt(x, ctx, rest):
    r = BReal(x)
    try:
        Tag_ = Tag()
        r.encode(Tag_)
    except OverflowError:
        check(abs(x) >= sp.F32_OVERFLOW, "refused only beyond the binary32 range")
        return
    both_modes(lambda tag: BReal(tag), r, sp.real32(x), ctx, rest, 4, lambda w: w.value == sp.round32(x))

@lemma("C01.double", params={"x": Real(), "ctx": CTX, "rest": REST})
def double_rt(x, ctx, rest):
    r = Double(x)
    both_modes(lambda tag: Double(tag), r, sp.real64(x), ctx, rest, 5, lambda w: w.value == x)

@lemma("C01.octetstring", params={"data": Bytes(0, 4294967295), "ctx": CTX, "rest": REST})
def octetstring_rt(data, ctx, rest):
    o = OctetString(data)
    both_modes(lambda tag: OctetString(tag), o, data, ctx, rest, 6, lambda w: w.value == data)

@lemma("C01.characterstring_octets",
       params={"c": Obj("bacpypes.primitivedata:CharacterString", value=Str(), strEncoding=Int(0, 255), strValue=Bytes(0, 4294967294)),
               "ctx": CTX, "rest": REST})
def characterstring_rt(c, ctx, rest):
    """octet level: encoding octet and string octets survive (the text codec is trusted, see bounded stage)"""
    canonical = bytes([c.strEncoding]) + c.strValue
    pdu, t = app_octets(c, rest)
    check(bytes(pdu.pduData) == st.frame(0, 7, len(canonical), canonical) + rest, "application form is canonical")
    d = Tag(pdu)
    check(bytes(pdu.pduData) == rest and d.tagData == canonical and d.tagClass == 0 and d.tagNumber == 7, "application: content octets survive")
    pdu, k = ctx_octets(c, ctx, rest)
    check(bytes(pdu.pduData) == st.frame(1, ctx, len(canonical), canonical) + rest, "context form is canonical")
    d = Tag(pdu)
    a = d.context_to_app(7)
    check(bytes(pdu.pduData) == rest and a.tagData == canonical and a.tagClass == 0 and a.tagNumber == 7, "context: content octets survive")

@lemma("C01.bitstring", params={"bits": OneOf(*[_bits(n) for n in range(0, 65)]), "ctx": CTX, "rest": REST})
def bitstring_rt(bits, ctx, rest):
    b = BitString(bits)
    both_modes(lambda tag: BitString(tag), b, sp.bitstring(bits), ctx, rest, 8, lambda w: w.value == bits)

@lemma("C01.date", params={"y": Int(), "m": Int(), "d": Int(), "w": Int(), "ctx": CTX, "rest": REST})
def date_rt(y, m, d, w, ctx, rest):
    v = Date((y, m, d, w))
    try:
        Tag_ = Tag()
        v.encode(Tag_)
    except ValueError:
        check(not (0 <= y <= 255 and 0 <= m <= 255 and 0 <= d <= 255 and 0 <= w <= 255), "refused only when an element is not an octet")
        return
    both_modes(lambda tag: Date(tag), v, bytes([y, m, d, w]), ctx, rest, 10, lambda x: x.value == (y, m, d, w))

@lemma("C01.time", params={"h": Int(), "m": Int(), "s": Int(), "c": Int(), "ctx": CTX, "rest": REST})
def time_rt(h, m, s, c, ctx, rest):
    v = Time((h, m, s, c))
    try:
        Tag_ = Tag()
        v.encode(Tag_)
    except ValueError:
        check(not (0 <= h <= 255 and 0 <= m <= 255 and 0 <= s <= 255 and 0 <= c <= 255), "refused only when an element is not an octet")
        return
    both_modes(lambda tag: Time(tag), v, bytes([h, m, s, c]), ctx, rest, 11, lambda x: x.value == (h, m, s, c))

@lemma("C01.objectidentifier", params={"t": _ObjTypeShape, "inst": Int(), "ctx": CTX, "rest": REST})
def objectidentifier_rt(t, inst, ctx, rest):
    try:
        o = ObjectIdentifier(t, inst)
    except ValueError:
        check(inst < 0 or inst > 4194303, "refused only outside the 22-bit instance range")
        return
    n = _type_number(t)
    both_modes(lambda tag: ObjectIdentifier(tag), o, sp.object_identifier(n, inst), ctx, rest, 12,
               lambda w: w.value == (_type_shown(n), inst) and w.get_tuple() == (n, inst))

@lemma("C01.objectidentifier_word", params={"word": Int(0, 4294967295), "ctx": CTX, "rest": REST})
def objectidentifier_word_rt(word, ctx, rest):
    """all 2**32 identifier words"""
    o = ObjectIdentifier(word)
    both_modes(lambda tag: ObjectIdentifier(tag), o, sp.unsigned(word) if False else bytes([word // 16777216, (word // 65536) % 256, (word // 256) % 256, word % 256]),
               ctx, rest, 12, lambda w: w.get_long() == word)
