"""
C18 as lemmas over contracts (route-less addresses): equality is an
equivalence relation on (type, network, octets); != is its negation; equal
addresses hash equally; the typed constructors and the non-text notations
denote the same addresses.
"""
from pyvc.contracts import lemma, requires, check, Obj, Bytes, Int, Bool, Const, OneOf, Tuple, IPStr
from bacpypes.pdu import Address, LocalStation, RemoteStation, LocalBroadcast, RemoteBroadcast, GlobalBroadcast
from contracts.pdu import AddrShape, same_address
from spec import addr as sa

@lemma("C18.equivalence", params={"a": AddrShape(), "b": AddrShape(), "c": AddrShape()})
def equivalence(a, b, c):
    check(a == a, "reflexive")
    ab = (a == b)
    check(ab == (b == a), "symmetric")
    check(ab == same_address(a, b), "equality is (type, network, octets)")
    check((a != b) == (not ab), "!= is the negation of ==")
    if ab and (b == c):
        check(a == c, "transitive")

@lemma("C18.hash", params={"a": AddrShape(8), "b": AddrShape(8)})
def hash_coherent(a, b):
    """equal addresses hash equally (station addresses of 1..8 octets: the
    hash model needs the octets spelled out)"""
    if a == b:
        check(hash(a) == hash(b), "a == b implies hash(a) == hash(b)")

@lemma("C18.constructors", params={"n": Int(), "net": Int(), "octets": Bytes(1, 32)})
def constructors(n, net, octets):
    """typed constructors and the int / octet notations denote the same
    addresses; stations above 255 and networks above 65534 are refused"""
    try:
        a = Address(n)
        check(0 <= n <= 255, "station numbers 0..255 only")
        check(a.addrType == 2 and a.addrNet is None and a.addrAddr == bytes([n]) and a.addrLen == 1, "a local station with one octet")
        check(a == LocalStation(n), "Address(n) == LocalStation(n)")
    except ValueError:
        check(n < 0 or n > 255, "refused only outside 0..255")
    try:
        r = RemoteStation(net, octets)
        check(0 <= net <= 65534, "networks 0..65534 only")
        check(r.addrType == 4 and r.addrNet == net and r.addrAddr == octets and r.addrLen == len(octets), "a remote station")
        r2 = Address(net, octets)
        check(r == r2, "Address(net, octets) == RemoteStation(net, octets)")
    except ValueError:
        check(net < 0 or net > 65534, "refused only outside 0..65534")
    try:
        b = RemoteBroadcast(net)
        check(b.addrType == 3 and b.addrNet == net and b.addrAddr is None, "a remote broadcast")
    except ValueError:
        check(net < 0 or net > 65534, "refused only outside 0..65534")
    l = LocalStation(octets)
    check(l == Address(octets) if len(octets) != 6 else True, "Address(octets) == LocalStation(octets)")
    check(LocalBroadcast().addrType == 1 and GlobalBroadcast().addrType == 5, "broadcast kinds")

@lemma("C18.ip_tuple", params={"ip": IPStr(), "port": Int(0, 65535), "six": Bytes(6, 6)})
def ip_tuple(ip, port, six):
    """(address, port) tuples and six raw octets denote the same B/IP address"""
    a = Address((ip, port))
    check(a.addrLen == 6 and a.addrPort == port and a.addrType == 2, "six-octet local station")
    b = Address(bytes(a.addrAddr))
    check(b.addrPort == port and b.addrIP == a.addrIP and a == b, "octets -> same address")
    c = Address(six)
    check(c.addrIP == sa.ip_word(six) and c.addrPort == six[4] * 256 + six[5], "raw octets: IP word and port")
    d = Address(c.addrTuple)
    check(d == c and d.addrAddr == six, "octets -> tuple -> octets")
