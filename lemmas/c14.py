"""
C14 as lemmas (client programs of TaskManager / RecurringTask; the manager's
bodies are interpreted here because their contracts are relational -- stated
with `ensures` over the abstract view -- and each is verified separately
against the same bodies).

Scope: heaps of 0..2 pre-existing entries plus the tasks the lemma installs
(up to 4 tasks, the property's own scope), all times symbolic reals, the clock
an arbitrary real on every reading.
"""
from pyvc.contracts import lemma, requires, check, trace, Obj, Int, Bool, Real, Const, OneOf, NoneOr, List, Tuple, Count
from contracts.task import Manager, TaskObj, wf, heap_ok, key_le, has_entry, INTERVAL_GRID, OFFSET_GRID

def Managers(upto=2):
    return OneOf(*[Manager(k) for k in range(upto + 1)])

def entry_of(h, task):
    return [e for e in h if e[2] is task]

@lemma("C14.order", params={"m": Managers(3)})
def order(m):
    """two tasks handed out one after the other come in non-decreasing (time,
    installation order); neither is early"""
    requires(wf(m))
    before = list(m.tasks)
    t1, d1 = m.get_next_task()
    now1 = trace('clock')[0][0]
    if t1 is None:
        return
    e1 = entry_of(before, t1)[0]
    check(e1[0] <= now1, "never before its time")
    t2, d2 = m.get_next_task()
    now2 = trace('clock')[1][0]
    if t2 is None:
        return
    e2 = entry_of(before, t2)[0]
    check(e2[0] <= now2, "never before its time")
    check(key_le((e1[0], e1[1]), (e2[0], e2[1])), "non-decreasing due time, ties in installation order")
    check(t1 is not t2, "a task fires once per installation")

@lemma("C14.ties_in_installation_order", params={"m": Managers(2), "a": TaskObj(False), "b": TaskObj(False)})
def ties(m, a, b):
    requires(wf(m))
    requires(a.taskTime == b.taskTime)
    requires(all(e[0] > a.taskTime for e in m.tasks))          # nothing else is due earlier or at the same time
    m.install_task(a)
    m.install_task(b)
    t1, _ = m.get_next_task()
    if t1 is None:
        check(trace('clock')[0][0] < a.taskTime, "nothing returned only when nothing is due")
        return
    check(t1 is a, "the one installed first fires first")
    t2, _ = m.get_next_task()
    if t2 is not None:
        check(t2 is b, "then the other")

@lemma("C14.suspended_does_not_fire", params={"m": Managers(2), "a": TaskObj(False)})
def suspended(m, a):
    requires(wf(m))
    m.install_task(a)
    check(a.isScheduled == True and len(entry_of(m.tasks, a)) == 1, "installed once")
    m.suspend_task(a)
    check(a.isScheduled == False and len(entry_of(m.tasks, a)) == 0, "suspended: no entry left")
    t, _ = m.get_next_task()
    check(t is not a, "a suspended task does not fire")
    m.resume_task(a)
    check(a.isScheduled == True and len(entry_of(m.tasks, a)) == 1, "resumed: one entry again")

@lemma("C14.reinstall_moves", params={"m": Managers(2), "a": TaskObj(False), "t2": Real()})
def reinstall(m, a, t2):
    requires(wf(m))
    n = len(m.tasks)
    m.install_task(a)
    a.taskTime = t2
    m.install_task(a)
    check(len(m.tasks) == n + 1 and len(entry_of(m.tasks, a)) == 1, "re-installing moves the task, it does not duplicate it")
    check(entry_of(m.tasks, a)[0][0] == t2, "to its new time")
    check(wf(m), "the heap stays well-formed")
    t, _ = m.get_next_task()
    if t is a:
        check(t2 <= trace('clock')[0][0], "and it fires at the new time, not the old one")

def RecurringObj():
    return Obj("bacpypes.task:RecurringTask", taskTime=Const(None), isScheduled=Const(False),
               taskInterval=OneOf(*INTERVAL_GRID), taskIntervalOffset=OneOf(None, *OFFSET_GRID))

@lemma("C14.recurring_successive_slots", params={"m": Manager(0), "r": RecurringObj(), "late": Real()})
def recurring(m, r, late):
    """a recurring task fires once at each successive multiple of its interval
    (plus offset), starting strictly after installation"""
    import bacpypes.task
    bacpypes.task._task_manager = m
    requires(wf(m))
    interval = r.taskInterval / 1000
    r.install_task()
    now0 = trace('clock')[0][0]
    t1 = r.taskTime
    check(t1 > now0, "first firing strictly after installation")
    check(t1 - interval <= now0 + 0.000001, "and it is the first slot after installation")
    # the manager hands it out at some moment `fire` >= t1 (here: up to just before the next slot) and re-installs it
    task, _ = m.get_next_task()
    fire = trace('clock')[1][0]
    if task is None:
        check(fire < t1, "not handed out before its time")
        return
    check(task is r and fire >= t1, "handed out at or after its time")
    requires(fire == late and late < t1 + interval - 0.000002)
    r.install_task()
    requires(trace('clock')[2][0] == fire)              # re-installed at the moment it fired
    check(r.taskTime == t1 + interval, "the next firing is exactly one interval later")
