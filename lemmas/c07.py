"""
C07 as lemmas over contracts: client programs of the public API that are
verified against the callees' contracts only (APDU.encode / APDU.decode and
the table functions are replaced by their contracts here).
"""
from pyvc.contracts import lemma, requires, check, Obj, Bytes, Int, Bool, Const, OneOf
from contracts.apdu import APCIObj, BlankAPCIObj
from contracts.comm import BPDUObj
from spec import apci as spec
from bacpypes.apdu import APDU, encode_max_segments_accepted, decode_max_segments_accepted, \
    encode_max_apdu_length_accepted, decode_max_apdu_length_accepted
from bacpypes.pdu import PDU

@lemma("C07.header_roundtrip",
       params={"h": APCIObj("bacpypes.apdu:APDU", pduData=Bytes(mutable=True)),
               "d": BlankAPCIObj("bacpypes.apdu:APDU", pduData=Bytes(mutable=True)),
               "pdu": BPDUObj(pduData=Const(None))})
def header_roundtrip(h, d, pdu):
    """every in-range field of every PDU type survives encode -> decode and
    the payload is untouched"""
    requires(0 <= h.apduType <= 7)
    requires(spec.fields_in_range(h))
    pdu.pduData = bytearray()
    payload = bytes(h.pduData)
    h.encode(pdu)
    # the layout is the standard's
    check(pdu.pduData == spec.header(h) + payload, "layout is clause 20.1")
    d.decode(pdu)
    check(len(pdu.pduData) == 0, "every octet consumed")
    check(d.pduData == payload, "payload untouched")
    check(d.apduType == h.apduType, "type")
    t = h.apduType
    if t == 0:
        check(d.apduSeg == h.apduSeg and d.apduMor == h.apduMor and d.apduSA == h.apduSA, "confirmed-request flags")
        check(d.apduMaxSegs == h.apduMaxSegs and d.apduMaxResp == h.apduMaxResp, "max-segments / max-response codes")
        check(d.apduInvokeID == h.apduInvokeID and d.apduService == h.apduService, "invoke id / service")
        if h.apduSeg:
            check(d.apduSeq == h.apduSeq and d.apduWin == h.apduWin, "sequence number / window")
    elif t == 1:
        check(d.apduService == h.apduService, "service")
    elif t == 2 or t == 5:
        check(d.apduInvokeID == h.apduInvokeID and d.apduService == h.apduService, "invoke id / service")
    elif t == 3:
        check(d.apduSeg == h.apduSeg and d.apduMor == h.apduMor, "complex-ack flags")
        check(d.apduInvokeID == h.apduInvokeID and d.apduService == h.apduService, "invoke id / service")
        if h.apduSeg:
            check(d.apduSeq == h.apduSeq and d.apduWin == h.apduWin, "sequence number / window")
    elif t == 4:
        check(d.apduNak == h.apduNak and d.apduSrv == h.apduSrv, "segment-ack flags")
        check(d.apduInvokeID == h.apduInvokeID and d.apduSeq == h.apduSeq and d.apduWin == h.apduWin, "invoke id / sequence / window")
    elif t == 6:
        check(d.apduInvokeID == h.apduInvokeID and d.apduAbortRejectReason == h.apduAbortRejectReason, "invoke id / reason")
    else:
        check(d.apduSrv == h.apduSrv, "abort server flag")
        check(d.apduInvokeID == h.apduInvokeID and d.apduAbortRejectReason == h.apduAbortRejectReason, "invoke id / reason")

@lemma("C07.decode_total",
       params={"d": BlankAPCIObj("bacpypes.apdu:APDU", pduData=Bytes(mutable=True)),
               "pdu": BPDUObj()})
def decode_total(d, pdu):
    """an arbitrary octet string yields a header or a decoding error; a decoded
    header re-encodes to the octets it came from"""
    octets = bytes(pdu.pduData)
    try:
        d.decode(pdu)
    except ValueError:          # DecodingError is a ValueError
        return
    check(spec.parses(octets), "returned only for a complete header")
    n = spec.header_length(octets)
    check(d.pduData == octets[n:], "payload is what follows the header")
    check(0 <= d.apduType <= 7, "a known type")
    check(spec.fields_in_range(d), "decoded fields are in range")

@lemma("C07.max_segments_table", params={"n": Int(), "code": Int(0, 7)})
def max_segments_table(n, code):
    """local capability is rounded down, never up; defined codes map back"""
    if n >= 2:
        c = encode_max_segments_accepted(n)
        check(0 <= c <= 7, "a code")
        v = decode_max_segments_accepted(c)
        if n <= 64:
            check(v is not None and v <= n, "decode(encode(n)) <= n")
            check(c == 6 or decode_max_segments_accepted(c + 1) > n, "largest code not above n")
        else:
            check(c == 7, "more than 64")
    v = decode_max_segments_accepted(code)
    if v is not None:
        check(encode_max_segments_accepted(v) == code, "encode(decode(code)) == code")

@lemma("C07.max_apdu_table", params={"n": Int(), "code": Int(0, 15)})
def max_apdu_table(n, code):
    if n >= 50:
        c = encode_max_apdu_length_accepted(n)
        check(0 <= c <= 5, "a defined code")
        check(decode_max_apdu_length_accepted(c) <= n, "decode(encode(n)) <= n")
        check(c == 5 or decode_max_apdu_length_accepted(c + 1) > n, "largest code not above n")
    if code <= 5:
        check(encode_max_apdu_length_accepted(decode_max_apdu_length_accepted(code)) == code, "encode(decode(code)) == code")
