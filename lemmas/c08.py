"""
C08 as lemmas over contracts: the network header and every network-layer
message round-trip through the public encode/decode pair; forbidden and
truncated headers are refused.
"""
from pyvc.contracts import lemma, requires, check, Obj, Bytes, Int, Bool, Const, OneOf, NoneOr, List
from spec import npci as sn
from bacpypes.errors import DecodingError
from bacpypes.pdu import PDU
from bacpypes.npdu import NPDU
from contracts.comm import BPDUObj
from contracts.npdu import NPCIObj, BlankNPCIObj, MsgObj, NPDUBuf, NetLists, RTables, OpaqueNPCIObj, encodable, header_of

def same_addr(a, b):
    if a is None or b is None:
        return a is None and b is None
    return a.addrType == b.addrType and a.addrNet == b.addrNet and a.addrAddr == b.addrAddr and a.addrLen == b.addrLen

@lemma("C08.header_roundtrip",
       params={"h": NPCIObj("bacpypes.npdu:NPDU", pduData=Bytes(mutable=True), npduVersion=Const(1)),
               "d": BlankNPCIObj("bacpypes.npdu:NPDU", pduData=Bytes(mutable=True)),
               "pdu": BPDUObj(pduData=Const(None))})
def header_roundtrip(h, d, pdu):
    """every combination of control flags, priority, destination kind, source,
    hop count, message type and vendor ID survives encode -> decode"""
    requires(encodable(h))
    pdu.pduData = bytearray()
    payload = bytes(h.pduData)
    h.encode(pdu)
    check(bytes(pdu.pduData) == header_of(h) + payload, "layout is clause 6.2")
    d.decode(pdu)
    check(len(pdu.pduData) == 0 and d.pduData == payload, "payload untouched, every octet consumed")
    check(d.npduVersion == 1, "version")
    check(d.pduExpectingReply == h.pduExpectingReply and d.pduNetworkPriority == h.pduNetworkPriority, "expecting-reply and priority")
    check(same_addr(d.npduDADR, h.npduDADR), "destination")
    check(same_addr(d.npduSADR, h.npduSADR), "source")
    if h.npduDADR is not None:
        check(d.npduHopCount == h.npduHopCount, "hop count")
    check(d.npduNetMessage == h.npduNetMessage, "message type")
    if h.npduNetMessage is not None and h.npduNetMessage >= 128:
        check(d.npduVendorID == h.npduVendorID, "vendor id")

@lemma("C08.forbidden_refused", params={"d": BlankNPCIObj("bacpypes.npdu:NPDU", pduData=Bytes(mutable=True)), "pdu": BPDUObj()})
def forbidden_refused(d, pdu):
    """arbitrary octets: a header is returned only when the standard allows it;
    everything else is a DecodingError (never another exception, never a misreading)"""
    octets = bytes(pdu.pduData)
    try:
        d.decode(pdu)
    except DecodingError:
        return
    check(len(octets) >= 2 and octets[0] == 1, "version 1 only")
    p = sn.parse(octets)
    check(p is not None, "accepted only what the standard's layout accepts")
    if d.npduSADR is not None and (octets[1] // 8) % 2 == 1:
        check(d.npduSADR.addrType == 4 and d.npduSADR.addrNet != 65535 and d.npduSADR.addrLen >= 1, "source is a station, never a broadcast")
    check(d.pduData == octets[p[8]:], "payload is what follows the header")

@lemma("C08.truncated_refused",
       params={"h": NPCIObj("bacpypes.npdu:NPDU", pduData=Const(b''), npduVersion=Const(1)),
               "d": BlankNPCIObj("bacpypes.npdu:NPDU", pduData=Bytes(mutable=True)),
               "pdu": BPDUObj(pduData=Const(None)), "k": Int(0)})
def truncated_refused(h, d, pdu, k):
    """every strict prefix of a header is refused"""
    requires(encodable(h))
    pdu.pduData = bytearray()
    h.encode(pdu)
    full = bytes(pdu.pduData)
    requires(k < len(full))
    pdu.pduData = bytearray(full[:k])
    try:
        d.decode(pdu)
    except DecodingError:
        return
    check(False, "a truncated header was accepted")

# -- messages -------------------------------------------------------------------

def _msg_roundtrip(m, d, npdu):
    m.encode(npdu)
    d.decode(npdu)
    check(len(npdu.pduData) == 0, "every octet consumed")

def _mlemma(name, cls, fields, shapes):
    blank = dict((f, Const(None)) for f in fields)
    @lemma("C08.msg." + name, params={"m": MsgObj(cls, **shapes), "d": MsgObj(cls, **blank),
                                      "npdu": OpaqueNPCIObj("bacpypes.npdu:NPDU", pduData=Const(None))})
    def _l(m, d, npdu):
        npdu.pduData = bytearray()
        _msg_roundtrip(m, d, npdu)
        for f in fields:
            check(getattr(d, f) == getattr(m, f), "parameter " + f)
    return _l

_mlemma("who_is_router", "WhoIsRouterToNetwork", ["wirtnNetwork"], {"wirtnNetwork": NoneOr(Int(0, 65535))})
_mlemma("i_am_router", "IAmRouterToNetwork", ["iartnNetworkList"], {"iartnNetworkList": NetLists()})
_mlemma("i_could_be_router", "ICouldBeRouterToNetwork", ["icbrtnNetwork", "icbrtnPerformanceIndex"],
        {"icbrtnNetwork": Int(0, 65535), "icbrtnPerformanceIndex": Int(0, 255)})
_mlemma("reject_message", "RejectMessageToNetwork", ["rmtnRejectionReason", "rmtnDNET"],
        {"rmtnRejectionReason": Int(0, 255), "rmtnDNET": Int(0, 65535)})
_mlemma("router_busy", "RouterBusyToNetwork", ["rbtnNetworkList"], {"rbtnNetworkList": NetLists()})
_mlemma("router_available", "RouterAvailableToNetwork", ["ratnNetworkList"], {"ratnNetworkList": NetLists()})
_mlemma("establish_connection", "EstablishConnectionToNetwork", ["ectnDNET", "ectnTerminationTime"],
        {"ectnDNET": Int(0, 65535), "ectnTerminationTime": Int(0, 255)})
_mlemma("disconnect_connection", "DisconnectConnectionToNetwork", ["dctnDNET"], {"dctnDNET": Int(0, 65535)})
_mlemma("what_is_network_number", "WhatIsNetworkNumber", [], {})
_mlemma("network_number_is", "NetworkNumberIs", ["nniNet", "nniFlag"], {"nniNet": Int(0, 65535), "nniFlag": Int(0, 255)})

def _rtlemma(name, cls, attr):
    @lemma("C08.msg." + name, params={"m": MsgObj(cls, **{attr: RTables()}), "d": MsgObj(cls, **{attr: Const(None)}),
                                      "npdu": OpaqueNPCIObj("bacpypes.npdu:NPDU", pduData=Const(None))})
    def _l(m, d, npdu):
        npdu.pduData = bytearray()
        _msg_roundtrip(m, d, npdu)
        a, b = getattr(d, attr), getattr(m, attr)
        check(len(a) == len(b), "same number of entries")
        for x, y in zip(a, b):
            check(x.rtDNET == y.rtDNET and x.rtPortID == y.rtPortID and x.rtPortInfo == y.rtPortInfo, "entry")
    return _l

_rtlemma("initialize_routing_table", "InitializeRoutingTable", "irtTable")
_rtlemma("initialize_routing_table_ack", "InitializeRoutingTableAck", "irtaTable")
