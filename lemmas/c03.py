"""
C03 as lemmas over the library's generic constructed-data code.

C03.any_decode     Any.decode takes exactly the maximal prefix of the tag list in which every closing tag closes an earlier opening tag
                   (whatever the tag numbers and however deep the nesting), leaves the rest, and refuses only an unclosed opening tag;
                   Any.encode gives the same tags back.
C03.rep_roundtrip  for the representative type spec.rep_types.Rep (every element kind of Sequence / Choice / SequenceOf / Any), every
                   presence pattern of the optional elements, every choice alternative, lists of 0..2 items and symbolic leaf values:
                   decode(encode(v)) has the same fields as v and re-encodes to the same tags (tag octets are C02's business).
"""
from pyvc.contracts import lemma, requires, check, Obj, Bytes, Int, Bool, Const, OneOf, List, Maybe, Fn
from bacpypes.primitivedata import Tag, TagList, Unsigned
from bacpypes.constructeddata import Any
from bacpypes.errors import DecodingError
from spec.rep_types import Rep, Inner, Alt

APP, CTX, OPEN, CLOSE = 0, 1, 2, 3

def TagsShape(n):
    def build(b, name):
        out = []
        for i in range(n):
            cls = OneOf(APP, CTX, OPEN, CLOSE).build(b, '%s.%d.class' % (name, i))
            num = Int(0, 14).build(b, '%s.%d.number' % (name, i))
            t = Tag()
            if cls in (OPEN, CLOSE):
                t.set(cls, num)
            else:
                t.set(cls, num, 1, bytes([7]))
            out.append(t)
        return out
    return Fn(build)

def span(classes):
    """number of leading tags that belong to the value, and whether an opening tag is left unclosed"""
    lvl = 0
    n = 0
    for c in classes:
        if c == OPEN:
            lvl += 1
        elif c == CLOSE:
            if lvl == 0:
                return n, False
            lvl -= 1
        n += 1
    return n, lvl > 0

for _n in range(6):
    @lemma("C03.any_decode[%d tags]" % _n, params={"tags": TagsShape(_n)})
    def any_decode(tags):
        classes = [t.tagClass for t in tags]
        n, unclosed = span(classes)
        tl = TagList(list(tags))
        a = Any()
        try:
            a.decode(tl)
        except DecodingError:
            check(unclosed, "refused only when an opening tag is never closed")
            return
        check(not unclosed, "an unclosed opening tag is refused")
        check(len(a.tagList.tagList) == n and all(a.tagList.tagList[i] is tags[i] for i in range(n)), "exactly the value's tags, in order")
        check(len(tl.tagList) == len(tags) - n and all(tl.tagList[i] is tags[n + i] for i in range(len(tags) - n)), "the rest is left for the enclosing decoder")
        out = TagList()
        a.encode(out)
        check(len(out.tagList) == n and all(out.tagList[i] is tags[i] for i in range(n)), "encode gives the same tags back")

def same_tags(x, y):
    return len(x) == len(y) and all(x[i].tagClass == y[i].tagClass and x[i].tagNumber == y[i].tagNumber and x[i].tagLVT == y[i].tagLVT
                                    and x[i].tagData == y[i].tagData for i in range(len(x)))

def same_inner(x, y):
    if x is None or y is None:
        return x is None and y is None
    return x.a == y.a and x.b == y.b

def _make_roundtrip(_alt, _extra):
    @lemma("C03.rep_roundtrip[choice %s, any %s]" % (_alt, _extra),
           params={"ident": Int(0, 2 ** 32 - 1), "opt": Maybe(Int(-128, 127)), "app": Int(0, 255),
                   "inner_a": Int(0, 255), "inner_b": Maybe(Bool()), "has_inner": Bool(),
                   "nitems": OneOf(0, 1, 2), "item0": Int(0, 255), "item1": Int(0, 255), "ntail": OneOf(None, 0, 1),
                   "alt": Const(_alt), "alt_num": Int(0, 255), "alt_flag": Bool(), "extra": Const(_extra)}, max_paths=40000)
    def rep_roundtrip(ident, opt, app, inner_a, inner_b, has_inner, nitems, item0, item1, ntail, alt, alt_num, alt_flag, extra):
        kw = dict(ident=ident, app=app)
        if opt is not None:
            kw['opt'] = opt
        if has_inner:
            kw['inner'] = Inner(a=inner_a, b=inner_b) if inner_b is not None else Inner(a=inner_a)
        kw['items'] = [item0, item1][:nitems]
        if ntail is not None:
            kw['tail'] = [item1][:ntail]
        if alt == 'num':
            kw['alt'] = Alt(num=alt_num)
        elif alt == 'flag':
            kw['alt'] = Alt(flag=alt_flag)
        elif alt == 'inner':
            kw['alt'] = Alt(inner=Inner(a=inner_a))
        if extra == 'atomic':
            kw['extra'] = Any(Unsigned(app))
        elif extra == 'constructed':
            kw['extra'] = Any(Inner(a=inner_a))
        v = Rep(**kw)
        tl = TagList()
        v.encode(tl)
        first = list(tl.tagList)
        w = Rep()
        w.decode(tl)
        check(len(tl.tagList) == 0, "everything consumed")
        check(w.ident == ident and w.app == app and w.opt == opt, "atomic elements")
        check(same_inner(w.inner, kw.get('inner')), "nested sequence")
        check(list(w.items) == kw['items'], "list")
        check((w.tail is None) == (ntail is None) and (ntail is None or list(w.tail) == kw['tail']), "optional list at the end")
        if alt is None:
            check(w.alt is None, "absent choice stays absent")
        else:
            check(w.alt is not None and (w.alt.num == alt_num if alt == 'num' else w.alt.num is None)
                  and (w.alt.flag == alt_flag if alt == 'flag' else w.alt.flag is None)
                  and (same_inner(w.alt.inner, kw['alt'].inner)), "choice alternative")
        check((w.extra is None) == (extra is None), "Any presence")
        if extra is not None:
            check(same_tags(w.extra.tagList.tagList, kw['extra'].tagList.tagList), "Any content")
        again = TagList()
        w.encode(again)
        check(same_tags(again.tagList, first), "re-encodes to the same tags")

    return rep_roundtrip

for _alt in (None, 'num', 'flag', 'inner'):
    for _extra in (None, 'atomic', 'constructed'):
        _make_roundtrip(_alt, _extra)

# -- a hand-written decoder among the base types: NameValue (optional any-atomic value that may be a date, a date-time or another primitive) ----

from bacpypes.basetypes import NameValue, NameValueCollection, DateTime
from bacpypes.primitivedata import Date, Time, CharacterString

def _nv(kind, n):
    if kind == 'absent':
        return NameValue(name='a')
    if kind == 'unsigned':
        return NameValue(name='a', value=Unsigned(n))
    if kind == 'date':
        return NameValue(name='a', value=Date((100, 1, 2, 3)))
    return NameValue(name='a', value=DateTime(date=(100, 1, 2, 3), time=(4, 5, 6, 7)))

def _same_value(x, y):
    if x is None or y is None:
        return x is None and y is None
    if type(x) is not type(y):
        return False
    if isinstance(x, DateTime):
        return x.date == y.date and x.time == y.time
    return x.value == y.value

@lemma("C03.namevalue_roundtrip", params={"k0": OneOf('absent', 'unsigned', 'date', 'datetime'), "k1": OneOf(None, 'absent', 'unsigned', 'date'), "n": Int(0, 255)})
def namevalue_roundtrip(k0, k1, n):
    members = [_nv(k0, n)] + ([_nv(k1, n)] if k1 is not None else [])
    v = NameValueCollection(members=members)
    tl = TagList()
    v.encode(tl)
    first = list(tl.tagList)
    w = NameValueCollection()
    w.decode(tl)
    check(len(tl.tagList) == 0, "everything consumed")
    check(len(w.members) == len(members), "same number of members")
    check(all(w.members[i].name == 'a' and _same_value(w.members[i].value, members[i].value) for i in range(len(members))), "same names and values")
    again = TagList()
    w.encode(again)
    check(same_tags(again.tagList, first), "re-encodes to the same tags")

# -- the array and list containers: ArrayOf / ListOf of an atomic and of a constructed element type, 0..3 elements --------------------------------

from bacpypes.constructeddata import ArrayOf, ListOf

ArrU, LstU, ArrInner, LstInner = ArrayOf(Unsigned), ListOf(Unsigned), ArrayOf(Inner), ListOf(Inner)

def _container_lemma(kind, klass, constructed):
    @lemma("C03.%s_roundtrip[%s elements]" % (kind, "constructed" if constructed else "atomic"),
           params={"n": OneOf(0, 1, 2, 3), "e0": Int(0, 2 ** 32 - 1), "e1": Int(0, 255), "e2": Int(0, 70000), "b1": Maybe(Bool())}, max_paths=20000)
    def container_roundtrip(n, e0, e1, e2, b1):
        if constructed:
            items = [Inner(a=e0), Inner(a=e1, b=b1) if b1 is not None else Inner(a=e1), Inner(a=e2)][:n]
        else:
            items = [e0, e1, e2][:n]
        v = klass(list(items))
        tl = TagList()
        v.encode(tl)
        first = list(tl.tagList)
        w = klass()
        w.decode(tl)
        check(len(tl.tagList) == 0, "everything consumed")
        got = list(w.value[1:]) if kind == 'arrayof' else list(w.value)
        if kind == 'arrayof':
            check(w.value[0] == n, "the array knows its length")
        check(len(got) == n, "same number of elements")
        if constructed:
            check(all(same_inner(got[i], items[i]) for i in range(n)), "same elements, in order")
        else:
            check(got == items, "same elements, in order")
        again = TagList()
        w.encode(again)
        check(same_tags(again.tagList, first), "re-encodes to the same tags")
    return container_roundtrip

for _kind, _klass, _c in (('arrayof', ArrU, False), ('arrayof', ArrInner, True), ('listof', LstU, False), ('listof', LstInner, True)):
    _container_lemma(_kind, _klass, _c)

@lemma("C03.arrayof_item_roundtrip", params={"n": OneOf(0, 1, 2, 3), "e0": Int(0, 2 ** 32 - 1), "e1": Int(0, 255), "e2": Int(0, 70000), "item": OneOf(0, 1, 2, 3)})
def arrayof_item_roundtrip(n, e0, e1, e2, item):
    requires(item <= n)
    items = [e0, e1, e2][:n]
    v = ArrU(list(items))
    tl = TagList()
    v.encode_item(item, tl)
    w = ArrU(list(items))
    w.decode_item(item, tl)
    back = w.value          # decode_item leaves the decoded item in .value
    check(len(tl.tagList) == 0, "everything consumed")
    check(back == (n if item == 0 else items[item - 1]), "index 0 carries the length, index i the element")
