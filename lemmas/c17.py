"""
C17 lemmas: the representation invariant (present value == value of the
lowest-numbered non-null slot, else the relinquish default) holds for freshly
constructed objects; together with the contracts of contracts.commandable
(every command, for every state satisfying the invariant, sets exactly its
slot and re-establishes the invariant; refused commands change nothing) it
holds after every sequence of commands -- an induction over the contracts.
"""
from pyvc.contracts import lemma, requires, check, Const, OneOf
from contracts.commandable import KINDS, consistent, slot_is_null, winner

@lemma("C17.constructed_consistent", params={"kind": OneOf(*sorted(KINDS))})
def constructed(kind):
    spec = KINDS[kind]
    kw = dict(objectIdentifier=(spec['cls'].objectType, 1), objectName='obj')
    if kind == 'binary':
        kw['presentValue'] = 'inactive'
    obj = spec['cls'](**kw)
    check(all(slot_is_null(obj, i) for i in range(1, 17)), "all sixteen slots start null")
    check(consistent(obj, kind), "the present value starts as the relinquish default")
