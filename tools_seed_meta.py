#!/usr/bin/env python3
"""usage: tools_seed_meta.py <seed id>...   -- (re)writes seeded/<id>/meta.json from notes.txt and detected.txt"""
import json, os, re, sys
here = os.path.dirname(os.path.abspath(__file__))
titles = {}
for l in open(os.path.join(here, 'properties.jsonl')):
    p = json.loads(l); titles[p['id']] = p['title']
for sid in sys.argv[1:]:
    d = os.path.join(here, 'seeded', sid)
    prop = sid.split('_')[0]
    notes = open(os.path.join(d, 'notes.txt')).read() if os.path.exists(os.path.join(d, 'notes.txt')) else ''
    det = open(os.path.join(d, 'detected.txt')).read().splitlines() if os.path.exists(os.path.join(d, 'detected.txt')) else []
    obl = []
    for l in det:
        m = re.search(r'obligation=(\S+)', l)
        if l.startswith('VIOLATION') and m:
            obl.append(m.group(1)[:160])
    ex = [l for l in det if l.startswith('exit=')]
    old = {}
    if os.path.exists(os.path.join(d, 'meta.json')):
        old = json.load(open(os.path.join(d, 'meta.json')))
    meta = {
        "seed_id": sid, "property": prop, "property_title": titles[prop],
        "origin": "fresh sub-agent given only the property text and a scratch worktree (nothing from /verif)",
        "needs_to_manifest": notes[:3000],
        "confirmed_by": "tools_confirm_seed.sh in a fresh scratch worktree of /repo HEAD: demo.py exits 0 on the clean tree; with patch.diff applied the pinned suite gives 405 passed and demo.py exits non-zero; worktree removed afterwards",
        "detected_by": {"check": "./check %s --tier quick" % prop, "exit": int(ex[0].split('=')[1]) if ex else None, "obligations": obl, "violation_lines": len([l for l in det if l.startswith('VIOLATION')])},
    }
    if old.get('strengthened'):
        meta['strengthened'] = old['strengthened']
    json.dump(meta, open(os.path.join(d, 'meta.json'), 'w'), indent=1)
    print(sid, meta['detected_by']['exit'], len(obl))
