"""
Contracts for bacpypes.task (TaskManager, _Task, RecurringTask) and the
deferred-call drain loops of bacpypes.core.

The heap `TaskManager.tasks` is a Python list of (time, sequence, task)
entries.  Contracts are stated over its *abstract view* -- the set of entries
-- plus the representation invariant heap_ok (the list is a binary min-heap on
(time, sequence)), for heaps of 0..HEAP_BOUND entries with symbolic times and
sequence numbers (bounded in structure: the property's own scope is 4 tasks).
Wall-clock time (`time.time`) is a ghost-traced external returning an
arbitrary real on every call.
"""
import ast
from pyvc.contracts import (contract, external, exactly, Obj, Bytes, Int, Bool, Real, Const, OneOf, NoneOr, List, Tuple, Same, Count,
                            count_value, trace, Fn)
from contracts.comm import Token

HEAP_BOUND = 3
SUSPEND_BOUND = 6        # suspend_task re-heapifies: verified on heaps large enough for an entry to land under a foreign parent

external("bacpypes.task:_time", "clock", returns_shape=Real(), method=False)

def TaskObj(scheduled=None, time=None):
    return Obj("bacpypes.task:OneShotTask", taskTime=Real() if time is None else time,
               isScheduled=Bool() if scheduled is None else Const(scheduled))

def Entry():
    return Tuple(Real(), Int(0), TaskObj(True))

def Manager(k):
    return Obj("bacpypes.task:TaskManager", tasks=List(*[Entry() for _ in range(k)]), trigger=Const(None), counter=Count())

# -- specification helpers (interpreted symbolically, executed natively in replays) -----------

def key_le(a, b):
    """(time, sequence) lexicographic <="""
    return a[0] < b[0] or (a[0] == b[0] and a[1] <= b[1])

def heap_ok(h):
    return all(key_le(h[(i - 1) // 2], h[i]) for i in range(1, len(h)))

def wf(m):
    """representation invariant of the manager"""
    h = m.tasks
    return (heap_ok(h)
            and all(h[i][1] != h[j][1] for i in range(len(h)) for j in range(i + 1, len(h)))      # sequence numbers distinct
            and all(e[1] < count_value(m.counter) for e in h)                                          # and below the counter
            and all(e[2].isScheduled == True for e in h))                                              # a queued task is marked scheduled

def has_entry(h, e):
    return any(x[0] == e[0] and x[1] == e[1] and x[2] is e[2] for x in h)

def same_entries(h1, h2):
    """equal as sets of entries (sequence numbers are distinct, so sets suffice)"""
    return len(h1) == len(h2) and all(has_entry(h2, e) for e in h1)

def without(h, task):
    return [e for e in h if e[2] is not task]

def is_min(h, e):
    return all(key_le(e, x) for x in h)

# -- TaskManager.install_task ------------------------------------------------------------------

for _k in range(HEAP_BOUND + 1):
    # a task that is not in the heap
    contract("bacpypes.task:TaskManager.install_task", name="bacpypes.task:TaskManager.install_task[heap of %d, new task]" % _k,
        params={"self": Manager(_k), "task": TaskObj(False, NoneOr(Real()))},
        requires=["wf(self)"],
        raises=[(RuntimeError, "task.taskTime is None")],
        ensures=["wf(self)",
                 "same_entries(self.tasks, old(self.tasks) + [(task.taskTime, old(count_value(self.counter)), task)])",   # one new entry, fresh sequence number
                 "count_value(self.counter) == old(count_value(self.counter)) + 1",
                 "task.isScheduled == True"],
        modifies=["self.tasks", "self.counter.value", "task.isScheduled"],
        applies_when="len(self.tasks) == %d and not any(e[2] is task for e in self.tasks)" % _k,
        note="bounded in structure: heap of %d entries" % _k)
    for _j in range(_k):
        # re-installing a pending task moves it, never duplicates it
        contract("bacpypes.task:TaskManager.install_task", name="bacpypes.task:TaskManager.install_task[heap of %d, re-install entry %d]" % (_k, _j),
            params={"self": Manager(_k), "task": Same("self.tasks[%d][2]" % _j)},
            requires=["wf(self)"],
            ensures=["wf(self)",
                     "same_entries(self.tasks, without(old(self.tasks), task) + [(task.taskTime, old(count_value(self.counter)), task)])",
                     "len(self.tasks) == %d" % _k,
                     "task.isScheduled == True"],
            modifies=["self.tasks", "self.counter.value", "task.isScheduled"],
            applies_when="len(self.tasks) == %d and self.tasks[%d][2] is task" % (_k, _j),
            note="bounded in structure: heap of %d entries" % _k)

# -- TaskManager.suspend_task ------------------------------------------------------------------

for _k in range(SUSPEND_BOUND + 1):
    contract("bacpypes.task:TaskManager.suspend_task", name="bacpypes.task:TaskManager.suspend_task[heap of %d, absent task]" % _k,
        params={"self": Manager(_k), "task": TaskObj()},
        requires=["wf(self)"],
        ensures=["wf(self)", "same_entries(self.tasks, old(self.tasks))", "task.isScheduled == old(task.isScheduled)"],
        modifies=["self.tasks"], max_paths=100000,
        applies_when="len(self.tasks) == %d and not any(e[2] is task for e in self.tasks)" % _k)
    for _j in range(_k):
        contract("bacpypes.task:TaskManager.suspend_task", name="bacpypes.task:TaskManager.suspend_task[heap of %d, entry %d]" % (_k, _j),
            params={"self": Manager(_k), "task": Same("self.tasks[%d][2]" % _j)},
            requires=["wf(self)"],
            ensures=["wf(self)", "same_entries(self.tasks, without(old(self.tasks), task))", "len(self.tasks) == %d" % (_k - 1),
                     "task.isScheduled == False"],
            modifies=["self.tasks", "task.isScheduled"], max_paths=100000,
            applies_when="len(self.tasks) == %d and self.tasks[%d][2] is task" % (_k, _j))

# -- TaskManager.get_next_task -------------------------------------------------------------------

def next_ok(result, old_tasks, new_tasks, now):
    """the scheduling decision, in terms of the abstract view"""
    task, delta = result
    if len(old_tasks) == 0:
        return task is None and delta is None and len(new_tasks) == 0
    first = [e for e in old_tasks if is_min(old_tasks, e)][0]
    if first[0] <= now:
        # due: the minimum (time, sequence) entry is returned and removed -- never early, in order, once
        ok = (task is first[2] and task.isScheduled == False and same_entries(new_tasks, [e for e in old_tasks if e is not first])
              and heap_ok(new_tasks))
        if len(new_tasks) == 0:
            return ok and delta is None
        nxt = [e for e in new_tasks if is_min(new_tasks, e)][0]
        return ok and delta >= 0 and (delta == nxt[0] - now or (nxt[0] <= now and delta == 0))
    # nothing due: nothing is returned, nothing changes
    return task is None and delta == first[0] - now and same_entries(new_tasks, old_tasks)

for _k in range(HEAP_BOUND + 2):
    contract("bacpypes.task:TaskManager.get_next_task", name="bacpypes.task:TaskManager.get_next_task[heap of %d]" % _k,
        params={"self": Manager(_k)},
        requires=["wf(self)"],
        ensures=["next_ok(result, old(self.tasks), self.tasks, trace('clock')[0][0])", "wf(self)"],
        modifies=["self.tasks"] + ["self.tasks[%d][2].isScheduled" % j for j in range(_k)],
        note="bounded in structure: heap of %d entries; `now` is an arbitrary real returned by the clock" % _k)

# -- _Task.install_task / suspend_task (delegation to the manager) ---------------------------------

def _mgr_global(k):
    return {"_task_manager": ("bacpypes.task", Manager(k))}

contract("bacpypes.task:_Task.install_task",
    params={"self": TaskObj(False, NoneOr(Real())), "when": NoneOr(Real()), "delta": NoneOr(Real())},
    globals_=_mgr_global(1),
    requires=["wf(_task_manager)"],
    raises=[(RuntimeError, "when is None and delta is None and self.taskTime is None")],
    ensures=["self.taskTime == (when if when is not None else (trace('clock')[0][0] + delta if delta is not None else old(self.taskTime)))",
             "self.isScheduled == True", "has_entry(_task_manager.tasks, (self.taskTime, old(count_value(_task_manager.counter)), self))"],
    modifies=["self.taskTime", "self.isScheduled", "_task_manager.tasks", "_task_manager.counter.value"],
    note="with a task manager present (heap of one other entry)")

import os
if os.environ.get('VERIF_TIER', 'quick') == 'thorough':
    INTERVAL_GRID = (1000, 1500, 100, 250, 333, 60000, 1)        # milliseconds
    OFFSET_GRID = (100, 250, 999, 1500)
else:
    INTERVAL_GRID = (1000, 100, 333)
    OFFSET_GRID = (100,)

# -- RecurringTask.install_task: the next multiple of the interval, strictly after now ------------------

contract("bacpypes.task:RecurringTask.install_task",
    params={"self": Obj("bacpypes.task:RecurringTask", taskTime=NoneOr(Real()), isScheduled=Const(False),
                        taskInterval=OneOf(*INTERVAL_GRID), taskIntervalOffset=OneOf(None, *OFFSET_GRID))},
    globals_=_mgr_global(0),
    requires=["wf(_task_manager)", "self.taskInterval > 0",
              "self.taskIntervalOffset is None or self.taskIntervalOffset != 0"],
    ensures=["slot_ok(self.taskTime, trace('clock')[0][0], self.taskInterval / 1000, (self.taskIntervalOffset or 0) / 1000)",
             "self.isScheduled == True", "len(_task_manager.tasks) == 1 and _task_manager.tasks[0][0] == self.taskTime and _task_manager.tasks[0][2] is self"],
    modifies=["self.taskTime", "self.isScheduled", "_task_manager.tasks", "_task_manager.counter.value"],
    note="float arithmetic treated as exact real arithmetic (the 1e-6 jitter included); intervals and offsets from a grid (the quotient by a symbolic "
         "interval is non-linear), the clock reading is an arbitrary real")

def slot_ok(t, now, interval, offset):
    """t is offset + a whole multiple of interval, strictly after now, and the first such after now + 1e-6"""
    k = (t - offset) / interval
    return k == int_part(k) and t > now and t - interval <= now + 0.000001

def int_part(x):
    import math
    return float(math.floor(x))

# -- the deferred-call drain loops of core.run and core.run_once ----------------------------------------

external("contracts.task:ghost_called", "called", method=False)

def ghost_called(ident):
    """marker: the deferred function `ident` was invoked (ghost-traced)"""
    return None

class GhostFn(object):
    """an arbitrary deferred function: records its call, may defer another
    function, may raise"""
    def __init__(self, ident, raises, defers):
        self.ident = ident
        self.raises = raises
        self.defers = defers
    def __call__(self, *args, **kwargs):
        ghost_called(self.ident)
        if self.defers is not None:
            import bacpypes.core
            bacpypes.core.deferred(self.defers)
        if self.raises:
            raise RuntimeError("deferred function %r failed" % (self.ident,))

def GhostFnShape(ident, defers=None):
    return Obj("contracts.task:GhostFn", ident=Const(ident), raises=Bool(), defers=Const(None) if defers is None else defers)

def Batch(k, nested):
    """k queued functions; when nested, the first one defers one more (ident 100)"""
    items = []
    for i in range(k):
        d = GhostFnShape(100) if (nested and i == 0) else None
        items.append(Tuple(GhostFnShape(i, d), Const(()), Const({})))
    return List(*items)

def _drain_block(fn):
    """the `while deferredFns:` statement"""
    for node in ast.walk(fn):
        if isinstance(node, ast.While) and isinstance(node.test, ast.Name) and node.test.id == 'deferredFns':
            return [node]
    return None

DRAIN_BOUND = 4

def called_ids():
    return [c[0] for c in trace('called')]

for _fname in ("run", "run_once"):
    for _k in range(DRAIN_BOUND + 1):
        for _nested in ((False, True) if _k > 0 else (False,)):
            contract("bacpypes.core:" + _fname,
                name="bacpypes.core:%s[block: drain of %d deferred functions%s]" % (_fname, _k, ", first defers another" if _nested else ""),
                region=_drain_block,
                params={},
                globals_={"deferredFns": ("bacpypes.core", Batch(_k, _nested)), "taskManager": ("bacpypes.core", Const(None))},
                ensures=["called_ids() == list(range(%d)) + %r" % (_k, [100] if _nested else []),     # each exactly once, in submission order, whichever raise
                         "len(deferredFns) == 0"],
                modifies=["deferredFns"],
                note="bounded in structure: batches of 0..%d functions, every subset of raising members (symbolic), optionally one nested deferral" % DRAIN_BOUND)

contract("bacpypes.core:deferred",
    params={"fn": Token(), "args": Const(()), "kwargs": Const({})},
    globals_={"deferredFns": ("bacpypes.core", OneOf(List(), List(Token()), List(Token(), Token()))), "taskManager": ("bacpypes.core", Const(None))},
    ensures=["len(deferredFns) == len(old(deferredFns)) + 1", "deferredFns[-1][0] is fn",
             "all(deferredFns[i] is old(deferredFns)[i] for i in range(len(old(deferredFns))))"],      # appended at the end, order kept
    modifies=["deferredFns"])

# -- TaskManager.process_task: firing a task whose callback may re-arm it ------------------------------------------------------------------
# The flag isScheduled is what install_task / suspend_task consult to decide whether an old heap entry has to be pulled first, so after
# a task has fired the flag must say exactly whether the task is queued (again) -- otherwise a later re-install duplicates it and a
# suspend leaves a copy behind.

from bacpypes.task import OneShotTask, OneShotDeleteTask, RecurringTask

class _Rearming(object):
    """the callback of an arbitrary task: records the firing and, when `rearm`, installs the task again at `next_time`"""
    def process_task(self):
        ghost_called('fired')
        if self.rearm:
            self.taskTime = self.next_time
            self.mgr.install_task(self)

class GhostOneShot(_Rearming, OneShotTask):
    pass

class GhostOneShotDelete(_Rearming, OneShotDeleteTask):
    pass

class GhostRecurring(RecurringTask):
    def process_task(self):
        ghost_called('fired')
    def install_task(self, *args, **kwargs):
        ghost_called('installed again')

def FiredTask(cls):
    def build(b, name):
        t = object.__new__(cls)
        t.__dict__.update(taskTime=Real().build(b, name + '.taskTime'), isScheduled=False, rearm=Bool().build(b, name + '.rearm'),
                          next_time=Real().build(b, name + '.next_time'), mgr=b.built['self'])
        b.built[name] = t
        return t
    return Fn(build)

def queued(h, task):
    return any(e[2] is task for e in h)

def fired_ok(m, task, old_tasks, old_counter):
    """the others stay queued as they were; the fired task is queued again exactly when its callback re-armed it, once, at the time it asked for"""
    mine = [e for e in m.tasks if e[2] is task]
    if not same_entries(without(m.tasks, task), old_tasks):
        return False
    if task.rearm:
        return len(mine) == 1 and mine[0][0] == task.next_time and mine[0][1] == old_counter and task.isScheduled == True
    return len(mine) == 0 and task.isScheduled == False

for _cls in (GhostOneShot, GhostOneShotDelete):
    for _k in range(3):
        contract("bacpypes.task:TaskManager.process_task", name="bacpypes.task:TaskManager.process_task[%s, heap of %d]" % (_cls.__bases__[1].__name__, _k),
            params={"self": Manager(_k), "task": FiredTask(_cls)},
            requires=["wf(self)"],
            ensures=["wf(self)", "called_ids() == ['fired']", "fired_ok(self, task, old(list(self.tasks)), old(count_value(self.counter)))",
                     "task.isScheduled == queued(self.tasks, task)"],
            modifies=["self.tasks", "self.counter.value", "task.isScheduled", "task.taskTime"],
            note="the task has just been taken off the heap (get_next_task); its callback fires once and may install the task again")

contract("bacpypes.task:TaskManager.process_task", name="bacpypes.task:TaskManager.process_task[RecurringTask]",
    params={"self": Manager(1), "task": Obj("contracts.task:GhostRecurring", taskTime=Real(), isScheduled=Const(False), taskInterval=Const(1000), taskIntervalOffset=Const(None))},
    requires=["wf(self)"],
    ensures=["wf(self)", "called_ids() == ['fired', 'installed again']", "same_entries(self.tasks, old(list(self.tasks)))"],
    modifies=[], note="a recurring task is installed again exactly once after each firing (its next slot is RecurringTask.install_task's contract)")
