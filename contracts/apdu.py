"""
Contracts for bacpypes.apdu: the fixed APDU header codec (APCI.encode/decode,
APDU.encode/decode) and the two capability tables.  Postconditions are stated
against spec.apci, which is written from clause 20.1 of the standard.
"""
from pyvc.contracts import contract, Obj, Bytes, Int, Bool, Const, OneOf, NoneOr
from bacpypes.errors import DecodingError
from contracts.comm import Token, BPDUObj as PDUObj, BPCIFields
from spec import apci as spec

FIELDS = ('apduType', 'apduSeg', 'apduMor', 'apduSA', 'apduSrv', 'apduNak', 'apduSeq', 'apduWin',
          'apduMaxSegs', 'apduMaxResp', 'apduService', 'apduInvokeID', 'apduAbortRejectReason')

def APCIObj(cls="bacpypes.apdu:APCI", **kw):
    f = dict(apduType=Int(), apduSeg=Bool(), apduMor=Bool(), apduSA=Bool(), apduSrv=Bool(), apduNak=Bool(),
             apduSeq=Int(), apduWin=Int(), apduMaxSegs=Int(), apduMaxResp=Int(), apduService=Int(),
             apduInvokeID=Int(), apduAbortRejectReason=Int())
    f.update(BPCIFields())
    f.update(kw)
    return Obj(cls, **f)

def BlankAPCIObj(cls="bacpypes.apdu:APCI", **kw):
    """as left by the constructor: every header field None"""
    f = dict((k, Const(None)) for k in FIELDS)
    f.update(BPCIFields())
    f.update(kw)
    return Obj(cls, **f)

# ---------------------------------------------------------------------------
#   tables (20.1.2.4, 20.1.2.5)
# ---------------------------------------------------------------------------

contract("bacpypes.apdu:encode_max_segments_accepted",
    params={"arg": NoneOr(Int())},
    raises=[(ValueError, "spec.max_segments_code(arg) is None")],
    post={"result": "spec.max_segments_code(arg)"},
    ensures=["arg is None or arg == 0 or result == 7 or spec.max_segments_value(result) <= arg",      # never rounds up
             "arg is None or arg == 0 or result == 7 or result == 6 or spec.max_segments_value(result + 1) > arg"])  # and is the largest such

contract("bacpypes.apdu:decode_max_segments_accepted",
    params={"arg": Int(0, 7)},
    post={"result": "spec.max_segments_value(arg)"})

contract("bacpypes.apdu:encode_max_apdu_length_accepted",
    params={"arg": Int()},
    raises=[(ValueError, "arg < 50")],
    post={"result": "spec.max_apdu_code(arg)"},
    ensures=["spec.max_apdu_value(result) <= arg",
             "result == 5 or spec.max_apdu_value(result + 1) > arg"])

contract("bacpypes.apdu:decode_max_apdu_length_accepted",
    params={"arg": Int(0, 15)},
    raises=[(ValueError, "arg >= 6")],
    post={"result": "spec.max_apdu_value(arg)"})

# ---------------------------------------------------------------------------
#   APCI.encode / APCI.decode
# ---------------------------------------------------------------------------

contract("bacpypes.apdu:APCI.encode",
    params={"self": APCIObj(), "pdu": PDUObj()},
    requires=["spec.fields_in_range(self)"],
    raises=[(ValueError, "not (0 <= self.apduType <= 7)")],
    post={"pdu.pduData[:]": "old(pdu.pduData) + spec.header(self)",
          "pdu.pduUserData": "self.pduUserData",
          "pdu.pduSource": "self.pduSource",
          "pdu.pduDestination": "self.pduDestination",
          "pdu.pduExpectingReply": "self.pduExpectingReply",
          "pdu.pduNetworkPriority": "self.pduNetworkPriority"})

_decode_post = {
    "self.pduUserData": "pdu.pduUserData",
    "self.pduSource": "pdu.pduSource",
    "self.pduDestination": "pdu.pduDestination",
    "self.pduExpectingReply": "pdu.pduExpectingReply",
    "self.pduNetworkPriority": "pdu.pduNetworkPriority",
    # nothing beyond the header is consumed, nothing before it is skipped
    "pdu.pduData[:]": "old(pdu.pduData)[spec.header_length(old(pdu.pduData)):]",
}
for _f in FIELDS:
    _decode_post["self." + _f] = "spec.field(old(pdu.pduData), %r, old(self.%s))" % (_f, _f)

contract("bacpypes.apdu:APCI.decode",
    params={"self": OneOf(BlankAPCIObj(), APCIObj()), "pdu": PDUObj()},
    raises=[(DecodingError, "not spec.parses(old(pdu.pduData))")],
    post=_decode_post,
    modifies=["self.pduData"],
    note="self.pduData is an alias of pdu.pduData for the types that carry a payload (set by APDU.decode afterwards)")

# ---------------------------------------------------------------------------
#   APDU.encode / APDU.decode (header + payload)
# ---------------------------------------------------------------------------

contract("bacpypes.apdu:APDU.encode",
    params={"self": APCIObj("bacpypes.apdu:APDU", pduData=Bytes(mutable=True)), "pdu": PDUObj()},
    requires=["spec.fields_in_range(self)"],
    raises=[(ValueError, "not (0 <= self.apduType <= 7)")],
    post={"pdu.pduData[:]": "old(pdu.pduData) + spec.header(self) + self.pduData",
          "pdu.pduUserData": "self.pduUserData",
          "pdu.pduSource": "self.pduSource",
          "pdu.pduDestination": "self.pduDestination",
          "pdu.pduExpectingReply": "self.pduExpectingReply",
          "pdu.pduNetworkPriority": "self.pduNetworkPriority"})

_apdu_decode_post = dict(_decode_post)
_apdu_decode_post["pdu.pduData[:]"] = "b''"
_apdu_decode_post["self.pduData"] = "old(pdu.pduData)[spec.header_length(old(pdu.pduData)):]"

contract("bacpypes.apdu:APDU.decode",
    params={"self": OneOf(BlankAPCIObj("bacpypes.apdu:APDU", pduData=Bytes(mutable=True)),
                          APCIObj("bacpypes.apdu:APDU", pduData=Bytes(mutable=True))),
            "pdu": PDUObj()},
    raises=[(DecodingError, "not spec.parses(old(pdu.pduData))")],
    post=_apdu_decode_post)
