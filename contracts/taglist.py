"""
Contracts for TagList and Any (tag-list level).  The list-valued operations
are verified for lists of 0..N tags (N stated per contract; bounded in
structure, every tag field symbolic); the per-tag framing they rest on is
proved without bound in contracts.primitivedata.
"""
from pyvc.contracts import contract, Obj, Bytes, Int, Bool, Const, OneOf, NoneOr, Tuple, List, Fn
from bacpypes.errors import DecodingError, InvalidTag
from bacpypes.primitivedata import TagList, Tag
from contracts.comm import PDUDataObj
from contracts.primitivedata import TagObj
from spec import tags as st
from spec import balance as sb

def LightTag():
    """a tag whose content is irrelevant to list-level operations"""
    return Obj("bacpypes.primitivedata:Tag", tagClass=Int(0, 3), tagNumber=Int(0, 254), tagLVT=Int(0), tagData=Const(b''))

def TagListObj(n, tag=LightTag):
    return Obj("bacpypes.primitivedata:TagList", tagList=List(*[tag() for _ in range(n)]))

def TagLists(upto, tag=LightTag):
    return OneOf(*[TagListObj(n, tag) for n in range(upto + 1)])

def same_objects(got, want):
    return len(got) == len(want) and all(a is b for a, b in zip(got, want))

contract("bacpypes.primitivedata:TagList.Peek",
    params={"self": TagLists(3)},
    post={"result": "self.tagList[0] if len(self.tagList) > 0 else None"})

contract("bacpypes.primitivedata:TagList.Pop",
    params={"self": TagLists(3)},
    post={"result": "old(self.tagList)[0] if len(old(self.tagList)) > 0 else None",
          "self.tagList": "old(self.tagList)[1:]"})

contract("bacpypes.primitivedata:TagList.push",
    params={"self": TagLists(3), "tag": LightTag()},
    post={"self.tagList": "[tag] + old(self.tagList)"})

contract("bacpypes.primitivedata:TagList.append",
    params={"self": TagLists(3), "tag": LightTag()},
    post={"self.tagList[:]": "old(self.tagList) + [tag]"})

def gc_ok(result, tags, context):
    r = sb.get_context([t.tagClass for t in tags], [t.tagNumber for t in tags], context)
    if r[0] == 'tag':
        return result is tags[r[1]]
    if r[0] == 'group':
        return isinstance(result, TagList) and same_objects(result.tagList, tags[r[1]:r[2]])
    if r[0] == 'none':
        return result is None
    return False

def gc_invalid(tags, context):
    return sb.get_context([t.tagClass for t in tags], [t.tagNumber for t in tags], context)[0] == 'invalid'

GC_BOUND = 5

contract("bacpypes.primitivedata:TagList.get_context",
    params={"self": TagLists(GC_BOUND), "context": Int(0, 254)},
    raises=[(InvalidTag, "gc_invalid(self.tagList, context)")],
    ensures=["gc_ok(result, self.tagList, context)"],
    max_paths=60000,
    note="bounded in structure: lists of 0..%d tags, class and number of every tag symbolic" % GC_BOUND)

def any_ok(self_tags, old_self_tags, taglist_tags, old_taglist_tags):
    r = sb.any_extent([t.tagClass for t in old_taglist_tags])
    k = r[1]
    return same_objects(self_tags, old_self_tags + old_taglist_tags[:k]) and same_objects(taglist_tags, old_taglist_tags[k:])

contract("bacpypes.constructeddata:Any.decode",
    params={"self": Obj("bacpypes.constructeddata:Any", tagList=TagLists(1)), "taglist": TagLists(GC_BOUND)},
    raises=[(DecodingError, "sb.any_extent([t.tagClass for t in taglist.tagList])[0] == 'unbalanced'")],
    ensures=["any_ok(self.tagList.tagList, old(self.tagList.tagList), taglist.tagList, old(taglist.tagList))"],
    modifies=["self.tagList.tagList", "taglist.tagList"],
    max_paths=60000,
    note="bounded in structure: lists of 0..%d tags" % GC_BOUND)

# list-level framing on short lists (every tag fully symbolic, content of any length)
def frames(tags):
    out = b''
    for t in tags:
        out = out + st.frame(t.tagClass, t.tagNumber, t.tagLVT, t.tagData)
    return out

def all_wf(tags):
    return all(st.wf(t.tagClass, t.tagNumber, t.tagLVT, t.tagData) for t in tags)

LIST_BOUND = 2

contract("bacpypes.primitivedata:TagList.encode",
    params={"self": TagLists(LIST_BOUND, TagObj), "pdu": PDUDataObj()},
    requires=["all_wf(self.tagList)"],
    post={"pdu.pduData[:]": "old(pdu.pduData) + frames(self.tagList)"},
    note="bounded in structure: lists of 0..%d tags (each tag unbounded)" % LIST_BOUND)
