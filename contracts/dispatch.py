"""
Contracts for the dispatch of an inbound request (C10): bacpypes.appservice.
ApplicationServiceAccessPoint.indication (service lookup, parameter decoding,
hand-over to the application, conversion of rejects / aborts into reply PDUs)
and bacpypes.app.Application.indication (handler lookup, conversion of
execution errors and unexpected exceptions into Error replies).

The decoder of the service and the application's handler are ghosts whose
outcome is a symbolic choice among: succeed, raise a RejectException, raise an
AbortException, raise an ExecutionError, raise some other exception -- the
contracts say what the client gets in each case: exactly one reply carrying
its invoke ID, or the request reaches the handler; never silence.
"""
from pyvc.contracts import (contract, external, Obj, Bytes, Int, Bool, Const, OneOf, Fn, Maybe, trace, trace_then)
from contracts.comm import Tok, Token
from bacpypes.appservice import ApplicationServiceAccessPoint
from bacpypes.app import Application
from bacpypes.apdu import ConfirmedRequestPDU, UnconfirmedRequestPDU, RejectPDU, AbortPDU, Error, ErrorPDU
from bacpypes.errors import (RejectException, AbortException, ExecutionError, InvalidTag, MissingRequiredParameter, AbortOther, DecodingError)
from contracts.ssm import ConfReq

external("bacpypes.comm:ApplicationServiceElement.response", "reply")
external("bacpypes.comm:ServiceAccessPoint.sap_request", "to_app", may_raise=None)

OUTCOMES = ('ok', 'reject', 'abort')

class GhostRequest(object):
    """stands for the service's request class: decoding succeeds or raises, as the unit says"""
    behaviour = 'ok'
    def decode(self, apdu):
        self.decoded_from = apdu
        b = self.behaviour
        if b == 'reject':
            raise InvalidTag("ghost: malformed parameters")
        if b == 'abort':
            raise AbortOther("ghost: cannot be processed")
        if b == 'crash':
            raise ValueError("ghost: the decoder tripped over malformed parameters without diagnosing them")

class GhostRequestCrash(GhostRequest):
    behaviour = 'crash'

class GhostRequestReject(GhostRequest):
    behaviour = 'reject'

class GhostRequestAbort(GhostRequest):
    behaviour = 'abort'

_REQ = {'ok': GhostRequest, 'reject': GhostRequestReject, 'abort': GhostRequestAbort, 'crash': GhostRequestCrash}

def Types(known, dec):
    """the service table: service 12 is known (or not)"""
    return {12: _REQ[dec]} if known else {}

class GhostASAP(ApplicationServiceAccessPoint):
    """leaf: what the application above does with the decoded request is a ghost choice"""
    def __init__(self):
        pass
    def sap_request(self, xpdu):
        ghost_forward(xpdu)
        b = self.ghost_app
        if b == 'reject':
            raise MissingRequiredParameter("ghost: refused by the application")
        if b == 'abort':
            raise AbortOther("ghost: aborted by the application")

def ghost_forward(xpdu):
    """ghost: the decoded request handed to the application"""

external("contracts.dispatch:ghost_forward", "forwarded", method=False)

def ASAP():
    def build(b, name):
        a = GhostASAP()
        a.__dict__.update(elementID=None, elementService=Tok('ssm'), serviceID=None, serviceElement=Tok('app'))
        a.ghost_app = OneOf(*OUTCOMES).build(b, name + '.app')
        return a
    return Fn(build)

def dispatch_ok(a, apdu, known, decode, replies, forwarded):
    """a confirmed request: it reaches the application, or the client gets exactly one reject / abort with its invoke ID -- never both, never neither"""
    def one(kind_type, reason):
        return (len(replies) == 1 and replies[0][0].apduType == kind_type and replies[0][0].apduInvokeID == apdu.apduInvokeID
                and replies[0][0].pduDestination is apdu.pduSource and (reason is None or replies[0][0].apduAbortRejectReason == reason))
    if not known:
        return len(forwarded) == 0 and one(6, 9)                    # reject: unrecognized service
    if decode == 'reject':
        return len(forwarded) == 0 and one(6, 4)                    # reject: invalid tag
    if decode == 'abort':
        return len(forwarded) == 0 and one(7, 0)
    if decode == 'crash':
        return len(forwarded) == 0 and one(6, 0)                    # reject: other -- any other decoding failure is still answered
    if len(forwarded) != 1 or forwarded[0][0].decoded_from is not apdu:
        return False
    if a.ghost_app == 'ok':
        return len(replies) == 0                                        # the application answers (Application.indication)
    return one(6, 5) if a.ghost_app == 'reject' else one(7, 0)

for _known in (True, False):
    for _dec in ((OUTCOMES + ('crash',)) if _known else ('ok',)):
        contract("bacpypes.appservice:ApplicationServiceAccessPoint.indication",
            name="bacpypes.appservice:ApplicationServiceAccessPoint.indication[confirmed, %s, decoding %s]" % ("known service" if _known else "unknown service", _dec),
            params={"self": ASAP(), "apdu": ConfReq(apduSeg=Const(False), apduMor=Const(False), apduService=Const(12), pduData=Bytes(0, 4, mutable=True))},
            globals_={"confirmed_request_types": ("bacpypes.appservice", Types(_known, _dec))},
            ensures=["dispatch_ok(self, apdu, %r, %r, trace_then('reply'), trace('forwarded'))" % (_known, _dec)],
            modifies=[], max_paths=2000)

# -- the application: handler lookup, execution errors, unexpected exceptions -----------------------------------------------------

class ReadPropertyLike(ConfirmedRequestPDU):
    """a decoded confirmed request of some service (the handler name is derived from the class name)"""

class WhoIsLike(UnconfirmedRequestPDU):
    pass

class GhostApplication(Application):
    def __init__(self):
        pass
    def do_ReadPropertyLike(self, apdu):
        ghost_handler(apdu)
        b = self.ghost_handler_outcome
        if b == 'answer':
            ghost_answer(apdu)
        elif b == 'reject':
            raise MissingRequiredParameter("ghost")
        elif b == 'abort':
            raise AbortOther("ghost")
        elif b == 'error':
            raise ExecutionError(errorClass='property', errorCode='unknownProperty')
        elif b == 'crash':
            raise KeyError("ghost: a bug or an unexpected parameter value in the handler")
    do_WhoIsLike = do_ReadPropertyLike

class NoHandlerApplication(Application):
    def __init__(self):
        pass

def ghost_handler(apdu):
    """ghost: the service handler ran"""

def ghost_answer(apdu):
    """ghost: the handler sent its own acknowledgement"""

external("contracts.dispatch:ghost_handler", "handled", method=False)
external("contracts.dispatch:ghost_answer", "answered", method=False)

HANDLER = ('answer', 'reject', 'abort', 'error', 'crash')

def App(cls=GhostApplication):
    def build(b, name):
        a = cls()
        a.__dict__.update(elementID=None, elementService=Tok('asap'))
        a.ghost_handler_outcome = OneOf(*HANDLER).build(b, name + '.handler')
        return a
    return Fn(build)

def Decoded(cls):
    f = dict(apduType=Const(0 if cls == 'ReadPropertyLike' else 1), apduService=Const(12), apduInvokeID=(Int(0, 255) if cls == 'ReadPropertyLike' else Const(None)),
             pduSource=Token(), pduDestination=Token(), pduUserData=Token(), pduData=Const(None), pduExpectingReply=Const(0), pduNetworkPriority=Const(0))
    for k in ('apduSeg', 'apduMor', 'apduSA', 'apduSrv', 'apduNak', 'apduSeq', 'apduWin', 'apduMaxSegs', 'apduMaxResp', 'apduAbortRejectReason'):
        f[k] = Const(None)
    return Obj("contracts.dispatch:" + cls, **f)

def handled_ok(app, apdu, replies, answered):
    """the handler's outcome becomes exactly one reply (its own acknowledgement or an Error), rejects and aborts travel on to the access point"""
    b = app.ghost_handler_outcome
    if b == 'answer':
        return len(answered) == 1 and len(replies) == 0
    if len(answered) != 0 or len(replies) != 1:
        return False
    r = replies[0][0]
    if not (type(r) is Error and r.apduInvokeID == apdu.apduInvokeID and r.pduDestination is apdu.pduSource):
        return False
    if b == 'error':
        return r.errorClass == 'property' and r.errorCode == 'unknownProperty'
    return r.errorClass == 'device' and r.errorCode == 'operationalProblem'

contract("bacpypes.app:Application.indication", name="bacpypes.app:Application.indication[confirmed, handler present]",
    params={"self": App(), "apdu": Decoded('ReadPropertyLike')},
    raises=[(RejectException, "self.ghost_handler_outcome == 'reject'"), (AbortException, "self.ghost_handler_outcome == 'abort'")],
    raise_ensures=["len(trace('reply')) == 0 and len(trace('answered')) == 0"],
    ensures=["handled_ok(self, apdu, trace_then('reply'), trace('answered'))", "len(trace('handled')) == 1"],
    modifies=[], max_paths=2000)

contract("bacpypes.app:Application.indication", name="bacpypes.app:Application.indication[confirmed, no handler]",
    params={"self": App(NoHandlerApplication), "apdu": Decoded('ReadPropertyLike')},
    raises=[(RejectException, "True")],
    raise_ensures=["type(exc).__name__ == 'UnrecognizedService'", "len(trace('reply')) == 0"],        # unrecognized service: the access point turns it into the reject reply
    ensures=[], modifies=[], max_paths=2000)

contract("bacpypes.app:Application.indication", name="bacpypes.app:Application.indication[unconfirmed]",
    params={"self": App(), "apdu": Decoded('WhoIsLike')},
    raises=[(RejectException, "self.ghost_handler_outcome == 'reject'"), (AbortException, "self.ghost_handler_outcome == 'abort'")],
    ensures=["len(trace('reply')) == 0"],            # an unconfirmed request is never answered with an error
    modifies=[], max_paths=2000)
