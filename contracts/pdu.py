"""
Contracts for bacpypes.pdu addresses: the typed constructors, the int / bytes /
tuple branches of Address.decode_address, the IPv4 arithmetic block of its text
branch (a contract on that block of the real function, with the regex groups
as typed symbolic texts), equality, _tuple and hash.
"""
import ast
import socket
import struct
from pyvc.contracts import contract, exactly, buflen, Obj, Bytes, Int, Bool, Const, OneOf, NoneOr, List, Tuple, DecStr, IPStr
from bacpypes.pdu import Address
from contracts.comm import Token
from spec import addr as sa

def Blank(cls):
    return Obj("bacpypes.pdu:" + cls)

def Reset():
    """an Address object on entry to decode_address (the five basic fields exist)"""
    return Obj("bacpypes.pdu:Address", addrType=Token(), addrNet=Token(), addrAddr=Token(), addrLen=Token(), addrRoute=Token())

AnyBytes = OneOf(Bytes(), Bytes(mutable=True))

# -- typed constructors ---------------------------------------------------------------

contract("bacpypes.pdu:LocalStation.__init__", name="bacpypes.pdu:LocalStation.__init__[int]",
    params={"self": Blank("LocalStation"), "addr": Int()},
    raises=[(ValueError, "addr < 0 or addr >= 256")],
    post={"self.addrType": "2", "self.addrNet": "None", "self.addrRoute": "None", "self.addrAddr": "bytes([addr])", "self.addrLen": "1"},
    ensures=["type(self.addrAddr) is bytes"],     # immutable, not an alias of the caller's buffer: usable as a dict key
    applies_when="isinstance(addr, int) and route is None")

contract("bacpypes.pdu:LocalStation.__init__", name="bacpypes.pdu:LocalStation.__init__[octets]",
    params={"self": Blank("LocalStation"), "addr": AnyBytes},
    post={"self.addrType": "2", "self.addrNet": "None", "self.addrRoute": "None", "self.addrAddr": "bytes(addr)", "self.addrLen": "len(addr)"},
    ensures=["type(self.addrAddr) is bytes"],     # immutable, not an alias of the caller's buffer: usable as a dict key
    applies_when="isinstance(addr, (bytes, bytearray)) and route is None")

contract("bacpypes.pdu:RemoteStation.__init__", name="bacpypes.pdu:RemoteStation.__init__[int]",
    params={"self": Blank("RemoteStation"), "net": Int(), "addr": Int()},
    raises=[(ValueError, "net < 0 or net >= 65535 or addr < 0 or addr >= 256")],
    post={"self.addrType": "4", "self.addrNet": "net", "self.addrRoute": "None", "self.addrAddr": "bytes([addr])", "self.addrLen": "1"},
    ensures=["type(self.addrAddr) is bytes"],     # immutable, not an alias of the caller's buffer: usable as a dict key
    applies_when="isinstance(net, int) and isinstance(addr, int) and route is None")

contract("bacpypes.pdu:RemoteStation.__init__", name="bacpypes.pdu:RemoteStation.__init__[octets]",
    params={"self": Blank("RemoteStation"), "net": Int(), "addr": AnyBytes},
    raises=[(ValueError, "net < 0 or net >= 65535")],
    post={"self.addrType": "4", "self.addrNet": "net", "self.addrRoute": "None", "self.addrAddr": "bytes(addr)", "self.addrLen": "len(addr)"},
    ensures=["type(self.addrAddr) is bytes"],     # immutable, not an alias of the caller's buffer: usable as a dict key
    applies_when="isinstance(net, int) and isinstance(addr, (bytes, bytearray)) and route is None")

contract("bacpypes.pdu:LocalBroadcast.__init__",
    params={"self": Blank("LocalBroadcast")},
    post={"self.addrType": "1", "self.addrNet": "None", "self.addrAddr": "None", "self.addrLen": "None", "self.addrRoute": "None"},
    applies_when="route is None")

contract("bacpypes.pdu:RemoteBroadcast.__init__",
    params={"self": Blank("RemoteBroadcast"), "net": Int()},
    raises=[(ValueError, "net < 0 or net >= 65535")],
    post={"self.addrType": "3", "self.addrNet": "net", "self.addrAddr": "None", "self.addrLen": "None", "self.addrRoute": "None"},
    applies_when="isinstance(net, int) and route is None")

contract("bacpypes.pdu:GlobalBroadcast.__init__",
    params={"self": Blank("GlobalBroadcast")},
    post={"self.addrType": "5", "self.addrNet": "None", "self.addrAddr": "None", "self.addrLen": "None", "self.addrRoute": "None"},
    applies_when="route is None")

# -- decode_address: int, raw octets, (address, port) tuples ------------------------------

_base = {"self.addrType": "2", "self.addrNet": "None", "self.addrRoute": "None"}

contract("bacpypes.pdu:Address.decode_address", name="bacpypes.pdu:Address.decode_address[int]",
    params={"self": Reset(), "addr": Int()},
    raises=[(ValueError, "addr < 0 or addr >= 256")],
    post=dict(_base, **{"self.addrAddr": "bytes([addr])", "self.addrLen": "1"}),
    ensures=["type(self.addrAddr) is bytes"],     # immutable, not an alias of the caller's buffer: usable as a dict key
    applies_when="isinstance(addr, int) and not isinstance(addr, bool)")

contract("bacpypes.pdu:Address.decode_address", name="bacpypes.pdu:Address.decode_address[octets]",
    params={"self": Reset(), "addr": AnyBytes},
    requires=["len(addr) != 6"],
    post=dict(_base, **{"self.addrAddr": "bytes(addr)", "self.addrLen": "len(addr)"}),
    ensures=["type(self.addrAddr) is bytes"],     # immutable, not an alias of the caller's buffer: usable as a dict key
    applies_when="isinstance(addr, (bytes, bytearray)) and len(addr) != 6")

def ntoa(b):
    return socket.inet_ntoa(bytes(b))

_ip6 = dict(_base, **{
    "self.addrAddr": "bytes(addr)", "self.addrLen": "6",
    "self.addrIP": "sa.ip_word(addr)", "self.addrMask": "4294967295", "self.addrHost": "0", "self.addrSubnet": "sa.ip_word(addr)",
    "self.addrPort": "addr[4] * 256 + addr[5]",
    "self.addrTuple": "(ntoa(addr[0:4]), addr[4] * 256 + addr[5])",
    "self.addrBroadcastTuple": "('255.255.255.255', addr[4] * 256 + addr[5])"})

contract("bacpypes.pdu:Address.decode_address", name="bacpypes.pdu:Address.decode_address[six octets]",
    params={"self": Reset(), "addr": OneOf(Bytes(6, 6), Bytes(6, 6, mutable=True))},
    post=_ip6,
    ensures=["type(self.addrAddr) is bytes"],     # immutable, not an alias of the caller's buffer: usable as a dict key
    applies_when="isinstance(addr, (bytes, bytearray)) and len(addr) == 6")

_tup = dict(_base, **{
    "self.addrLen": "6", "self.addrMask": "4294967295", "self.addrHost": "None", "self.addrSubnet": "None"})

contract("bacpypes.pdu:Address.decode_address", name="bacpypes.pdu:Address.decode_address[(text, port)]",
    params={"self": Reset(), "addr": Tuple(IPStr(), Int(0, 65535))},
    post=dict(_tup, **{
        "self.addrPort": "addr[1]", "self.addrTuple": "(addr[0], addr[1])", "self.addrBroadcastTuple": "(addr[0], addr[1])",
        "self.addrIP": "sa.ip_word(socket.inet_aton(addr[0]))",
        "self.addrAddr": "socket.inet_aton(addr[0]) + sa.port_octets(addr[1])"}),
    ensures=["type(self.addrAddr) is bytes"],     # immutable, not an alias of the caller's buffer: usable as a dict key
    applies_when="isinstance(addr, tuple) and isinstance(addr[0], str) and addr[0] != ''")

contract("bacpypes.pdu:Address.decode_address", name="bacpypes.pdu:Address.decode_address[(word, port)]",
    params={"self": Reset(), "addr": Tuple(Int(0, 4294967295), Int(0, 65535))},
    post=dict(_tup, **{
        "self.addrPort": "addr[1]", "self.addrTuple": "(ntoa(sa.word_octets(addr[0])), addr[1])",
        "self.addrBroadcastTuple": "(ntoa(sa.word_octets(addr[0])), addr[1])",
        "self.addrIP": "addr[0]",
        "self.addrAddr": "sa.word_octets(addr[0]) + sa.port_octets(addr[1])"}),
    ensures=["type(self.addrAddr) is bytes"],     # immutable, not an alias of the caller's buffer: usable as a dict key
    applies_when="isinstance(addr, tuple) and isinstance(addr[0], int)")

# -- the IPv4 arithmetic of the text branch: a contract on that block of decode_address -------

def _ip_block(fn):
    """the `if local_ip_addr:` statement inside decode_address"""
    for node in ast.walk(fn):
        if isinstance(node, ast.If) and isinstance(node.test, ast.Name) and node.test.id == 'local_ip_addr':
            return [node]
    return None

contract("bacpypes.pdu:Address.decode_address", name="bacpypes.pdu:Address.decode_address[block: dotted IPv4 with mask and port]",
    region=_ip_block,
    params={"self": Obj("bacpypes.pdu:Address", addrType=Token(), addrNet=Token(), addrAddr=Const(None), addrLen=Const(None), addrRoute=Const(None)),
            "local_ip_addr": IPStr(), "local_ip_net": NoneOr(DecStr(0, 32)), "local_ip_port": NoneOr(DecStr(0, 65535))},
    post={"self.addrPort": "port_of(local_ip_port)",
          "self.addrTuple": "(local_ip_addr, port_of(local_ip_port))",
          "self.addrIP": "sa.ip_word(socket.inet_aton(local_ip_addr))",
          "self.addrMask": "sa.netmask(prefix_of(local_ip_net))",
          "self.addrHost": "sa.host(sa.ip_word(socket.inet_aton(local_ip_addr)), prefix_of(local_ip_net))",
          "self.addrSubnet": "sa.network(sa.ip_word(socket.inet_aton(local_ip_addr)), prefix_of(local_ip_net))",
          "self.addrBroadcastTuple": "(ntoa(sa.word_octets(sa.broadcast(sa.ip_word(socket.inet_aton(local_ip_addr)), prefix_of(local_ip_net)))), port_of(local_ip_port))",
          "self.addrAddr": "socket.inet_aton(local_ip_addr) + sa.port_octets(port_of(local_ip_port))",
          "self.addrLen": "6"},
    note="the regex groups are typed symbolic texts: a dotted quad of four symbolic octets, decimal texts of a prefix length 0..32 and a port 0..65535 (regex engine trusted)")

def port_of(t):
    return 47808 if t is None else int(t)

def prefix_of(t):
    return 32 if t is None else int(t)

# -- equality, tuple, hash (route-less addresses) -------------------------------------------------

def AddrShape(maxlen=None):
    return OneOf(
        Obj("bacpypes.pdu:Address", addrType=Const(1), addrNet=Const(None), addrAddr=Const(None), addrLen=Const(None), addrRoute=Const(None)),
        Obj("bacpypes.pdu:Address", addrType=Const(2), addrNet=Const(None), addrAddr=Bytes(1, maxlen), addrRoute=Const(None), _derive={"addrLen": lambda o: buflen(o.addrAddr)}),
        Obj("bacpypes.pdu:Address", addrType=Const(3), addrNet=Int(0, 65534), addrAddr=Const(None), addrLen=Const(None), addrRoute=Const(None)),
        Obj("bacpypes.pdu:Address", addrType=Const(4), addrNet=Int(0, 65534), addrAddr=Bytes(1, maxlen), addrRoute=Const(None), _derive={"addrLen": lambda o: buflen(o.addrAddr)}),
        Obj("bacpypes.pdu:Address", addrType=Const(5), addrNet=Const(None), addrAddr=Const(None), addrLen=Const(None), addrRoute=Const(None)))

def same_address(a, b):
    """(type, net, octets) equal"""
    return a.addrType == b.addrType and a.addrNet == b.addrNet and a.addrAddr == b.addrAddr

contract("bacpypes.pdu:Address.__eq__",
    params={"self": AddrShape(), "arg": AddrShape()},
    post={"result": "same_address(self, arg)"},
    applies_when="isinstance(arg, Address) and self.addrRoute is None and arg.addrRoute is None")

contract("bacpypes.pdu:Address.__ne__",
    params={"self": AddrShape(), "arg": AddrShape()},
    post={"result": "not same_address(self, arg)"},
    applies_when="isinstance(arg, Address) and self.addrRoute is None and arg.addrRoute is None")

contract("bacpypes.pdu:Address._tuple",
    params={"self": AddrShape()},
    post={"result": "(self.addrType, self.addrNet, self.addrAddr, None)"},
    applies_when="self.addrRoute is None")
