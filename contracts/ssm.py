"""
Contracts for bacpypes.appservice: the segmentation state machines (SSM,
ClientSSM, ServerSSM) and the transaction bookkeeping of
StateMachineAccessPoint.

A transaction object is a *real* ClientSSM / ServerSSM instance with symbolic
fields, attached to a real StateMachineAccessPoint whose transaction list
holds it exactly when it is live.  Everything that leaves the state machine is
a ghost-traced external:
    to_net   APDUs handed downward   (Client.request on the access point)
    to_app   APDUs handed upward     (sap_request / sap_response)
    cache    device-info cache calls (acquire / release / update)
and the timer is the pair of summary contracts on _Task.install_task /
suspend_task (isScheduled := True / False; their own contracts over the real
TaskManager are verified under C14).

The class invariant Inv is established by the constructor and preserved by
every entry point for every inbound APDU and every timeout -- an arbitrary
network (loss, duplication, delay, reordering) is an arbitrary sequence of such
calls, so Inv holds after every history.
"""
import ast
from pyvc.contracts import (contract, external, exactly, buflen, Obj, Bytes, Int, Bool, Real, Const, OneOf, NoneOr, List, Tuple, Same, Fn,
                            trace, trace_kw, trace_then, Maybe, native_stub)
from contracts.comm import Tok, Token
from bacpypes import appservice as AS
from bacpypes.appservice import ClientSSM, ServerSSM, SSM, StateMachineAccessPoint
from bacpypes.app import DeviceInfo, DeviceInfoCache
from bacpypes.apdu import (ConfirmedRequestPDU, SimpleAckPDU, ComplexAckPDU, SegmentAckPDU, ErrorPDU, RejectPDU, AbortPDU,
                           UnconfirmedRequestPDU, AbortReason)
from bacpypes.task import _Task

IDLE, SEGMENTED_REQUEST, AWAIT_CONFIRMATION, AWAIT_RESPONSE, SEGMENTED_RESPONSE, SEGMENTED_CONFIRMATION, COMPLETED, ABORTED = range(8)
SEG = ('noSegmentation', 'segmentedTransmit', 'segmentedReceive', 'segmentedBoth')

AbortReason()       # expand the enumeration table

# -- externals ------------------------------------------------------------------------------------

external("bacpypes.comm:Client.request", "to_net")
external("bacpypes.comm:ServiceAccessPoint.sap_request", "to_app")
external("bacpypes.comm:ServiceAccessPoint.sap_response", "to_app")
external("bacpypes.app:DeviceInfoCache.acquire", "cache", local=True)
external("bacpypes.app:DeviceInfoCache.release", "cache", local=True)
external("bacpypes.app:DeviceInfoCache.update_device_info", "cache", local=True)

def due(delta):
    """ghost value of a timer armed `delta` seconds from now"""
    return ('now+', delta)

contract("bacpypes.task:_Task.install_task", name="bacpypes.task:_Task.install_task[summary]",
    params={"self": Obj("bacpypes.task:OneShotTask", taskTime=Token(), isScheduled=Bool()), "when": Const(None), "delta": Real()},
    post={"self.isScheduled": "True", "self.taskTime": "due(delta)"},
    trusted=True, applies_when="when is None and delta is not None",
    note="summary of the C14 contracts: installing schedules the task")

contract("bacpypes.task:_Task.suspend_task", name="bacpypes.task:_Task.suspend_task[summary]",
    params={"self": Obj("bacpypes.task:OneShotTask", taskTime=Token(), isScheduled=Bool())},
    post={"self.isScheduled": "False"},
    trusted=True, note="summary of the C14 contracts: suspending unschedules the task")

def _stub_install(self, when=None, delta=None):
    self.isScheduled = True
    self.taskTime = due(delta)

def _stub_suspend(self):
    self.isScheduled = False

native_stub("bacpypes.task:_Task.install_task", _stub_install)
native_stub("bacpypes.task:_Task.suspend_task", _stub_suspend)

# -- shapes ------------------------------------------------------------------------------------------

_APCI = ('apduType', 'apduSeg', 'apduMor', 'apduSA', 'apduSrv', 'apduNak', 'apduSeq', 'apduWin', 'apduMaxSegs', 'apduMaxResp',
         'apduService', 'apduInvokeID', 'apduAbortRejectReason')

def PDUObj(cls, ptype, data=True, **fields):
    f = dict((k, Const(None)) for k in _APCI)
    f.update(apduType=Const(ptype), pduUserData=Token(), pduSource=Token(), pduDestination=Token(), pduExpectingReply=Const(0),
             pduNetworkPriority=Const(0))
    f['pduData'] = Bytes(mutable=True) if data else Const(None)
    f.update(fields)
    return Obj("bacpypes.apdu:" + cls, **f)

def ConfReq(**kw):
    f = dict(apduSeg=Bool(), apduMor=Bool(), apduSA=Bool(), apduSeq=Int(0, 255), apduWin=Int(0, 255), apduMaxSegs=Int(0, 7), apduMaxResp=Int(0, 15),
             apduService=Int(0, 255), apduInvokeID=Int(0, 255))
    f.update(kw)
    return PDUObj("ConfirmedRequestPDU", 0, **f)

def _with(defaults, kw):
    f = dict(defaults)
    f.update(kw)
    return f

def SimpleAck(**kw):
    return PDUObj("SimpleAckPDU", 2, **_with(dict(apduService=Int(0, 255), apduInvokeID=Int(0, 255)), kw))

def ComplexAck(**kw):
    f = dict(apduSeg=Bool(), apduMor=Bool(), apduSeq=Int(0, 255), apduWin=Int(0, 255), apduService=Int(0, 255), apduInvokeID=Int(0, 255))
    f.update(kw)
    return PDUObj("ComplexAckPDU", 3, **f)

def SegAck(**kw):
    return PDUObj("SegmentAckPDU", 4, **_with(dict(apduNak=Bool(), apduSrv=Bool(), apduSeq=Int(0, 255), apduWin=Int(0, 255), apduInvokeID=Int(0, 255)), kw))

def ErrorP(**kw):
    return PDUObj("ErrorPDU", 5, **_with(dict(apduService=Int(0, 255), apduInvokeID=Int(0, 255)), kw))

def RejectP(**kw):
    return PDUObj("RejectPDU", 6, **_with(dict(apduAbortRejectReason=Int(0, 255), apduInvokeID=Int(0, 255)), kw))

def AbortP(**kw):
    return PDUObj("AbortPDU", 7, **_with(dict(apduSrv=Bool(), apduAbortRejectReason=Int(0, 255), apduInvokeID=Int(0, 255)), kw))

def DeviceInfoShape(npdu=True):
    # sizes are drawn from the standard's values: a symbolic size makes segment arithmetic (count = ceil(len / size), offset = index * size) non-linear
    return Maybe(Obj("bacpypes.app:DeviceInfo", deviceIdentifier=Token(), address=Token(), maxApduLengthAccepted=Maybe(OneOf(50, 1024)),
                      segmentationSupported=OneOf(*SEG), maxSegmentsAccepted=Maybe(Int(2, 1000)), vendorID=Token(),
                      maxNpduLength=(Maybe(OneOf(50, 1497)) if npdu else Const(None))))

def LightDeviceInfo():
    return Maybe(Obj("bacpypes.app:DeviceInfo", deviceIdentifier=Token(), address=Token(), maxApduLengthAccepted=Const(1024),
                      segmentationSupported=Const('segmentedBoth'), maxSegmentsAccepted=Const(None), vendorID=Token(), maxNpduLength=Const(None)))

def SSMObj(cls, context=None, states=None, device_info=None, full=False, live=None, learned=False, **over):
    """a transaction of class cls in an arbitrary state, registered with its access point exactly when it is live"""
    def build(b, name):
        sap = object.__new__(StateMachineAccessPoint)
        sap.__dict__.update(clientID=None, clientPeer=Tok('lower'), serviceID=None, serviceElement=Tok('upper'), localDevice=None,
                            nextInvokeID=1, clientTransactions=[], serverTransactions=[],
                            numberOfApduRetries=3, apduTimeout=3000, maxApduLengthAccepted=1024, segmentationSupported='noSegmentation',
                            segmentTimeout=1500, maxSegmentsAccepted=2, dccEnableDisable='enable')
        sap.proposedWindowSize = Int(1, 127).build(b, name + '.sap.proposedWindowSize')
        sap.applicationTimeout = Int(1, 600000).build(b, name + '.sap.applicationTimeout')
        cache = object.__new__(DeviceInfoCache)
        cache.cache = {}
        sap.deviceInfoCache = cache
        tr = object.__new__(cls)
        st = (OneOf(*states) if states is not None else Int(0, 7)).build(b, name + '.state')
        ctx = (context if context is not None else Maybe(ConfReq() if cls is ClientSSM else OneOf(ConfReq(), ComplexAck()))).build(b, name + '.segmentAPDU')
        def F(k, sh):
            return None if k in over else sh.build(b, name + '.' + k)
        tr.__dict__.update(
            ssmSAP=sap, pdu_address=Tok('peer'),
            device_info=F('device_info', (device_info or (DeviceInfoShape() if full else LightDeviceInfo()))),
            invokeID=F('invokeID', Int(0, 255)), state=st, segmentAPDU=ctx,
            segmentSize=F('segmentSize', Maybe(OneOf(50, 480))),
            segmentCount=F('segmentCount', Maybe(Int(1))),
            retryCount=F('retryCount', Int(0)),
            segmentRetryCount=F('segmentRetryCount', Maybe(Int(0))),
            sentAllSegments=F('sentAllSegments', Maybe(Bool())),
            lastSequenceNumber=F('lastSequenceNumber', Maybe(Int(0, 255))),
            initialSequenceNumber=F('initialSequenceNumber', Maybe(Int(0))),
            actualWindowSize=F('actualWindowSize', Maybe(Int(0, 255))),
            numberOfApduRetries=F('numberOfApduRetries', Int(0, 10)),
            apduTimeout=F('apduTimeout', Int(1, 600000)),
            segmentTimeout=F('segmentTimeout', Int(1, 600000)),
            segmentationSupported=F('segmentationSupported', (OneOf(*SEG) if full else OneOf('noSegmentation', 'segmentedBoth'))),
            maxSegmentsAccepted=F('maxSegmentsAccepted', Maybe(Int(2, 1000))),
            maxApduLengthAccepted=F('maxApduLengthAccepted', (OneOf(50, 480, 1476) if full else Const(480))),
            taskTime=Tok('due'), isScheduled=Bool().build(b, name + '.isScheduled'))
        for k, sh in over.items():
            tr.__dict__[k] = sh.build(b, name + '.' + k)
        if cls is ServerSSM and 'segmented_response_accepted' not in over:
            tr.segmented_response_accepted = Bool().build(b, name + '.segmented_response_accepted')
        # what the cache says about the peer is independent of what the transaction holds (a record's address key moves when the device
        # re-announces itself from another address): empty here, or -- learned=True -- a record entered while the transaction was under
        # way (an I-Am arrived meanwhile), which the transaction does not hold
        if learned:
            fresh = object.__new__(DeviceInfo)
            fresh.__dict__.update(deviceIdentifier=Tok('learned id'), address=tr.pdu_address, maxApduLengthAccepted=1024, segmentationSupported='segmentedBoth',
                                  maxSegmentsAccepted=None, vendorID=Tok('vendor'), maxNpduLength=None, _ref_count=0)
            cache.cache[tr.pdu_address] = fresh
        # registered exactly when live: decided by the symbolic state
        lst = sap.clientTransactions if cls is ClientSSM else sap.serverTransactions
        # another live transaction of the same access point (any invoke ID, another peer): it must never be touched
        other = object.__new__(cls)
        other.__dict__.update(ssmSAP=sap, pdu_address=Tok('otherpeer'), invokeID=Int(0, 255).build(b, name + '.other.invokeID'),
                              state=(AWAIT_CONFIRMATION if cls is ClientSSM else AWAIT_RESPONSE), device_info=None, isScheduled=True)
        lst.append(other)
        sap.ghost_others = (other,)
        if live is None:
            reg = Bool().build(b, name + '.registered')
            if b.mode == 'sym':
                if b.ctx.decide(reg.t):
                    lst.append(tr)
            elif reg:
                lst.append(tr)
        elif live:
            lst.append(tr)
        b.built[name] = tr
        return tr
    return Fn(build)

# -- the class invariant -------------------------------------------------------------------------------

def terminal(tr):
    return tr.state == COMPLETED or tr.state == ABORTED

def registered(tr):
    lst = tr.ssmSAP.clientTransactions if isinstance(tr, ClientSSM) else tr.ssmSAP.serverTransactions
    return any(x is tr for x in lst)

def others_kept(tr):
    """the other live transactions of the access point are still tracked, each exactly once, and untouched"""
    lst = tr.ssmSAP.clientTransactions if isinstance(tr, ClientSSM) else tr.ssmSAP.serverTransactions
    return all(len([x for x in lst if x is o]) == 1 and o.isScheduled == True and not terminal(o) for o in tr.ssmSAP.ghost_others)

def inv_common(tr):
    return ((terminal(tr) == (not registered(tr)))                       # live <=> tracked by the access point
            and (not terminal(tr) or tr.isScheduled == False)             # nothing left armed once the outcome is delivered
            and others_kept(tr)
            and 0 <= tr.invokeID <= 255
            and (tr.segmentRetryCount is None or 0 <= tr.segmentRetryCount <= tr.numberOfApduRetries))

def cut_ok(tr):
    """the payload is cut into segmentCount pieces of segmentSize: count == ceil(len / size), at least 1"""
    n = len(tr.segmentAPDU.pduData)
    return (tr.segmentCount is not None and tr.segmentSize is not None and tr.segmentCount >= 1
            and (tr.segmentCount - 1) * tr.segmentSize < max(n, 1) <= tr.segmentCount * tr.segmentSize)

def sender_inv(tr):
    """sliding-window bookkeeping of the side that is sending segments"""
    return (cut_ok(tr) and tr.segmentCount >= 2
            and tr.initialSequenceNumber is not None and 0 <= tr.initialSequenceNumber < tr.segmentCount
            and tr.segmentRetryCount is not None
            and (tr.initialSequenceNumber == 0 or tr.actualWindowSize is not None)
            and (tr.initialSequenceNumber != 0 or not tr.sentAllSegments))          # only the first segment is out until its ack arrives

def receiver_inv(tr):
    return (tr.actualWindowSize is not None and tr.lastSequenceNumber is not None and tr.initialSequenceNumber is not None
            and 0 <= tr.lastSequenceNumber <= 255 and 0 <= tr.initialSequenceNumber <= 255)

def record_released_ok(tr, was_terminal, calls):
    """the peer's record goes back to the cache exactly once, exactly when the transaction ends, and it is the record the transaction
    acquired at its creation -- whatever the cache has learned about the peer in the meantime; no other record is touched"""
    held = tr.device_info
    mine = [c for c in calls if len(c) > 0 and held is not None and c[0] is held]
    foreign = [c for c in calls if len(c) > 0 and isinstance(c[0], DeviceInfo) and c[0] is not held]
    if len(foreign) != 0:
        return False
    if terminal(tr) and not was_terminal and held is not None:
        return len(mine) == 1
    return len(mine) == 0

_RELEASE_ENS = "record_released_ok(self, old(terminal(self)), trace('cache'))"

def inv_client(tr):
    s = tr.state
    if not inv_common(tr):
        return False
    if s == IDLE or terminal(tr):
        return True
    if s not in (SEGMENTED_REQUEST, AWAIT_CONFIRMATION, SEGMENTED_CONFIRMATION):
        return False                    # a client transaction is never in a server-only state
    if tr.isScheduled != True:          # silence always produces a timeout
        return False
    if tr.segmentAPDU is None or not (0 <= tr.retryCount <= tr.numberOfApduRetries):
        return False
    if s == SEGMENTED_REQUEST:
        return tr.segmentAPDU.apduType == 0 and sender_inv(tr)
    if s == AWAIT_CONFIRMATION:
        return tr.segmentAPDU.apduType == 0 and cut_ok(tr)
    return (tr.segmentAPDU.apduType == 3 and tr.segmentAPDU.apduInvokeID == tr.invokeID        # the response being reassembled is this transaction's
            and receiver_inv(tr))

def inv_server(tr):
    s = tr.state
    if not inv_common(tr):
        return False
    if s == IDLE or terminal(tr):
        return True
    if s not in (SEGMENTED_REQUEST, AWAIT_RESPONSE, SEGMENTED_RESPONSE):
        return False
    if tr.isScheduled != True:
        return False
    if s == AWAIT_RESPONSE:
        return True
    if tr.segmentAPDU is None:
        return False
    if s == SEGMENTED_REQUEST:
        return tr.segmentAPDU.apduType == 0 and tr.segmentAPDU.apduInvokeID == tr.invokeID and receiver_inv(tr)
    return tr.segmentAPDU.apduType == 3 and tr.segmentAPDU.apduInvokeID == tr.invokeID and sender_inv(tr)

# -- SSM helpers: the pure pieces (C05 / C12) ------------------------------------------------------------

contract("bacpypes.appservice:SSM.in_window",
    params={"self": Obj("bacpypes.appservice:SSM", actualWindowSize=Int(0, 255)), "seqA": Int(0, 255), "seqB": Int(0)},
    post={"result": "(seqA - seqB) % 256 < self.actualWindowSize"},
    note="seqB may be a segment index beyond 255 (the sender's position): only its residue matters")

WINDOW_BOUND = int(__import__("os").environ.get("SSM_WINDOW", "8" if __import__("os").environ.get("VERIF_TIER") == "thorough" else "2"))        # fill_window unrolls over the actual window size (property scope 1..8: thorough tier)

def seg_ok(result, tr, indx, old_data):
    """segment number indx of the transaction's payload: that slice, flags, sequence number, window field, addressing"""
    size, count = tr.segmentSize, tr.segmentCount
    ctx = tr.segmentAPDU
    ok = (result.pduData == old_data[indx * size:(indx + 1) * size]           # exactly that slice of the payload
          and result.apduSeg == (count != 1)
          and result.apduMor == (count != 1 and indx < count - 1)
          and result.apduService == ctx.apduService and result.pduDestination is tr.pdu_address
          and result.pduUserData is ctx.pduUserData)
    if count != 1:
        ok = ok and result.apduSeq == indx % 256 and result.apduWin == (tr.ssmSAP.proposedWindowSize if indx == 0 else tr.actualWindowSize)
    if ctx.apduType == 0:
        return ok and result.apduType == 0 and result.apduInvokeID == tr.invokeID
    return ok and result.apduType == 3 and result.apduInvokeID == ctx.apduInvokeID

def window_sent(tr, first, to_net, old_data):
    """the frames of this call are exactly segments first, first+1, ... up to the window or the end of the payload, in order"""
    n = min(tr.actualWindowSize, tr.segmentCount - first)
    if len(to_net) != n:
        return False
    for k in range(len(to_net)):
        if not seg_ok(to_net[k][0], tr, first + k, old_data):
            return False
    return True

def ack_offset(seq, initial):
    return (seq - initial) % 256

def honest_ack(tr, apdu):
    """the receiver grants a window within the range the units unroll (1..WINDOW_BOUND); which segment the ack names is NOT restricted:
    late copies of acks from an earlier try of the same request (same invoke ID) name segments this try has not sent"""
    return 1 <= apdu.apduWin <= WINDOW_BOUND

def sender_ack_ok(tr, apdu, old_state, old_initial, old_sent_all, old_retry, to_net, old_data, done_state):
    """effect of a segment-ack on the sending side"""
    off = ack_offset(apdu.apduSeq, old_initial)
    if tr.actualWindowSize != apdu.apduWin:                 # the window in use is the one the receiver gave last (C12)
        return False
    if not off < apdu.apduWin:                               # duplicate / stale ack: nothing is sent, nothing moves
        return (tr.state == old_state and tr.initialSequenceNumber == old_initial and len(to_net) == 0
                and tr.sentAllSegments == old_sent_all and tr.segmentRetryCount == old_retry)
    if old_sent_all and old_initial + off == tr.segmentCount - 1:
        return tr.state == done_state and len(to_net) == 0            # the ack of the very last segment ends the transfer
    if old_initial + off + 1 >= tr.segmentCount:
        # names the last segment (or one beyond) although that has not been sent: a late copy from an earlier try -- nothing moves
        return (tr.state == old_state and tr.initialSequenceNumber == old_initial and len(to_net) == 0
                and tr.sentAllSegments == old_sent_all and tr.segmentRetryCount == old_retry)
    # an ack for anything earlier (also a negative ack inside the last window) moves on to the segment after it
    return (tr.state == old_state and tr.initialSequenceNumber == old_initial + off + 1 and tr.segmentRetryCount == 0
            and window_sent(tr, tr.initialSequenceNumber, to_net, old_data)
            and bool(tr.sentAllSegments) == (tr.initialSequenceNumber + tr.actualWindowSize >= tr.segmentCount))

def receiver_timer_ok(tr):
    """the side receiving segments waits four segment timeouts (the sender retransmits after one, so a retransmission always comes first)"""
    return tr.isScheduled == True and tr.taskTime == due(tr.segmentTimeout * 4 / 1000.0)

def is_segack(p, nak, srv, invoke, seq, win):
    return (p.apduType == 4 and p.apduNak == nak and p.apduSrv == srv and p.apduInvokeID == invoke and p.apduSeq == seq and p.apduWin == win)

def receiver_ok(tr, apdu, old_state, old_last, old_initial, old_data, to_net, srv, done_state):
    """effect of a segment on the receiving side: in-order segments are appended once, anything else is refused with a negative ack"""
    W = tr.actualWindowSize
    if apdu.apduSeq != (old_last + 1) % 256:
        return (tr.state == old_state and tr.lastSequenceNumber == old_last and tr.initialSequenceNumber == old_initial
                and tr.segmentAPDU.pduData == old_data
                and len(to_net) == 1 and to_net[0][0].apduType == 4 and to_net[0][0].apduNak == 1 and to_net[0][0].apduSrv == srv
                and to_net[0][0].apduInvokeID == tr.invokeID and to_net[0][0].apduWin == W)
    if not (tr.segmentAPDU.pduData == old_data + bytes(apdu.pduData) and tr.lastSequenceNumber == (old_last + 1) % 256):
        return False
    if not apdu.apduMor:
        return tr.state == done_state and len(to_net) == 1 and is_segack(to_net[0][0], 0, srv, tr.invokeID, tr.lastSequenceNumber, W)
    if apdu.apduSeq == (old_initial + W) % 256:
        return (tr.state == old_state and tr.initialSequenceNumber == tr.lastSequenceNumber
                and len(to_net) == 1 and is_segack(to_net[0][0], 0, srv, tr.invokeID, tr.lastSequenceNumber, W))
    return tr.state == old_state and tr.initialSequenceNumber == old_initial and len(to_net) == 0

# -- client transaction: every inbound APDU, every timeout, the start --------------------------------------

def client_outcome_ok(tr, to_app):
    """exactly one outcome, delivered exactly when the transaction ends, carrying its invoke ID, from its peer"""
    if not terminal(tr):
        return len(to_app) == 0
    if len(to_app) != 1:
        return False
    p = to_app[0][0]
    return (p.apduType in (2, 3, 5, 6, 7) and p.apduInvokeID == tr.invokeID and p.pduSource is tr.pdu_address
            and p.pduDestination is None)

def frames_ok(tr, to_net):
    """every frame of this call goes to this transaction's peer with this transaction's invoke ID"""
    return all(c[0].pduDestination is tr.pdu_address and c[0].apduInvokeID == tr.invokeID for c in to_net)

_CLIENT_MOD = ["self.*", "self.ssmSAP.clientTransactions", "apdu.pduSource", "apdu.pduDestination", "self.segmentAPDU.pduData",
               "self.segmentAPDU.pduSource", "self.segmentAPDU.pduDestination"]

_CLIENT_KINDS = {"SegmentAck": lambda: SegAck(apduWin=Int(0, 255)), "SimpleAck": SimpleAck, "ComplexAck": ComplexAck, "Error": ErrorP,
                 "Reject": RejectP, "Abort": AbortP}
_STATE_NAMES = {1: "SEGMENTED_REQUEST", 2: "AWAIT_CONFIRMATION", 5: "SEGMENTED_CONFIRMATION", 0: "IDLE", 3: "AWAIT_RESPONSE", 4: "SEGMENTED_RESPONSE",
                6: "COMPLETED", 7: "ABORTED"}

_WINDOW_REQ = "self.actualWindowSize is None or self.actualWindowSize <= %d" % WINDOW_BOUND

for _st in (SEGMENTED_REQUEST, AWAIT_CONFIRMATION, SEGMENTED_CONFIRMATION):
    for _kn, _mk in _CLIENT_KINDS.items():
        _req = ["inv_client(self)", "apdu.apduInvokeID == self.invokeID", _WINDOW_REQ]
        _ens = ["inv_client(self)", "client_outcome_ok(self, trace('to_app'))", "frames_ok(self, trace_then('to_net'))", _RELEASE_ENS]
        if _st == SEGMENTED_REQUEST and _kn == "SegmentAck":
            _req.append("honest_ack(self, apdu)")
            _ens.append("sender_ack_ok(self, apdu, SEGMENTED_REQUEST, old(self.initialSequenceNumber), old(self.sentAllSegments), old(self.segmentRetryCount), "
                        "trace('to_net'), old(bytes(self.segmentAPDU.pduData)), AWAIT_CONFIRMATION)")
        if _st == SEGMENTED_CONFIRMATION and _kn == "ComplexAck":
            _ens.append("not apdu.apduSeg or receiver_ok(self, apdu, SEGMENTED_CONFIRMATION, old(self.lastSequenceNumber), old(self.initialSequenceNumber), "
                        "old(bytes(self.segmentAPDU.pduData)), trace('to_net'), 0, COMPLETED)")
            # the reassembled response is what reaches the application
            _ens.append("not terminal(self) or self.state == ABORTED or trace('to_app')[0][0] is self.segmentAPDU")
            _ens.append("terminal(self) or receiver_timer_ok(self)")
        if _st == SEGMENTED_CONFIRMATION and _kn == "SegmentAck":
            # a late or duplicate ack of the request phase does not disturb the response being received
            _ens.append("self.state == SEGMENTED_CONFIRMATION and len(trace('to_net')) == 0 and len(trace('to_app')) == 0")
        if _st == AWAIT_CONFIRMATION and _kn == "ComplexAck":
            # the receiving window is the one the server proposed, never more (C12); the first segment is acknowledged
            _ens.append("self.state != SEGMENTED_CONFIRMATION or (self.actualWindowSize == apdu.apduWin and self.segmentAPDU is apdu "
                        "and len(trace('to_net')) == 1 and is_segack(trace('to_net')[0][0], 0, 0, self.invokeID, 0, apdu.apduWin))")
        if _kn == "ComplexAck" and _st != SEGMENTED_CONFIRMATION:
            _ens.append("self.state != SEGMENTED_CONFIRMATION or receiver_timer_ok(self)")
        contract("bacpypes.appservice:ClientSSM.confirmation", name="bacpypes.appservice:ClientSSM.confirmation[%s, %s]" % (_STATE_NAMES[_st], _kn),
            params={"self": SSMObj(ClientSSM, states=(_st,), context=(Maybe(ComplexAck()) if _st == SEGMENTED_CONFIRMATION else None)), "apdu": _mk()},
            requires=_req, ensures=_ens,
            modifies=_CLIENT_MOD, max_paths=40000,
            note="arbitrary header fields; windows in use up to %d" % WINDOW_BOUND)

def retry_measure(tr):
    return (tr.numberOfApduRetries - tr.retryCount) * 1000 + (tr.numberOfApduRetries - (tr.segmentRetryCount or 0))

def resend_ok(tr, to_net, old_data):
    """a retransmission repeats the outstanding window (only the first segment while its ack is missing)"""
    if tr.initialSequenceNumber == 0:
        return len(to_net) == 1 and seg_ok(to_net[0][0], tr, 0, old_data)
    return window_sent(tr, tr.initialSequenceNumber, to_net, old_data)

for _st in (SEGMENTED_REQUEST, AWAIT_CONFIRMATION, SEGMENTED_CONFIRMATION, COMPLETED, ABORTED):
    _ens = ["inv_client(self)", "old(terminal(self)) or client_outcome_ok(self, trace('to_app'))", "frames_ok(self, trace_then('to_net'))", _RELEASE_ENS,
            # once the outcome is delivered nothing more is emitted for the transaction
            "not old(terminal(self)) or (len(trace('to_app')) == 0 and len(trace('to_net')) == 0 and self.state == old(self.state))",
            # bounded time under silence: a timeout ends the transaction or strictly decreases the retry budget while re-arming a timer
            "old(terminal(self)) or terminal(self) or retry_measure(self) < old(retry_measure(self))",
            # giving up is reported as an abort
            "old(terminal(self)) or not terminal(self) or (self.state == ABORTED and trace('to_app')[0][0].apduType == 7)"]
    if _st == SEGMENTED_REQUEST:
        _ens.append("terminal(self) or (self.state == SEGMENTED_REQUEST and self.initialSequenceNumber == old(self.initialSequenceNumber) "
                    "and resend_ok(self, trace('to_net'), old(bytes(self.segmentAPDU.pduData))))")
    contract("bacpypes.appservice:ClientSSM.process_task", name="bacpypes.appservice:ClientSSM.process_task[%s]" % _STATE_NAMES[_st],
        params={"self": SSMObj(ClientSSM, states=(_st,), context=(Maybe(ComplexAck()) if _st == SEGMENTED_CONFIRMATION else None))},
        requires=["inv_client(self)", _WINDOW_REQ, "terminal(self) or self.isScheduled == True"],
        ensures=_ens, modifies=_CLIENT_MOD, max_paths=40000)

# the peer is entered into the device-info cache while a request to it is outstanding (its I-Am arrives): the transaction, which holds no
# record, ends as usual -- one outcome, nothing released that it never acquired
contract("bacpypes.appservice:ClientSSM.process_task", name="bacpypes.appservice:ClientSSM.process_task[AWAIT_CONFIRMATION, peer learned meanwhile]",
    params={"self": SSMObj(ClientSSM, states=(AWAIT_CONFIRMATION,), device_info=Const(None), learned=True)},
    requires=["inv_client(self)", _WINDOW_REQ, "self.isScheduled == True"],
    ensures=["inv_client(self)", "client_outcome_ok(self, trace('to_app'))", _RELEASE_ENS,
             "terminal(self) or retry_measure(self) < old(retry_measure(self))"],
    modifies=_CLIENT_MOD, max_paths=40000)

contract("bacpypes.appservice:ClientSSM.confirmation", name="bacpypes.appservice:ClientSSM.confirmation[AWAIT_CONFIRMATION, SimpleAck, peer learned meanwhile]",
    params={"self": SSMObj(ClientSSM, states=(AWAIT_CONFIRMATION,), device_info=Const(None), learned=True), "apdu": _CLIENT_KINDS["SimpleAck"]()},
    requires=["inv_client(self)", "apdu.apduInvokeID == self.invokeID", _WINDOW_REQ],
    ensures=["inv_client(self)", "client_outcome_ok(self, trace('to_app'))", _RELEASE_ENS, "terminal(self)"],
    modifies=_CLIENT_MOD, max_paths=40000)

def peer_limit(tr):
    """largest APDU the peer announced it accepts (None: nothing known)"""
    di = tr.device_info
    if di is None or di.maxApduLengthAccepted is None:
        return None
    return di.maxApduLengthAccepted

def apdu_length(p):
    return len(sa_spec.header(p)) + len(p.pduData)

def client_start_ok(tr, apdu, to_net, old_data):
    """start of a request (C12): it fits what the peer accepts, is segmented only when both sides can, else the requester gets an abort"""
    if terminal(tr):
        return tr.state == ABORTED and len(to_net) == 0
    if len(to_net) != 1 or not seg_ok(to_net[0][0], tr, 0, old_data) or not cut_ok(tr):
        return False
    di = tr.device_info
    if tr.segmentCount > 1:
        if tr.segmentationSupported not in ('segmentedTransmit', 'segmentedBoth'):
            return False
        if di is not None and di.segmentationSupported not in ('segmentedReceive', 'segmentedBoth'):
            return False
        if di is not None and di.maxSegmentsAccepted is not None and tr.segmentCount > di.maxSegmentsAccepted:
            return False
    lim = peer_limit(tr)
    return lim is None or apdu_length(to_net[0][0]) <= lim

_FRESH = dict((k, Const(None)) for k in ("segmentSize", "segmentCount", "segmentRetryCount", "sentAllSegments", "lastSequenceNumber",
                                         "initialSequenceNumber", "actualWindowSize"))       # as the constructor leaves them

for _seg in SEG:
    contract("bacpypes.appservice:ClientSSM.indication", name="bacpypes.appservice:ClientSSM.indication[local %s]" % _seg,
        params={"self": SSMObj(ClientSSM, states=(IDLE,), context=Const(None), full=True, live=True, maxApduLengthAccepted=Const(480),
                               segmentationSupported=Const(_seg), **_FRESH),
                "apdu": ConfReq(apduSeg=Const(None), apduMor=Const(None), apduSA=Const(None), apduSeq=Const(None), apduWin=Const(None),
                                apduMaxSegs=Const(None), apduMaxResp=Const(None))},
        requires=["self.isScheduled == False", "self.retryCount == 0", "others_kept(self)"],
        ensures=["inv_client(self)", "client_outcome_ok(self, trace('to_app'))", "frames_ok(self, trace_then('to_net'))",
                 "self.invokeID == apdu.apduInvokeID",
                 "client_start_ok(self, apdu, trace('to_net'), old(bytes(apdu.pduData)))"],
        modifies=_CLIENT_MOD + ["apdu.pduData"], max_paths=40000)

# -- server transaction ---------------------------------------------------------------------------------------

_SERVER_MOD = ["self.*", "self.ssmSAP.serverTransactions", "apdu.pduSource", "apdu.pduDestination", "self.segmentAPDU.pduData",
               "self.segmentAPDU.pduSource", "self.segmentAPDU.pduDestination", "self.device_info.segmentationSupported"]

def server_app_ok(tr, old_state, to_app):
    """a request is handed to the application at most once per transaction: exactly when AWAIT_RESPONSE is entered"""
    entered = tr.state == AWAIT_RESPONSE and old_state != AWAIT_RESPONSE
    reqs = [c for c in to_app if c[0].apduType == 0]
    return len(reqs) == (1 if entered else 0)

def server_idle_ok(tr, apdu, to_net, to_app):
    """a new request: the client's limits are recorded from its header (C12), then it is handed up or reassembly starts"""
    if apdu.apduMaxResp > 5:
        # a reserved max-APDU code: answered with an abort, nothing is kept (C10)
        return (tr.invokeID == apdu.apduInvokeID and tr.state == ABORTED and len(to_app) == 0 and len(to_net) == 1 and to_net[0][0].apduType == 7
                and to_net[0][0].apduSrv == True)
    if not (tr.invokeID == apdu.apduInvokeID and tr.segmented_response_accepted == apdu.apduSA
            and tr.maxSegmentsAccepted == sa_spec.max_segments_value(apdu.apduMaxSegs)):
        return False
    di = tr.device_info
    want = sa_spec.max_apdu_value(apdu.apduMaxResp)
    if di is not None and di.maxApduLengthAccepted is not None and di.maxApduLengthAccepted >= want:
        want = di.maxApduLengthAccepted
    if tr.maxApduLengthAccepted != want:
        return False
    if not apdu.apduSeg:
        return tr.state == AWAIT_RESPONSE and len(to_app) == 1 and to_app[0][0] is apdu and len(to_net) == 0
    if tr.segmentationSupported not in ('segmentedReceive', 'segmentedBoth'):
        return tr.state == ABORTED and len(to_app) == 0 and len(to_net) == 1 and to_net[0][0].apduType == 7
    if apdu.apduSeq != 0:
        # not a first segment: it belongs to a transaction that is gone -- refused, never taken for the start of a new request (C05)
        return tr.state == ABORTED and len(to_app) == 0 and len(to_net) == 1 and to_net[0][0].apduType == 7 and to_net[0][0].apduSrv == True
    W = tr.actualWindowSize
    return (tr.state == SEGMENTED_REQUEST and len(to_app) == 0 and tr.segmentAPDU is apdu
            and 1 <= W <= 127 and W <= apdu.apduWin and W <= tr.ssmSAP.proposedWindowSize      # never more than the other side proposed
            and tr.lastSequenceNumber == 0 and tr.initialSequenceNumber == 0 and receiver_timer_ok(tr)
            and len(to_net) == 1 and is_segack(to_net[0][0], 0, 1, tr.invokeID, 0, W))

for _seg in SEG:
  for _codes, _lo, _hi in (("", 0, 5), (", reserved max-APDU code", 6, 15)):
    contract("bacpypes.appservice:ServerSSM.indication", name="bacpypes.appservice:ServerSSM.indication[IDLE, ConfirmedRequest, local %s%s]" % (_seg, _codes),
        params={"self": SSMObj(ServerSSM, states=(IDLE,), context=Const(None), full=True, live=True, device_info=DeviceInfoShape(npdu=False),
                               maxApduLengthAccepted=Const(1024), maxSegmentsAccepted=Const(2), segmentationSupported=Const(_seg), **_FRESH),
                "apdu": ConfReq(apduWin=Int(1, 127), apduMaxResp=Int(_lo, _hi))},
        requires=["self.isScheduled == False", "others_kept(self)"],
        ensures=["inv_server(self)", "self.state != IDLE",        # a transaction never stays IDLE: it ends or has a timer
                 "server_app_ok(self, IDLE, trace('to_app'))", "frames_ok(self, trace_then('to_net'))",
                 "server_idle_ok(self, apdu, trace('to_net'), trace('to_app'))"],
        modifies=_SERVER_MOD, max_paths=40000,
        note="max-APDU codes %d..%d%s" % (_lo, _hi, " (reserved: answered with an abort, nothing is kept)" if _lo else ""))

_SERVER_IN = {
    (SEGMENTED_REQUEST, "ConfirmedRequest"): lambda: ConfReq(),
    (SEGMENTED_REQUEST, "Abort"): AbortP,
    (SEGMENTED_REQUEST, "SegmentAck"): lambda: SegAck(),
    (AWAIT_RESPONSE, "ConfirmedRequest"): lambda: ConfReq(),
    (AWAIT_RESPONSE, "Abort"): AbortP,
    (AWAIT_RESPONSE, "SegmentAck"): lambda: SegAck(),
    (SEGMENTED_RESPONSE, "SegmentAck"): lambda: SegAck(apduWin=Int(0, 255)),
    (SEGMENTED_RESPONSE, "Abort"): AbortP,
    (SEGMENTED_RESPONSE, "ConfirmedRequest"): lambda: ConfReq(),
}

for (_st, _kn), _mk in _SERVER_IN.items():
    _req = ["inv_server(self)", "apdu.apduInvokeID == self.invokeID", _WINDOW_REQ]
    _ens = ["inv_server(self)", "self.state != IDLE", "server_app_ok(self, old(self.state), trace('to_app'))", "frames_ok(self, trace_then('to_net'))"]
    if (_st, _kn) == (SEGMENTED_REQUEST, "ConfirmedRequest"):
        _ens.append("not apdu.apduSeg or receiver_ok(self, apdu, SEGMENTED_REQUEST, old(self.lastSequenceNumber), old(self.initialSequenceNumber), "
                    "old(bytes(self.segmentAPDU.pduData)), trace('to_net'), 1, AWAIT_RESPONSE)")
        _ens.append("self.state != AWAIT_RESPONSE or trace('to_app')[0][0] is self.segmentAPDU")       # the reassembled request is what reaches the application
        _ens.append("self.state != SEGMENTED_REQUEST or receiver_timer_ok(self)")
    if (_st, _kn) == (SEGMENTED_RESPONSE, "SegmentAck"):
        _req.append("honest_ack(self, apdu)")
        _ens.append("sender_ack_ok(self, apdu, SEGMENTED_RESPONSE, old(self.initialSequenceNumber), old(self.sentAllSegments), old(self.segmentRetryCount), "
                    "trace('to_net'), old(bytes(self.segmentAPDU.pduData)), COMPLETED)")
    if (_st, _kn) in ((AWAIT_RESPONSE, "ConfirmedRequest"), (AWAIT_RESPONSE, "SegmentAck"), (SEGMENTED_RESPONSE, "ConfirmedRequest")):
        # a retransmitted request (or a stray segment ack) while the application is working / the response is going out:
        # not handed up again, nothing changes, nothing escapes into the network layer
        _ens.append("self.state == old(self.state) and len(trace('to_app')) == 0 and len(trace('to_net')) == 0")
    contract("bacpypes.appservice:ServerSSM.indication", name="bacpypes.appservice:ServerSSM.indication[%s, %s]" % (_STATE_NAMES[_st], _kn),
        params={"self": SSMObj(ServerSSM, states=(_st,), context=(Maybe(ConfReq()) if _st == SEGMENTED_REQUEST else None)), "apdu": _mk()},
        requires=_req, ensures=_ens, modifies=_SERVER_MOD, max_paths=40000)

def response_limit(tr):
    return tr.maxApduLengthAccepted

def server_answer_ok(tr, apdu, to_net, old_data):
    """the application's answer (C12): one frame, within the client's limits, segmented only if the request allowed it, else an abort"""
    if len(to_net) != 1:
        return False
    p = to_net[0][0]
    if apdu.apduType != 3:
        return p is apdu and tr.state == (ABORTED if apdu.apduType == 7 else COMPLETED)
    if tr.state == ABORTED:
        return p.apduType == 7 and p.apduSrv == True
    if not cut_ok(tr):
        return False
    if tr.segmentCount == 1:
        return tr.state == COMPLETED and p is apdu and apdu_length(p) <= response_limit(tr)
    return (tr.state == SEGMENTED_RESPONSE and seg_ok(p, tr, 0, old_data)
            and tr.segmentationSupported in ('segmentedTransmit', 'segmentedBoth') and tr.segmented_response_accepted == True
            and (tr.maxSegmentsAccepted is None or tr.segmentCount <= tr.maxSegmentsAccepted)
            and apdu_length(p) <= response_limit(tr))

contract("bacpypes.appservice:ServerSSM.confirmation",
    params={"self": SSMObj(ServerSSM, states=(AWAIT_RESPONSE,), full=True, live=True, context=Const(None),
                           device_info=Maybe(Obj("bacpypes.app:DeviceInfo", deviceIdentifier=Token(), address=Token(), maxApduLengthAccepted=Const(1024),
                                                 segmentationSupported=Const('segmentedBoth'), maxSegmentsAccepted=Const(None), vendorID=Token(),
                                                 maxNpduLength=Maybe(OneOf(50, 1497)))), **_FRESH),
            "apdu": OneOf(SimpleAck(), ComplexAck(apduSeg=Const(None), apduMor=Const(None), apduSeq=Const(None), apduWin=Const(None)), ErrorP(), RejectP(),
                          AbortP(apduSrv=Const(True)))},
    requires=["inv_server(self)", "apdu.apduInvokeID == self.invokeID"],
    ensures=["inv_server(self)", "self.state in (COMPLETED, ABORTED, SEGMENTED_RESPONSE)", "frames_ok(self, trace_then('to_net'))",
             "len(trace('to_app')) == 0",
             "server_answer_ok(self, apdu, trace('to_net'), old(bytes(apdu.pduData)))"],
    modifies=_SERVER_MOD + ["apdu.pduData"], max_paths=40000)

for _st in (SEGMENTED_REQUEST, AWAIT_RESPONSE, SEGMENTED_RESPONSE, COMPLETED, ABORTED):
    _ens = ["inv_server(self)", "frames_ok(self, trace_then('to_net'))",
            "not old(terminal(self)) or (len(trace('to_app')) == 0 and len(trace('to_net')) == 0 and self.state == old(self.state))",
            "old(terminal(self)) or terminal(self) or self.segmentRetryCount > old(self.segmentRetryCount)",
            "all(c[0].apduType != 0 for c in trace('to_app'))"]
    if _st == SEGMENTED_RESPONSE:
        _ens.append("terminal(self) or (self.state == SEGMENTED_RESPONSE and self.initialSequenceNumber == old(self.initialSequenceNumber) "
                    "and resend_ok(self, trace('to_net'), old(bytes(self.segmentAPDU.pduData))))")
    contract("bacpypes.appservice:ServerSSM.process_task", name="bacpypes.appservice:ServerSSM.process_task[%s]" % _STATE_NAMES[_st],
        params={"self": SSMObj(ServerSSM, states=(_st,))},
        requires=["inv_server(self)", _WINDOW_REQ, "terminal(self) or self.isScheduled == True"],
        ensures=_ens, modifies=_SERVER_MOD, max_paths=40000)

# -- segments (C05): slice by index, flags, sequence number ---------------------------------------------------------

from spec import apci as sa_spec

def _seg_post(req):
    size_slice = "bytearray(old(bytes(self.segmentAPDU.pduData))[indx * self.segmentSize:(indx + 1) * self.segmentSize])"
    p = {
        "result.apduType": "0" if req else "3",
        "result.apduSeg": "self.segmentCount != 1",
        "result.apduMor": "self.segmentCount != 1 and indx < self.segmentCount - 1",
        "result.apduSA": "(self.segmentationSupported in ('segmentedReceive', 'segmentedBoth'))" if req else "None",
        "result.apduSrv": "None", "result.apduNak": "None",
        "result.apduSeq": "(indx % 256) if self.segmentCount != 1 else None",
        "result.apduWin": "((self.ssmSAP.proposedWindowSize if indx == 0 else self.actualWindowSize) if self.segmentCount != 1 else None)",
        "result.apduMaxSegs": "sa_spec.max_segments_code(self.maxSegmentsAccepted)" if req else "None",
        "result.apduMaxResp": "sa_spec.max_apdu_code(self.maxApduLengthAccepted)" if req else "None",
        "result.apduService": "self.segmentAPDU.apduService",
        "result.apduInvokeID": "self.invokeID" if req else "self.segmentAPDU.apduInvokeID",
        "result.apduAbortRejectReason": "None",
        "result.pduUserData": "self.segmentAPDU.pduUserData", "result.pduSource": "None", "result.pduDestination": "self.pdu_address",
        "result.pduExpectingReply": "1" if req else "0", "result.pduNetworkPriority": "0",
        "result.pduData": size_slice,
    }
    return p

for _cls, _ctx, _req in ((ClientSSM, ConfReq, True), (ServerSSM, ComplexAck, False)):
    contract("bacpypes.appservice:SSM.get_segment", name="bacpypes.appservice:SSM.get_segment[%s]" % _cls.__name__,
        params={"self": SSMObj(_cls, context=_ctx(), device_info=Const(None), live=True), "indx": Int(0)},
        requires=["self.segmentSize is not None and self.segmentCount is not None", "indx < self.segmentCount",
                  "self.actualWindowSize is not None or indx == 0 or self.segmentCount == 1"],
        result_new="bacpypes.apdu:ConfirmedRequestPDU" if _req else "bacpypes.apdu:ComplexAckPDU",
        post=_seg_post(_req),
        ensures=["seg_ok(result, self, indx, old(bytes(self.segmentAPDU.pduData)))"],
        applies_when="self.segmentAPDU is not None and self.segmentAPDU.apduType == %d and self.segmentCount is not None and indx < self.segmentCount" % (0 if _req else 3),
        max_paths=20000,
        note="segment sizes 50 / 480 (a symbolic size makes index * size non-linear); index, count, payload symbolic")
