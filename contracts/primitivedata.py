"""
Contracts for bacpypes.primitivedata: Tag framing and the primitive value
codecs.  Postconditions are stated against spec.tags / spec.prim, which are
written from clause 20.2 of the standard.
"""
import struct
from pyvc.contracts import contract, Obj, Bytes, Int, Bool, Real, Const, OneOf, NoneOr, Tuple, List, Str, Fn
from bacpypes.errors import DecodingError, InvalidTag
from contracts.comm import PDUDataObj
from spec import tags as st
from spec import prim as sp

def TagObj(cls="bacpypes.primitivedata:Tag", **kw):
    f = dict(tagClass=Int(), tagNumber=Int(), tagLVT=Int(), tagData=Bytes())
    f.update(kw)
    return Obj(cls, **f)

def BlankTagObj(cls="bacpypes.primitivedata:Tag"):
    return Obj(cls, tagClass=Const(None), tagNumber=Const(None), tagLVT=Const(None), tagData=Const(None))

AnyTag = OneOf(TagObj(), BlankTagObj())
AnyBytes = OneOf(Bytes(), Bytes(mutable=True))

# ---------------------------------------------------------------------------
#   Tag
# ---------------------------------------------------------------------------

contract("bacpypes.primitivedata:Tag.set",
    params={"self": AnyTag, "tclass": Int(), "tnum": Int(), "tlvt": Int(), "tdata": AnyBytes},
    post={"self.tagClass": "tclass", "self.tagNumber": "tnum", "self.tagLVT": "tlvt", "self.tagData": "bytes(tdata)"})

contract("bacpypes.primitivedata:Tag.set_app_data",
    params={"self": AnyTag, "tnum": Int(), "tdata": AnyBytes},
    post={"self.tagClass": "0", "self.tagNumber": "tnum", "self.tagLVT": "len(tdata)", "self.tagData": "bytes(tdata)"})

contract("bacpypes.primitivedata:Tag.encode",
    params={"self": TagObj(tagData=AnyBytes), "pdu": PDUDataObj()},
    requires=["st.wf(self.tagClass, self.tagNumber, self.tagLVT, self.tagData)"],
    post={"pdu.pduData[:]": "old(pdu.pduData) + st.frame(self.tagClass, self.tagNumber, self.tagLVT, self.tagData)"})

contract("bacpypes.primitivedata:Tag.decode",
    params={"self": AnyTag, "pdu": PDUDataObj()},
    raises=[(InvalidTag, "st.parse(old(pdu.pduData)) is None")],
    post={"self.tagClass": "st.parse(old(pdu.pduData))[0]",
          "self.tagNumber": "st.parse(old(pdu.pduData))[1]",
          "self.tagLVT": "st.parse(old(pdu.pduData))[2]",
          "self.tagData": "st.parse(old(pdu.pduData))[3]",
          "pdu.pduData[:]": "old(pdu.pduData)[st.parse(old(pdu.pduData))[4]:]"},
    ensures=["1 <= st.parse(old(pdu.pduData))[4] <= len(old(pdu.pduData))"])     # progress, no over-read

contract("bacpypes.primitivedata:Tag.app_to_context",
    params={"self": TagObj(), "context": Int()},
    raises=[(ValueError, "self.tagClass != 0 or (self.tagNumber == 1 and not (0 <= self.tagLVT <= 255))")],
    result_new="bacpypes.primitivedata:ContextTag",
    post={"result.tagClass": "1",
          "result.tagNumber": "context",
          "result.tagData": "bytes([self.tagLVT]) if self.tagNumber == 1 else self.tagData",
          "result.tagLVT": "1 if self.tagNumber == 1 else len(self.tagData)"})

contract("bacpypes.primitivedata:Tag.context_to_app", name="bacpypes.primitivedata:Tag.context_to_app[boolean]",
    params={"self": TagObj(), "dataType": Const(1)},
    raises=[(ValueError, "self.tagClass != 1"),
            (struct.error, "self.tagClass == 1 and len(self.tagData) != 1")],
    result_new="bacpypes.primitivedata:Tag",
    post={"result.tagClass": "0", "result.tagNumber": "1", "result.tagLVT": "self.tagData[0]", "result.tagData": "b''"},
    applies_when="dataType == 1")

contract("bacpypes.primitivedata:Tag.context_to_app", name="bacpypes.primitivedata:Tag.context_to_app[other]",
    params={"self": TagObj(), "dataType": Int()},
    requires=["dataType != 1"],
    raises=[(ValueError, "self.tagClass != 1")],
    result_new="bacpypes.primitivedata:ApplicationTag",
    post={"result.tagClass": "0", "result.tagNumber": "dataType", "result.tagLVT": "len(self.tagData)", "result.tagData": "self.tagData"},
    applies_when="dataType != 1")

# ---------------------------------------------------------------------------
#   Null, Boolean
# ---------------------------------------------------------------------------

contract("bacpypes.primitivedata:Null.encode",
    params={"self": Obj("bacpypes.primitivedata:Null", value=Const(())), "tag": AnyTag},
    post={"tag.tagClass": "0", "tag.tagNumber": "0", "tag.tagLVT": "0", "tag.tagData": "b''"})

contract("bacpypes.primitivedata:Null.decode",
    params={"self": Obj("bacpypes.primitivedata:Null", value=Const(())), "tag": TagObj()},
    raises=[(InvalidTag, "tag.tagClass != 0 or tag.tagNumber != 0 or len(tag.tagData) != 0")],
    post={"self.value": "()"})

contract("bacpypes.primitivedata:Boolean.encode",
    params={"self": Obj("bacpypes.primitivedata:Boolean", value=Bool()), "tag": AnyTag},
    post={"tag.tagClass": "0", "tag.tagNumber": "1", "tag.tagLVT": "1 if self.value else 0", "tag.tagData": "b''"})

contract("bacpypes.primitivedata:Boolean.decode",
    params={"self": Obj("bacpypes.primitivedata:Boolean", value=Bool()), "tag": TagObj()},
    raises=[(InvalidTag, "tag.tagClass != 0 or tag.tagNumber != 1 or tag.tagLVT > 1")],
    post={"self.value": "tag.tagLVT != 0"})

# ---------------------------------------------------------------------------
#   Unsigned, Integer, Enumerated (numeric value)
# ---------------------------------------------------------------------------

contract("bacpypes.primitivedata:Unsigned.encode",
    params={"self": Obj("bacpypes.primitivedata:Unsigned", value=Int()), "tag": AnyTag},
    raises=[(struct.error, "not sp.unsigned_representable(self.value)")],       # refusal, never a wrong encoding
    post={"tag.tagClass": "0", "tag.tagNumber": "2", "tag.tagData": "sp.unsigned(self.value)",
          "tag.tagLVT": "len(sp.unsigned(self.value))"})

contract("bacpypes.primitivedata:Unsigned.decode",
    params={"self": Obj("bacpypes.primitivedata:Unsigned", value=Int()), "tag": TagObj()},
    requires=["len(tag.tagData) <= 8"],
    raises=[(InvalidTag, "tag.tagClass != 0 or tag.tagNumber != 2 or len(tag.tagData) == 0")],
    post={"self.value": "sp.be_value(tag.tagData, len(tag.tagData))"},
    note="content lengths 0..8 by case split on the length (complete for that range); longer content needs the loop invariant")

contract("bacpypes.primitivedata:Integer.encode",
    params={"self": Obj("bacpypes.primitivedata:Integer", value=Int()), "tag": AnyTag},
    raises=[(ValueError, "not sp.integer_representable(self.value)")],
    post={"tag.tagClass": "0", "tag.tagNumber": "3", "tag.tagData": "sp.integer(self.value)",
          "tag.tagLVT": "len(sp.integer(self.value))"})

contract("bacpypes.primitivedata:Integer.decode",
    params={"self": Obj("bacpypes.primitivedata:Integer", value=Int()), "tag": TagObj()},
    requires=["len(tag.tagData) <= 8"],
    raises=[(InvalidTag, "tag.tagClass != 0 or tag.tagNumber != 3 or len(tag.tagData) == 0")],
    post={"self.value": "sp.twos_value(tag.tagData, len(tag.tagData))"},
    note="content lengths 0..8 by case split on the length")

contract("bacpypes.primitivedata:Enumerated.encode", name="bacpypes.primitivedata:Enumerated.encode[number]",
    params={"self": Obj("bacpypes.primitivedata:Enumerated", value=Int()), "tag": AnyTag},
    raises=[(struct.error, "not sp.unsigned_representable(self.value)")],
    post={"tag.tagClass": "0", "tag.tagNumber": "9", "tag.tagData": "sp.unsigned(self.value)",
          "tag.tagLVT": "len(sp.unsigned(self.value))"},
    applies_when="isinstance(self.value, int)")

# ---------------------------------------------------------------------------
#   OctetString, CharacterString (octet level), Date, Time
# ---------------------------------------------------------------------------

contract("bacpypes.primitivedata:OctetString.encode",
    params={"self": Obj("bacpypes.primitivedata:OctetString", value=Bytes()), "tag": AnyTag},
    post={"tag.tagClass": "0", "tag.tagNumber": "6", "tag.tagData": "self.value", "tag.tagLVT": "len(self.value)"})

contract("bacpypes.primitivedata:OctetString.decode",
    params={"self": Obj("bacpypes.primitivedata:OctetString", value=Bytes()), "tag": TagObj()},
    raises=[(InvalidTag, "tag.tagClass != 0 or tag.tagNumber != 6")],
    post={"self.value": "tag.tagData"})

contract("bacpypes.primitivedata:CharacterString.encode",
    params={"self": Obj("bacpypes.primitivedata:CharacterString", value=Str(), strEncoding=Int(0, 255), strValue=Bytes()), "tag": AnyTag},
    post={"tag.tagClass": "0", "tag.tagNumber": "7", "tag.tagData": "bytes([self.strEncoding]) + self.strValue",
          "tag.tagLVT": "1 + len(self.strValue)"})

from bacpypes.primitivedata import CharacterString

contract("bacpypes.primitivedata:CharacterString.__init__", name="bacpypes.primitivedata:CharacterString.__init__[copy]",
    params={"self": Obj("bacpypes.primitivedata:CharacterString"),
            "arg": Obj("bacpypes.primitivedata:CharacterString", value=Str(), strEncoding=Int(0, 255), strValue=Bytes())},
    post={"self.value": "arg.value", "self.strEncoding": "arg.strEncoding", "self.strValue": "arg.strValue"},
    modifies=["self.value", "self.strEncoding", "self.strValue"],
    # the clause is about the copy form only: CharacterString(None / str / Tag) call sites are not instances of it (the body is interpreted there)
    applies_when="isinstance(arg, CharacterString)",
    note="a copy carries the character set and the raw octets of its source, so it encodes to the same octets (any character set octet, any string octets)")

contract("bacpypes.primitivedata:Date.encode",
    params={"self": Obj("bacpypes.primitivedata:Date", value=Tuple(Int(), Int(), Int(), Int())), "tag": AnyTag},
    raises=[(ValueError, "not all(0 <= x <= 255 for x in self.value)")],
    post={"tag.tagClass": "0", "tag.tagNumber": "10", "tag.tagData": "bytes(list(self.value))", "tag.tagLVT": "4"})

contract("bacpypes.primitivedata:Date.decode",
    params={"self": Obj("bacpypes.primitivedata:Date", value=Tuple(Int(), Int(), Int(), Int())), "tag": TagObj()},
    raises=[(InvalidTag, "tag.tagClass != 0 or tag.tagNumber != 10 or len(tag.tagData) != 4")],
    post={"self.value": "(tag.tagData[0], tag.tagData[1], tag.tagData[2], tag.tagData[3])"})

contract("bacpypes.primitivedata:Time.encode",
    params={"self": Obj("bacpypes.primitivedata:Time", value=Tuple(Int(), Int(), Int(), Int())), "tag": AnyTag},
    raises=[(ValueError, "not all(0 <= x <= 255 for x in self.value)")],
    post={"tag.tagClass": "0", "tag.tagNumber": "11", "tag.tagData": "bytes(list(self.value))", "tag.tagLVT": "4"})

contract("bacpypes.primitivedata:Time.decode",
    params={"self": Obj("bacpypes.primitivedata:Time", value=Tuple(Int(), Int(), Int(), Int())), "tag": TagObj()},
    raises=[(InvalidTag, "tag.tagClass != 0 or tag.tagNumber != 11 or len(tag.tagData) != 4")],
    post={"self.value": "(tag.tagData[0], tag.tagData[1], tag.tagData[2], tag.tagData[3])"})

# ---------------------------------------------------------------------------
#   Enumerated: decode (numeric result when the number has no name), names
# ---------------------------------------------------------------------------

from bacpypes.primitivedata import ObjectType, Enumerated, Tag
from bacpypes.basetypes import Segmentation

Segmentation()     # an instance exists => its class's translate table has been expanded (done lazily by the constructor)

def _xlate(cls, n):
    """the value an Enumerated of class cls shows for number n: its name when
    the enumeration table has one (the table is data read from the class)"""
    return cls._xlate_table.get(n, n)

def _number(cls, v):
    return cls._xlate_table[v] if isinstance(v, str) else v

contract("bacpypes.primitivedata:Enumerated.decode", name="bacpypes.primitivedata:Enumerated.decode[Segmentation]",
    params={"self": Obj("bacpypes.basetypes:Segmentation", value=Int()), "tag": TagObj()},
    requires=["len(tag.tagData) <= 8"],
    raises=[(InvalidTag, "tag.tagClass != 0 or tag.tagNumber != 9 or len(tag.tagData) == 0")],
    post={"self.value": "_xlate(Segmentation, sp.be_value(tag.tagData, len(tag.tagData)))"},
    applies_when="type(self) is Segmentation")

contract("bacpypes.primitivedata:Enumerated.encode", name="bacpypes.primitivedata:Enumerated.encode[Segmentation name]",
    params={"self": Obj("bacpypes.basetypes:Segmentation", value=OneOf(*sorted(Segmentation.enumerations))), "tag": AnyTag},
    post={"tag.tagClass": "0", "tag.tagNumber": "9", "tag.tagData": "sp.unsigned(_number(Segmentation, self.value))",
          "tag.tagLVT": "len(sp.unsigned(_number(Segmentation, self.value)))"},
    applies_when="type(self) is Segmentation and isinstance(self.value, str)")

# ---------------------------------------------------------------------------
#   BitString: lengths 0..64 (the property's bound) by case split, bits symbolic
# ---------------------------------------------------------------------------

def _bits(n):
    return List(*[Int(0, 1) for _ in range(n)])

BITLEN_QUICK = (0, 1, 2, 3, 7, 8, 9, 15, 16, 17, 24, 31, 32, 33, 63, 64)

contract("bacpypes.primitivedata:BitString.encode",
    params={"self": Obj("bacpypes.primitivedata:BitString", value=OneOf(*[_bits(n) for n in range(0, 65)])), "tag": AnyTag},
    post={"tag.tagClass": "0", "tag.tagNumber": "8", "tag.tagData": "sp.bitstring(self.value)",
          "tag.tagLVT": "1 + (len(self.value) + 7) // 8"},
    note="bounded in structure: bit-string lengths 0..64 (the property's own bound), every bit symbolic")

contract("bacpypes.primitivedata:BitString.decode",
    params={"self": Obj("bacpypes.primitivedata:BitString", value=Const([])), "tag": TagObj(tagData=Bytes(0, 9))},
    requires=["len(tag.tagData) == 0 or tag.tagClass != 0 or tag.tagNumber != 8 or sp.bitstring_content_wf(tag.tagData)"],
    raises=[(InvalidTag, "tag.tagClass != 0 or tag.tagNumber != 8 or len(tag.tagData) == 0")],
    post={"self.value": "sp.bits_of(tag.tagData)"},
    note="bounded in structure: content of 0..9 octets (up to 64 bits)")

# ---------------------------------------------------------------------------
#   Real, Double: the IEEE conversion is struct's (trusted); the plumbing is proved
# ---------------------------------------------------------------------------

contract("bacpypes.primitivedata:Real.encode",
    params={"self": Obj("bacpypes.primitivedata:Real", value=Real()), "tag": AnyTag},
    raises=[(OverflowError, "abs(self.value) >= sp.F32_OVERFLOW")],
    post={"tag.tagClass": "0", "tag.tagNumber": "4", "tag.tagData": "sp.real32(self.value)", "tag.tagLVT": "4"})

contract("bacpypes.primitivedata:Real.decode",
    params={"self": Obj("bacpypes.primitivedata:Real", value=Real()), "tag": TagObj()},
    raises=[(InvalidTag, "tag.tagClass != 0 or tag.tagNumber != 4 or len(tag.tagData) != 4")],
    post={"self.value": "struct.unpack('>f', tag.tagData)[0]"})

contract("bacpypes.primitivedata:Double.encode",
    params={"self": Obj("bacpypes.primitivedata:Double", value=Real()), "tag": AnyTag},
    post={"tag.tagClass": "0", "tag.tagNumber": "5", "tag.tagData": "sp.real64(self.value)", "tag.tagLVT": "8"})

contract("bacpypes.primitivedata:Double.decode",
    params={"self": Obj("bacpypes.primitivedata:Double", value=Real()), "tag": TagObj()},
    raises=[(InvalidTag, "tag.tagClass != 0 or tag.tagNumber != 5 or len(tag.tagData) != 8")],
    post={"self.value": "struct.unpack('>d', tag.tagData)[0]"})

# ---------------------------------------------------------------------------
#   ObjectIdentifier
# ---------------------------------------------------------------------------

_ObjTypeShape = OneOf(Int(0, 1023), *sorted(ObjectType.enumerations))

def _type_number(t):
    return ObjectType.enumerations[t] if isinstance(t, str) else t

def _type_shown(n):
    return ObjectType._xlate_table.get(n, n)

contract("bacpypes.primitivedata:ObjectIdentifier.get_tuple",
    params={"self": Obj("bacpypes.primitivedata:ObjectIdentifier", value=Tuple(_ObjTypeShape, Int()))},
    post={"result": "(_type_number(self.value[0]), self.value[1])"})

contract("bacpypes.primitivedata:ObjectIdentifier.get_long",
    params={"self": Obj("bacpypes.primitivedata:ObjectIdentifier", value=Tuple(_ObjTypeShape, Int()))},
    post={"result": "_type_number(self.value[0]) * 4194304 + self.value[1]"})

_AnyOid = Obj("bacpypes.primitivedata:ObjectIdentifier", value=OneOf(Const(('analogInput', 0)), Tuple(Int(0, 1023), Int())))

contract("bacpypes.primitivedata:ObjectIdentifier.set_long",
    params={"self": _AnyOid, "value": Int(0, 4294967295)},
    post={"self.value": "(_type_shown(value // 4194304), value % 4194304)"})

contract("bacpypes.primitivedata:ObjectIdentifier.set_tuple",
    params={"self": _AnyOid,
            "objType": _ObjTypeShape, "objInstance": Int()},
    raises=[(ValueError, "objInstance < 0 or objInstance > 4194303")],
    post={"self.value": "(_type_shown(_type_number(objType)), objInstance)"})

contract("bacpypes.primitivedata:ObjectIdentifier.encode",
    params={"self": Obj("bacpypes.primitivedata:ObjectIdentifier", value=Tuple(_ObjTypeShape, Int(0, 4194303))), "tag": AnyTag},
    post={"tag.tagClass": "0", "tag.tagNumber": "12",
          "tag.tagData": "sp.object_identifier(_type_number(self.value[0]), self.value[1])", "tag.tagLVT": "4"})

contract("bacpypes.primitivedata:ObjectIdentifier.decode",
    params={"self": _AnyOid, "tag": TagObj()},
    raises=[(InvalidTag, "tag.tagClass != 0 or tag.tagNumber != 12 or len(tag.tagData) != 4")],
    post={"self.value": "(_type_shown(sp.object_identifier_word(tag.tagData) // 4194304), sp.object_identifier_word(tag.tagData) % 4194304)"})
