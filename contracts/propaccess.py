"""
Contracts for property access (C15): bacpypes.object.Property.ReadProperty /
WriteProperty (with Object.ReadProperty / WriteProperty in front), the array
container ArrayOf (constructeddata) and the two read paths of the services
(service.object.read_property_to_any used by ReadPropertyMultiple, and
ReadWritePropertyServices.do_ReadPropertyRequest / do_WritePropertyRequest).

The object is a real bacpypes.object.Object instance (made with
object.__new__, its property table, value table and monitor table set
directly) holding
    level   an Unsigned property
    limit   an Unsigned property, not mutable
    name    a CharacterString property
    slots   an ArrayOf(Unsigned) property with 0..3 elements (symbolic)
    ranges  an ArrayOf(DeviceObjectPropertyReference-like constructed type) property
Values written are symbolic integers (valid or negative = invalid for
Unsigned) or a wrong-typed constant.
"""
from pyvc.contracts import (contract, external, Obj, Int, Bool, Const, OneOf, Fn, Maybe, trace, trace_then)
from contracts.comm import Tok, Token
from bacpypes.object import Object, Property, PropertyError
from bacpypes.primitivedata import Unsigned, CharacterString, Atomic, Null
from bacpypes.constructeddata import ArrayOf, Any
from bacpypes.basetypes import PriorityValue
from bacpypes.errors import ExecutionError, InvalidParameterDatatype
from bacpypes.service import object as SO
from bacpypes.service.object import ReadWritePropertyServices

Slots = ArrayOf(Unsigned)
Ranges = ArrayOf(PriorityValue)
MAXN = 5 if __import__("os").environ.get("VERIF_TIER") == "thorough" else 3        # array lengths covered (structural bound)

def TheObject(monitored=False):
    def build(b, name):
        o = object.__new__(Object)
        props = {
            'level': Property('level', Unsigned, default=0, optional=False, mutable=True),
            'limit': Property('limit', Unsigned, default=0, optional=False, mutable=False),
            'name': Property('name', CharacterString, default='', optional=True, mutable=True),
            'slots': Property('slots', Slots, optional=True, mutable=True),
            'ranges': Property('ranges', Ranges, optional=True, mutable=True),
        }
        n = OneOf(*range(MAXN + 1)).build(b, name + '.nslots')
        arr = object.__new__(Slots)
        arr.value = [n] + [Int(0, 65535).build(b, '%s.slot%d' % (name, i + 1)) for i in range(n)]
        rng = object.__new__(Ranges)
        rng.value = [2, PriorityValue(null=()), PriorityValue(null=())]
        values = {'level': Int(0, 65535).build(b, name + '.level'), 'limit': Int(0, 65535).build(b, name + '.limit'), 'name': 'abc',
                  'slots': arr, 'ranges': rng}
        o.__dict__.update(_properties=props, _values=values, _property_monitors={}, _app=None)
        b.built[name] = o
        return o
    return Fn(build)

def view(o):
    """everything a client can read: scalar values and the array contents"""
    return (o._values['level'], o._values['limit'], o._values['name'], list(o._values['slots'].value), len(o._values['ranges'].value))

# -- the array container ---------------------------------------------------------------------------------------------------------

def SlotsArr():
    def build(b, name):
        n = OneOf(*range(MAXN + 1)).build(b, name + '.n')
        arr = object.__new__(Slots)
        arr.value = [n] + [Int(0, 65535).build(b, '%s.e%d' % (name, i + 1)) for i in range(n)]
        return arr
    return Fn(build)

contract("bacpypes.constructeddata:ArrayOf.__getitem__", resolver=lambda: Slots.__getitem__, name="bacpypes.constructeddata:ArrayOf(Unsigned).__getitem__",
    params={"self": SlotsArr(), "item": Int()},
    raises=[(IndexError, "item < 0 or item > self.value[0]")],
    post={"result": "self.value[item]"},
    note="index 0 is the length, 1..n the elements, anything else IndexError (no wrap-around)")

def set_ok(arr, item, value, old):
    n = old[0]
    if item == 0:
        new = arr.value
        return (new[0] == value and len(new) == value + 1 and all(new[i] == old[i] for i in range(1, min(n, value) + 1))
                and all(new[i] == 0 for i in range(n + 1, value + 1)))
    return arr.value == [old[i] if i != item else value for i in range(len(old))]

contract("bacpypes.constructeddata:ArrayOf.__setitem__", resolver=lambda: Slots.__setitem__, name="bacpypes.constructeddata:ArrayOf(Unsigned).__setitem__[element]",
    params={"self": SlotsArr(), "item": Int(), "value": Int(0, 65535)},
    requires=["item != 0"],
    raises=[(IndexError, "item < 0 or item > self.value[0]")],
    ensures=["set_ok(self, item, value, old(list(self.value)))"],
    unchanged_on_raise=["list(self.value)"],
    modifies=["self.value", "self.value[:]"],
    note="1..n replaces exactly that element, anything else is refused and nothing changes")

contract("bacpypes.constructeddata:ArrayOf.__setitem__", resolver=lambda: Slots.__setitem__, name="bacpypes.constructeddata:ArrayOf(Unsigned).__setitem__[length]",
    params={"self": SlotsArr(), "item": Const(0), "value": OneOf(0, 1, 2, 3, 4, 5)},
    ensures=["set_ok(self, item, value, old(list(self.value)))"],
    modifies=["self.value", "self.value[:]"],
    note="writing index 0 resizes: leading elements kept, new ones are the default; lengths 0..3 resized to 0..5")

def RangesArr():
    def build(b, name):
        n = OneOf(0, 1, 2).build(b, name + '.n')
        arr = object.__new__(Ranges)
        arr.value = [n] + [PriorityValue(null=()) for i in range(n)]
        return arr
    return Fn(build)

def grown_ok(arr, new_length, old):
    v = arr.value
    n = old[0]
    if not (v[0] == new_length and len(v) == new_length + 1 and all(v[i] is old[i] for i in range(1, min(n, new_length) + 1))):
        return False
    fresh = v[n + 1:]
    # every new slot holds its own element: changing one in place must not change another
    return (all(isinstance(x, PriorityValue) for x in fresh) and all(fresh[i] is not fresh[j] for i in range(len(fresh)) for j in range(i + 1, len(fresh)))
            and all(all(x is not o for o in old[1:]) for x in fresh))

contract("bacpypes.constructeddata:ArrayOf.fix_length", resolver=lambda: Ranges.fix_length, name="bacpypes.constructeddata:ArrayOf(PriorityValue).fix_length",
    params={"self": RangesArr(), "new_length": OneOf(0, 1, 2, 3, 4)},
    ensures=["grown_ok(self, new_length, old(list(self.value)))"],
    modifies=["self.value", "self.value[:]"],
    note="arrays of a constructed element type, lengths 0..2 resized to 0..4")

# -- Property.ReadProperty ------------------------------------------------------------------------------------------------------------

def is_exec_error(code):
    return code

contract("bacpypes.object:Object.ReadProperty", name="bacpypes.object:Object.ReadProperty[array]",
    params={"self": TheObject(), "propid": Const('slots'), "arrayIndex": Maybe(Int())},
    raises=[(ExecutionError, "arrayIndex is not None and (arrayIndex < 0 or arrayIndex > self._values['slots'].value[0])")],
    raise_ensures=["exc.errorClass == 'property' and exc.errorCode == 'invalidArrayIndex'"],
    post={"result": "self._values['slots'] if arrayIndex is None else self._values['slots'].value[arrayIndex]"},
    ensures=["view(self) == old(view(self))"], modifies=[])

contract("bacpypes.object:Object.ReadProperty", name="bacpypes.object:Object.ReadProperty[scalar]",
    params={"self": TheObject(), "propid": OneOf('level', 'limit', 'name'), "arrayIndex": Maybe(Int())},
    raises=[(ExecutionError, "arrayIndex is not None")],
    raise_ensures=["exc.errorClass == 'property' and exc.errorCode == 'propertyIsNotAnArray'"],
    post={"result": "self._values[propid]"},
    ensures=["view(self) == old(view(self))"], modifies=[])

contract("bacpypes.object:Object.ReadProperty", name="bacpypes.object:Object.ReadProperty[unknown]",
    params={"self": TheObject(), "propid": Const('nonesuch'), "arrayIndex": Maybe(Int())},
    raises=[(PropertyError, "True")], ensures=[], modifies=[], applies_when="propid == 'nonesuch'")

# -- Property.WriteProperty ---------------------------------------------------------------------------------------------------------------

def WrittenValue():
    return OneOf(Int(-5, 70000), Const('text'), Const(None))

def valid_unsigned(v):
    return isinstance(v, int) and not isinstance(v, bool) and v >= 0

def write_scalar_ok(o, value, old):
    return view(o) == (value,) + old[1:]

contract("bacpypes.object:Object.WriteProperty", name="bacpypes.object:Object.WriteProperty[level]",
    params={"self": TheObject(), "propid": Const('level'), "value": WrittenValue(), "arrayIndex": Const(None), "priority": Maybe(Int(1, 16)), "direct": Const(False)},
    raises=[(InvalidParameterDatatype, "value is not None and not valid_unsigned(value)"), (ValueError, "value is None")],
    ensures=["write_scalar_ok(self, value, old(view(self)))",
             "self.ReadProperty('level') == value"],            # what was acknowledged is what is read back
    unchanged_on_raise=["view(self)"],
    modifies=["self._values"],
    note="a valid value is stored and read back; a wrong-typed or missing one is refused and nothing changes")

contract("bacpypes.object:Object.WriteProperty", name="bacpypes.object:Object.WriteProperty[limit, read-only]",
    params={"self": TheObject(), "propid": Const('limit'), "value": WrittenValue(), "arrayIndex": Const(None), "priority": Const(None), "direct": Const(False)},
    raises=[(ExecutionError, "value is not None"), (ValueError, "value is None")],
    raise_ensures=["not isinstance(exc, ExecutionError) or (exc.errorClass == 'property' and exc.errorCode == 'writeAccessDenied')"],
    ensures=[], unchanged_on_raise=["view(self)"], modifies=[])

contract("bacpypes.object:Object.WriteProperty", name="bacpypes.object:Object.WriteProperty[level, with index]",
    params={"self": TheObject(), "propid": Const('level'), "value": Int(0, 100), "arrayIndex": Int(), "priority": Const(None), "direct": Const(False)},
    raises=[(ExecutionError, "arrayIndex != 0 or True")],
    raise_ensures=["exc.errorClass == 'property' and exc.errorCode == 'propertyIsNotAnArray'"],
    ensures=[], unchanged_on_raise=["view(self)"], modifies=[])

def write_element_ok(o, idx, value, old):
    slots = old[3]
    return view(o) == old[:3] + ([slots[i] if i != idx else value for i in range(len(slots))],) + old[4:]

contract("bacpypes.object:Object.WriteProperty", name="bacpypes.object:Object.WriteProperty[slots element]",
    params={"self": TheObject(), "propid": Const('slots'), "value": OneOf(Int(-5, 70000), Const('text')), "arrayIndex": Int(), "priority": Const(None),
            "direct": Const(False)},
    requires=["arrayIndex != 0"],
    raises=[(InvalidParameterDatatype, "not valid_unsigned(value)"),
            (ExecutionError, "valid_unsigned(value) and (arrayIndex < 0 or arrayIndex > self._values['slots'].value[0])")],
    raise_ensures=["not isinstance(exc, ExecutionError) or (exc.errorClass == 'property' and exc.errorCode == 'invalidArrayIndex')"],
    ensures=["write_element_ok(self, arrayIndex, value, old(view(self)))",
             "self.ReadProperty('slots', arrayIndex) == value"],
    unchanged_on_raise=["view(self)"],
    modifies=["self._values['slots'].value[:]"],
    note="exactly the addressed element changes; bad index / wrong type are refused with the matching error and nothing changes")

# -- the two read paths of the services: ReadPropertyMultiple answers what ReadProperty answers ---------------------------------------------

class GhostAny(object):
    """stands for constructeddata.Any in the service code: keeps the value it is asked to carry"""
    def __init__(self, *args):
        self.carried = list(args)
    def cast_in(self, value):
        self.carried.append(value)

def carried_ok(any_, o, propid, idx):
    """the typed value handed to Any for (property, index): the whole value, the length as Unsigned, or the element as its datatype"""
    if len(any_.carried) != 1:
        return False
    v = any_.carried[0]
    if propid == 'slots':
        arr = o._values['slots']
        if idx is None:
            return v is arr
        if idx == 0:
            return type(v) is Unsigned and v.value == arr.value[0]
        return type(v) is Unsigned and v.value == arr.value[idx]
    if propid == 'name':
        return type(v) is CharacterString and v.value == o._values['name']
    return type(v) is Unsigned and v.value == o._values[propid]

_BAD_INDEX = "propertyArrayIndex is not None and (propid != 'slots' or propertyArrayIndex < 0 or propertyArrayIndex > obj._values['slots'].value[0])"

contract("bacpypes.service.object:read_property_to_any",
    params={"obj": TheObject(), "propertyIdentifier": OneOf('level', 'name', 'slots'), "propertyArrayIndex": Maybe(Int())},
    globals_={"Any": ("bacpypes.service.object", GhostAny)},
    raises=[(ExecutionError, _BAD_INDEX.replace("propid", "propertyIdentifier"))],
    ensures=["carried_ok(result, obj, propertyIdentifier, propertyArrayIndex)", "view(obj) == old(view(obj))"],
    modifies=[],
    note="the ReadPropertyMultiple path: every index class of an array property, scalars with and without index")

class GhostServices(ReadWritePropertyServices):
    def __init__(self):
        pass
    def get_object_id(self, objid):
        return self.ghost_objects.get(objid)
    def response(self, apdu):
        ghost_response(apdu)

def ghost_response(apdu):
    """ghost: the answer handed to the stack"""

external("contracts.propaccess:ghost_response", "answers", method=False)

OBJ_ID = ('analogValue', 1)

def Services():
    def build(b, name):
        s = GhostServices()
        s.localDevice = None
        o = TheObject().build(b, name + '.obj')
        s.ghost_objects = {OBJ_ID: o}
        s.ghost_obj = o
        return s
    return Fn(build)

def ReadReq():
    return Obj("bacpypes.apdu:ReadPropertyRequest", objectIdentifier=OneOf(OBJ_ID, ('analogValue', 2)), propertyIdentifier=OneOf('level', 'name', 'slots', 'nonesuch'),
               propertyArrayIndex=Maybe(Int()), apduInvokeID=Int(0, 255), apduService=Const(12), apduType=Const(0), pduSource=Token(), pduDestination=Token(),
               pduUserData=Token(), pduExpectingReply=Const(1), pduNetworkPriority=Const(0))

def read_answer_ok(s, apdu, answers):
    if len(answers) != 1:
        return False
    r = answers[0][0]
    return (r.apduInvokeID == apdu.apduInvokeID and r.objectIdentifier == apdu.objectIdentifier and r.propertyIdentifier == apdu.propertyIdentifier
            and r.propertyArrayIndex == apdu.propertyArrayIndex
            and carried_ok(r.propertyValue, s.ghost_obj, apdu.propertyIdentifier, apdu.propertyArrayIndex))

def read_error(exc, apdu, o):
    """the matching error for a refused read"""
    if apdu.objectIdentifier != OBJ_ID:
        return (exc.errorClass, exc.errorCode) == ('object', 'unknownObject')
    if apdu.propertyIdentifier == 'nonesuch':
        return (exc.errorClass, exc.errorCode) == ('property', 'unknownProperty')
    if apdu.propertyIdentifier != 'slots':
        return (exc.errorClass, exc.errorCode) == ('property', 'propertyIsNotAnArray')
    return (exc.errorClass, exc.errorCode) == ('property', 'invalidArrayIndex')

contract("bacpypes.service.object:ReadWritePropertyServices.do_ReadPropertyRequest",
    params={"self": Services(), "apdu": ReadReq()},
    globals_={"Any": ("bacpypes.service.object", GhostAny)},
    raises=[(ExecutionError, "apdu.objectIdentifier != OBJ_ID or apdu.propertyIdentifier == 'nonesuch' or (apdu.propertyArrayIndex is not None and "
                             "(apdu.propertyIdentifier != 'slots' or apdu.propertyArrayIndex < 0 or apdu.propertyArrayIndex > self.ghost_obj._values['slots'].value[0]))")],
    raise_ensures=["read_error(exc, apdu, self.ghost_obj)", "len(trace('answers')) == 0"],
    ensures=["read_answer_ok(self, apdu, trace('answers'))", "view(self.ghost_obj) == old(view(self.ghost_obj))"],
    modifies=[],
    note="the ReadProperty path: same typed value as read_property_to_any for every (property, index), the matching error otherwise")

# -- WriteProperty over the wire: acknowledged <=> stored, refused => nothing changes ---------------------------------------------------------

class GhostAnyIn(object):
    """the Any of a WriteProperty request: cast_out hands over the value it carries (decoding of the parameter is C03)"""
    def __init__(self, value):
        self.carried = value
    def is_application_class_null(self):
        return False
    def cast_out(self, datatype):
        return self.carried

def WriteReq():
    def build(b, name):
        req = Obj("bacpypes.apdu:WritePropertyRequest", objectIdentifier=OneOf(OBJ_ID, ('analogValue', 2)), propertyIdentifier=OneOf('level', 'limit', 'slots', 'nonesuch'),
                  propertyArrayIndex=Maybe(Int()), priority=Maybe(Int(1, 16)), apduInvokeID=Int(0, 255), apduService=Const(15), apduType=Const(0), pduSource=Token(),
                  pduDestination=Token(), pduUserData=Token(), pduExpectingReply=Const(1), pduNetworkPriority=Const(0), propertyValue=Const(None)).build(b, name)
        req.propertyValue = GhostAnyIn(OneOf(Int(-5, 70000), Const('text')).build(b, name + '.value'))
        return req
    return Fn(build)

def write_refused(apdu, o):
    p, i, v = apdu.propertyIdentifier, apdu.propertyArrayIndex, apdu.propertyValue.carried
    if apdu.objectIdentifier != OBJ_ID or p == 'nonesuch' or p == 'limit':
        return True
    if p == 'level':
        return i is not None or not valid_unsigned(v)
    # slots: whole-array replacement needs a list; element / length writes need a valid value and index
    if i is None:
        return True
    if not valid_unsigned(v):
        return True
    return i < 0 or i > o._values['slots'].value[0] or i == 0

def write_answer_ok(s, apdu, answers, old):
    o = s.ghost_obj
    if not (len(answers) == 1 and answers[0][0].apduType == 2 and answers[0][0].apduInvokeID == apdu.apduInvokeID):
        return False
    p, i, v = apdu.propertyIdentifier, apdu.propertyArrayIndex, apdu.propertyValue.carried
    if p == 'level':
        return view(o) == (v,) + old[1:] and o.ReadProperty('level') == v
    return write_element_ok(o, i, v, old) and o.ReadProperty('slots', i) == v

contract("bacpypes.service.object:ReadWritePropertyServices.do_WritePropertyRequest",
    params={"self": Services(), "apdu": WriteReq()},
    requires=["not (apdu.propertyIdentifier == 'slots' and (apdu.propertyArrayIndex == 0 or apdu.propertyArrayIndex is None))"],
    raises=[(Exception, "write_refused(apdu, self.ghost_obj)")],
    raise_ensures=["isinstance(exc, (ExecutionError, InvalidParameterDatatype))", "len(trace('answers')) == 0"],
    ensures=["write_answer_ok(self, apdu, trace('answers'), old(view(self.ghost_obj)))"],
    unchanged_on_raise=["view(self.ghost_obj)"],
    modifies=["self.ghost_obj._values", "self.ghost_obj._values['slots'].value[:]"],
    note="an acknowledged write is stored and read back; a refused one (unknown object / property, read-only, wrong type, bad index, index on a scalar) raises the error "
         "the application layer turns into the Error / Reject reply and leaves every property unchanged; array length writes are covered by ArrayOf.__setitem__[length]; "
         "whole-array replacement depends on Any.cast_out building the array (C03) and is not in this unit")

# -- ReadPropertyMultiple: per reference exactly what ReadProperty answers, or the embedded error; the three selectors ---------------------------

from bacpypes.service.object import ReadWritePropertyMultipleServices
from bacpypes.basetypes import PropertyIdentifier, PropertyReference
from bacpypes.apdu import ReadAccessSpecification, ReadPropertyMultipleACK

PropList = Slots      # element type irrelevant here (the real one, an enumeration, initialises class tables on first use: outside the subset)

def TheObjectRPM():
    """the object of the other units plus a propertyList property (never reported by the selectors) and an optional property that may be absent"""
    def build(b, name):
        o = TheObject().build(b, name)
        o._properties['propertyList'] = Property('propertyList', PropList, optional=False, mutable=False)
        pl = object.__new__(PropList)
        pl.value = [2, 85, 87]
        o._values['propertyList'] = pl
        o._values['name'] = OneOf('abc', None).build(b, name + '.name')
        return o
    return Fn(build)

def expected_error(o, propid, idx):
    """(class, code) with which ReadProperty refuses (object, property, index); None when it answers with a value"""
    if o is None:
        return ('object', 'unknownObject')
    if propid not in o._properties:
        return ('property', 'unknownProperty')
    if idx is not None and propid not in ('slots', 'ranges', 'propertyList'):
        return ('property', 'propertyIsNotAnArray')
    if o._values[propid] is None:
        return ('property', 'unknownProperty')
    if idx is not None and (idx < 0 or idx > o._values[propid].value[0]):
        return ('property', 'invalidArrayIndex')
    return None

def carried_any_ok(any_, o, propid, idx):
    """carried_ok for every property of the RPM object"""
    if propid in ('ranges', 'propertyList'):
        if len(any_.carried) != 1:
            return False
        v = any_.carried[0]
        arr = o._values[propid]
        if idx is None:
            return v is arr
        if idx == 0:
            return type(v) is Unsigned and v.value == arr.value[0]
        if propid == 'ranges':
            return v is arr.value[idx]
        return type(v) is Unsigned and v.value == arr.value[idx]
    return carried_ok(any_, o, propid, idx)

def view_or_none(o):
    return None if o is None else view(o)

def element_ok(el, o, propid, idx):
    """one result element: the reference it answers, and the value ReadProperty gives or the error it refuses with -- never both, never neither"""
    if not (el.propertyIdentifier == propid and ((el.propertyArrayIndex is None) if idx is None else (el.propertyArrayIndex == idx))):
        return False
    rr = el.readResult
    want = expected_error(o, propid, idx)
    if want is None:
        return rr.propertyAccessError is None and rr.propertyValue is not None and carried_any_ok(rr.propertyValue, o, propid, idx)
    e = rr.propertyAccessError
    return rr.propertyValue is None and e is not None and (e.errorClass, e.errorCode) == want

contract("bacpypes.service.object:read_property_to_result_element",
    params={"obj": OneOf(TheObjectRPM(), Const(None)), "propertyIdentifier": OneOf('level', 'limit', 'name', 'slots', 'ranges', 'propertyList', 'nonesuch'),
            "propertyArrayIndex": Maybe(Int())},
    globals_={"Any": ("bacpypes.service.object", GhostAny)},
    ensures=["element_ok(result, obj, propertyIdentifier, propertyArrayIndex)", "view_or_none(obj) == old(view_or_none(obj))"],
    modifies=[],
    note="never raises: unknown object / property, absent optional property, index on a scalar, index outside 0..n become the embedded error ReadProperty would answer with")

class GhostMultiServices(ReadWritePropertyMultipleServices):
    def __init__(self):
        pass
    def get_object_id(self, objid):
        return self.ghost_objects.get(objid)
    def response(self, apdu):
        ghost_response(apdu)

DEV_ID = ('device', 7)
WILD = ('device', 4194303)
SELECTORS = ('all', 'required', 'optional')

def MultiServices(with_device=True):
    def build(b, name):
        s = GhostMultiServices()
        o = TheObjectRPM().build(b, name + '.obj')
        s.ghost_objects = {OBJ_ID: o}
        s.ghost_obj = o
        if with_device:
            # the device object: what the wildcard instance refers to
            d = TheObject().build(b, name + '.dev')
            d.__dict__['objectIdentifier'] = DEV_ID
            s.ghost_objects[DEV_ID] = d
            s.localDevice = d
        else:
            s.localDevice = None
        return s
    return Fn(build)

def Ref(*props, **kw):
    indexed = kw.get('indexed', True)
    def build(b, name):
        r = PropertyReference()
        r.propertyIdentifier = OneOf(*props).build(b, name + '.propertyIdentifier')
        r.propertyArrayIndex = Maybe(Int()).build(b, name + '.propertyArrayIndex') if indexed else None
        return r
    return Fn(build)

def Spec(objids, *refs):
    def build(b, name):
        sp = ReadAccessSpecification()
        sp.objectIdentifier = OneOf(*objids).build(b, name + '.objectIdentifier')
        sp.listOfPropertyReferences = [r.build(b, '%s.ref%d' % (name, i)) for i, r in enumerate(refs)]
        return sp
    return Fn(build)

def MultiReq(*specs):
    def build(b, name):
        req = Obj("bacpypes.apdu:ReadPropertyMultipleRequest", apduInvokeID=Int(0, 255), apduService=Const(14), apduType=Const(0), pduSource=Token(),
                  pduDestination=Token(), pduUserData=Token(), pduExpectingReply=Const(1), pduNetworkPriority=Const(0), listOfReadAccessSpecs=Const(None)).build(b, name)
        req.listOfReadAccessSpecs = [s.build(b, '%s.spec%d' % (name, i)) for i, s in enumerate(specs)]
        return req
    return Fn(build)

def selected(o, selector):
    """the properties a selector stands for: all of the object's table but propertyList, the required ones, the optional ones -- in table order"""
    return [p for p, pr in o._properties.items()
            if p != 'propertyList' and (selector == 'all' or (selector == 'required' and not pr.optional) or (selector == 'optional' and pr.optional))]

def expected_refs(o, ref):
    """the (property, index) pairs one reference of the request must be answered with"""
    p, i = ref.propertyIdentifier, ref.propertyArrayIndex
    if p not in SELECTORS or o is None:
        return [(p, i)]
    # a selector reports every property of its class that exists; absent ones are left out
    return [(q, i) for q in selected(o, p) if expected_error(o, q, i) != ('property', 'unknownProperty')]

def multi_answer_ok(s, apdu, answers):
    if len(answers) != 1:
        return False
    r = answers[0][0]
    if not (type(r) is ReadPropertyMultipleACK and r.apduInvokeID == apdu.apduInvokeID and len(r.listOfReadAccessResults) == len(apdu.listOfReadAccessSpecs)):
        return False
    for spec, res in zip(apdu.listOfReadAccessSpecs, r.listOfReadAccessResults):
        objid = spec.objectIdentifier
        if objid == WILD and s.localDevice is not None:
            objid = DEV_ID
        if res.objectIdentifier != objid:
            return False
        o = s.ghost_objects.get(objid)
        want = []
        for ref in spec.listOfPropertyReferences:
            want.extend(expected_refs(o, ref))
        got = res.listOfResults
        if len(got) != len(want):
            return False
        for el, (p, i) in zip(got, want):
            if not element_ok(el, o, p, i):
                return False
    return True

_RPM = dict(globals_={"Any": ("bacpypes.service.object", GhostAny)},
            ensures=["multi_answer_ok(self, apdu, trace('answers'))", "view(self.ghost_obj) == old(view(self.ghost_obj))"], modifies=[])

contract("bacpypes.service.object:ReadWritePropertyMultipleServices.do_ReadPropertyMultipleRequest",
    name="bacpypes.service.object:ReadWritePropertyMultipleServices.do_ReadPropertyMultipleRequest[one reference]",
    params={"self": MultiServices(with_device=False),
            "apdu": MultiReq(Spec((OBJ_ID, ('analogValue', 2)), Ref('level', 'name', 'slots', 'ranges', 'nonesuch', 'all', 'required', 'optional')))},
    note="one reference of any kind (property with any index, unknown property, the three selectors) to a known or unknown object: exactly one ack with the request's "
         "invoke ID, per selected property what ReadProperty answers or the embedded error; absent optional properties are left out of a selector's answer, propertyList too",
    **_RPM)

contract("bacpypes.service.object:ReadWritePropertyMultipleServices.do_ReadPropertyMultipleRequest",
    name="bacpypes.service.object:ReadWritePropertyMultipleServices.do_ReadPropertyMultipleRequest[two specifications, wildcard device]",
    params={"self": MultiServices(with_device=True),
            "apdu": MultiReq(Spec((OBJ_ID,), Ref('slots'), Ref('nonesuch', 'required', indexed=False)),
                             Spec((WILD, ('analogValue', 2)), Ref('limit', 'optional', indexed=False)))},
    note="results keep the order of the request (specifications, references within one, properties within a selector), one result list per specification, "
         "the wildcard device instance is answered under the device's own identifier, an error in one reference does not disturb its neighbours",
    **_RPM)
