"""
Contracts for the BACnet/IP broadcast management of bacpypes.bvllservice (C13):
BIPBBMD (distribution of broadcasts, foreign device table and its ageing) and
BIPForeign (registration, renewal, expiry, what is accepted while registered).

Objects are real BIPBBMD / BIPForeign instances.  Tables are bounded in
structure (see the notes); addresses in them are concrete and distinct, TTLs,
remaining times and payloads are symbolic.  Downstream (Client.request),
upstream (Server.response) and the service access point are ghost-traced
externals; a PDU object is re-addressed and sent several times by the code, so
the frames are read through trace_then (fields at the moment of the call).
Timers are the trusted summaries of install_task / suspend_task (C14).
"""
from pyvc.contracts import (contract, external, Obj, Bytes, Int, Bool, Real, Const, OneOf, Fn, Maybe, trace, trace_then, trace_kw, native_stub)
from contracts.comm import Tok, Token
from bacpypes.bvllservice import BIPBBMD, BIPForeign
from bacpypes.bvll import (FDTEntry, ForwardedNPDU, OriginalBroadcastNPDU, OriginalUnicastNPDU, DistributeBroadcastToNetwork, Result,
                           RegisterForeignDevice)
from bacpypes.pdu import Address, LocalBroadcast, PDU
from bacpypes.task import OneShotDeleteTask

external("bacpypes.comm:Client.request", "to_net")
external("bacpypes.comm:Server.response", "to_up")
external("bacpypes.comm:ServiceAccessPoint.sap_response", "to_sap")

def due(when, delta):
    return ('at', when) if when is not None else ('now+', delta)

# the summaries speak of any task (the BIPForeign itself is a OneShotTask, its timeout a OneShotDeleteTask): declared for _Task
contract("bacpypes.task:_Task.install_task", name="bacpypes.task:_Task.install_task[summary, bvll]",
    params={"self": Obj("bacpypes.task:_Task", taskTime=Token(), isScheduled=Bool()), "when": Maybe(Int(0)), "delta": Maybe(Int(0))},
    post={"self.isScheduled": "True", "self.taskTime": "due(when, delta)"},
    trusted=True, note="summary of the C14 contracts: installing (re)schedules the task at the given time, replacing an earlier schedule")

contract("bacpypes.task:_Task.suspend_task", name="bacpypes.task:_Task.suspend_task[summary, bvll]",
    params={"self": Obj("bacpypes.task:_Task", taskTime=Token(), isScheduled=Bool())},
    post={"self.isScheduled": "False"},
    trusted=True, note="summary of the C14 contracts: suspending unschedules the task")

def _stub_install(self, when=None, delta=None):
    self.isScheduled = True
    self.taskTime = due(when, delta)

def _stub_suspend(self):
    self.isScheduled = False

native_stub("bacpypes.task:_Task.install_task", _stub_install)
native_stub("bacpypes.task:_Task.suspend_task", _stub_suspend)

ME = Address("192.168.1.1/24")
P1, P2 = Address("192.168.2.1/24"), Address("192.168.3.1/24")
THOROUGH = __import__("os").environ.get("VERIF_TIER") == "thorough"
F = [Address("10.0.0.%d" % i) for i in (1, 2, 3, 4)]
LOCAL = Address("192.168.1.7")
STRANGER = Address("10.9.9.9")
BDTS = ([], [ME, P1], [P1, ME, P2], [P1, P2])

def BBMD(max_fdt=None):
    def build(b, name):
        o = object.__new__(BIPBBMD)
        o.__dict__.update(serviceID=None, serviceElement=Tok('bse'), clientID=None, clientPeer=Tok('lower'), serverID=None,
                          serverPeer=OneOf(Tok('upper'), None).build(b, name + '.serverPeer'), bbmdAddress=ME,
                          bbmdBDT=list(BDTS[_choice(b, name + '.bdt', len(BDTS))]),
                          bbmdFDT=[], taskInterval=1000.0, taskTime=None, isScheduled=True)
        n = _choice(b, name + '.nfdt', (max_fdt if max_fdt is not None else (4 if THOROUGH else 3)) + 1)
        for i in range(n):
            e = FDTEntry()
            e.fdAddress = F[i]
            e.fdTTL = Int(0, 65535).build(b, '%s.fdt%d.ttl' % (name, i))
            e.fdRemain = Int(1, 65540).build(b, '%s.fdt%d.remain' % (name, i))
            o.bbmdFDT.append(e)
        b.built[name] = o
        return o
    return Fn(build)

def _choice(b, name, n):
    return OneOf(*range(n)).build(b, name)

def directed(a):
    return a.addrBroadcastTuple

def is_local_broadcast(a):
    return a is not None and a.addrType == Address.localBroadcastAddr

def BVL(cls, src, dest, **fields):
    f = dict(pduSource=src, pduDestination=dest, pduUserData=Token(), pduData=Bytes(0, 8, mutable=True), pduExpectingReply=Const(0),
             pduNetworkPriority=Const(0), bvlciType=Const(0x81), bvlciFunction=Const(getattr(__import__('bacpypes.bvll', fromlist=[cls]), cls).messageType),
             bvlciLength=Const(None))
    f.update(fields)
    return Obj("bacpypes.bvll:" + cls, **f)

def fdt_view(bbmd):
    return [(e.fdAddress, e.fdTTL, e.fdRemain) for e in bbmd.bbmdFDT]

def same_addr(a, b):
    return a == b

def forwarded_ok(frames, dests, originator, data):
    """exactly these frames, in order: a Forwarded-NPDU naming the true originator, carrying the same octets, one per destination"""
    if len(frames) != len(dests):
        return False
    for i in range(len(dests)):
        p = frames[i][0]
        if not (type(p) is ForwardedNPDU and p.bvlciAddress == originator and p.pduData == data):
            return False
        d = dests[i]
        if isinstance(d, str):
            if not is_local_broadcast(p.pduDestination):
                return False
        elif isinstance(d, tuple):
            if p.pduDestination.addrTuple != d:
                return False
        elif not p.pduDestination == d:
            return False
    return True

def up_ok(bbmd, to_up, source, data):
    """handed to the network layer exactly once (when there is one) as a local broadcast from the true originator"""
    if bbmd.serverPeer is None:
        return len(to_up) == 0
    return (len(to_up) == 1 and to_up[0][0].pduSource == source and is_local_broadcast(to_up[0][0].pduDestination)
            and to_up[0][0].pduData == data)

# -- a broadcast heard on the BBMD's own subnet ------------------------------------------------------------------------------

def original_broadcast_ok(bbmd, pdu, to_net, to_up, data):
    dests = [directed(p) for p in bbmd.bbmdBDT if not p == bbmd.bbmdAddress] + [e.fdAddress for e in bbmd.bbmdFDT]
    return up_ok(bbmd, to_up, pdu.pduSource, data) and forwarded_ok(to_net, dests, pdu.pduSource, data)

contract("bacpypes.bvllservice:BIPBBMD.confirmation", name="bacpypes.bvllservice:BIPBBMD.confirmation[OriginalBroadcastNPDU]",
    params={"self": BBMD(), "pdu": BVL("OriginalBroadcastNPDU", Const(LOCAL), Const(LocalBroadcast()))},
    ensures=["original_broadcast_ok(self, pdu, trace_then('to_net'), trace_then('to_up'), old(bytes(pdu.pduData)))",
             "fdt_view(self) == old(fdt_view(self))"],
    modifies=[], max_paths=20000,
    note="bounded in structure: distribution tables [], [me, P1], [P1, me, P2], [P1, P2]; 0..3 registered foreign devices")

# -- a broadcast forwarded by a peer BBMD ----------------------------------------------------------------------------------------

def forwarded_in_ok(bbmd, pdu, to_net, to_up, data, unicast_to_me):
    listed = any(p == bbmd.bbmdAddress for p in bbmd.bbmdBDT)
    dests = (['local-broadcast'] if (unicast_to_me and listed) else []) + [e.fdAddress for e in bbmd.bbmdFDT]
    # never on to the other BBMDs: they got it from the originator's BBMD
    return up_ok(bbmd, to_up, pdu.bvlciAddress, data) and forwarded_ok(to_net, dests, pdu.bvlciAddress, data)

for _uni in (True, False):
    contract("bacpypes.bvllservice:BIPBBMD.confirmation", name="bacpypes.bvllservice:BIPBBMD.confirmation[ForwardedNPDU, %s]" % ("unicast to me" if _uni else "directed broadcast"),
        params={"self": BBMD(), "pdu": BVL("ForwardedNPDU", Const(P1), Const(ME if _uni else LocalBroadcast()), bvlciAddress=Const(Address("192.168.2.9")))},
        ensures=["forwarded_in_ok(self, pdu, trace_then('to_net'), trace_then('to_up'), old(bytes(pdu.pduData)), %r)" % _uni,
                 "fdt_view(self) == old(fdt_view(self))"],
        modifies=[], max_paths=20000)

# -- a broadcast handed in by a foreign device --------------------------------------------------------------------------------------

def distribute_ok(bbmd, pdu, to_net, to_up, data):
    registered = any(e.fdAddress == pdu.pduSource for e in bbmd.bbmdFDT)
    if not registered:
        # not (or no longer) registered: not served, told so
        return (len(to_up) == 0 and len(to_net) == 1 and type(to_net[0][0]) is Result and to_net[0][0].bvlciResultCode == 0x0060
                and to_net[0][0].pduDestination == pdu.pduSource)
    dests = ([('local-broadcast' if p == bbmd.bbmdAddress else directed(p)) for p in bbmd.bbmdBDT]
             + [e.fdAddress for e in bbmd.bbmdFDT if not e.fdAddress == pdu.pduSource])          # everybody else, never back to the sender
    return up_ok(bbmd, to_up, pdu.pduSource, data) and forwarded_ok(to_net, dests, pdu.pduSource, data)

contract("bacpypes.bvllservice:BIPBBMD.confirmation", name="bacpypes.bvllservice:BIPBBMD.confirmation[DistributeBroadcastToNetwork]",
    params={"self": BBMD(), "pdu": BVL("DistributeBroadcastToNetwork", OneOf(F[0], F[1], F[2], STRANGER), Const(ME))},
    ensures=["distribute_ok(self, pdu, trace_then('to_net'), trace_then('to_up'), old(bytes(pdu.pduData)))",
             "fdt_view(self) == old(fdt_view(self))"],
    modifies=[], max_paths=20000)

# -- the foreign device table ------------------------------------------------------------------------------------------------------------

GRACE = 5

def registered_ok(bbmd, addr, ttl, old_view):
    now = fdt_view(bbmd)
    was = [i for i in range(len(old_view)) if old_view[i][0] == addr]
    if was:
        i = was[0]
        return len(now) == len(old_view) and all(now[j] == old_view[j] for j in range(len(now)) if j != i) and now[i] == (old_view[i][0], ttl, ttl + GRACE)
    return len(now) == len(old_view) + 1 and now[:-1] == old_view and now[-1][0] == addr and now[-1][1] == ttl and now[-1][2] == ttl + GRACE

contract("bacpypes.bvllservice:BIPBBMD.register_foreign_device",
    params={"self": BBMD(2), "addr": OneOf(F[0], F[1], F[2]), "ttl": Int(0, 65535)},
    post={"result": "0"},
    ensures=["registered_ok(self, addr, ttl, old(fdt_view(self)))"],
    modifies=["self.bbmdFDT"] + ["self.bbmdFDT[%d].%s" % (i, f) for i in range(2) for f in ("fdTTL", "fdRemain")],
    note="a registration (or renewal) is one table entry per device, served for its time-to-live plus the grace of %d s" % GRACE)

def aged_ok(bbmd, old_view):
    """one second passes: every entry has one second less, entries that reached zero are gone, order kept"""
    want = [(a, t, r - 1) for (a, t, r) in old_view if r - 1 > 0]
    return fdt_view(bbmd) == want

contract("bacpypes.bvllservice:BIPBBMD.process_task",
    params={"self": BBMD()},
    ensures=["aged_ok(self, old(fdt_view(self)))", "len(trace('to_net')) == 0"],
    modifies=["self.bbmdFDT"] + ["self.bbmdFDT[%d].fdRemain" % i for i in range(4)])

def deleted_ok(bbmd, addr, result, old_view):
    was = [i for i in range(len(old_view)) if old_view[i][0] == addr]
    if not was:
        return result == 0x0050 and fdt_view(bbmd) == old_view
    return result == 0 and fdt_view(bbmd) == [v for v in old_view if not v[0] == addr]

contract("bacpypes.bvllservice:BIPBBMD.delete_foreign_device_table_entry",
    params={"self": BBMD(), "addr": OneOf(F[0], F[1], F[2], STRANGER)},
    ensures=["deleted_ok(self, addr, result, old(fdt_view(self)))"],
    modifies=["self.bbmdFDT"])

contract("bacpypes.bvllservice:BIPBBMD.confirmation", name="bacpypes.bvllservice:BIPBBMD.confirmation[RegisterForeignDevice]",
    params={"self": BBMD(2), "pdu": BVL("RegisterForeignDevice", OneOf(F[0], F[1], F[2]), Const(ME), bvlciTimeToLive=Int(0, 65535), pduData=Const(None))},
    ensures=["registered_ok(self, pdu.pduSource, pdu.bvlciTimeToLive, old(fdt_view(self)))",
             # acknowledged to the device
             "len(trace_then('to_net')) == 1 and type(trace_then('to_net')[0][0]) is Result and trace_then('to_net')[0][0].bvlciResultCode == 0 "
             "and trace_then('to_net')[0][0].pduDestination == pdu.pduSource"],
    modifies=["self.bbmdFDT"] + ["self.bbmdFDT[%d].%s" % (i, f) for i in range(2) for f in ("fdTTL", "fdRemain")])

# -- the foreign device -------------------------------------------------------------------------------------------------------------------

BBMD_ADDR = Address("192.168.1.1")

def Foreign(configured=True):
    def build(b, name):
        o = object.__new__(BIPForeign)
        t = object.__new__(OneShotDeleteTask)
        t.__dict__.update(taskTime=None, isScheduled=Bool().build(b, name + '.timeout.isScheduled'), fn=None, args=(), kwargs={})
        registered = Bool().build(b, name + '.configured')
        o.__dict__.update(serviceID=None, serviceElement=Tok('bse'), clientID=None, clientPeer=Tok('lower'), serverID=None, serverPeer=Tok('upper'),
                          registrationStatus=OneOf(-2, -1, 0, 0x30).build(b, name + '.registrationStatus'),
                          bbmdAddress=(BBMD_ADDR if configured else None), bbmdTimeToLive=(Int(1, 65535).build(b, name + '.ttl') if configured else None),
                          _registration_timeout_task=t, taskTime=None, isScheduled=Bool().build(b, name + '.isScheduled'))
        t.fn = o._registration_expired
        b.built[name] = o
        return o
    return Fn(build)

def result_ok(fd, pdu, old_status, old_timeout_scheduled):
    t = fd._registration_timeout_task
    if old_status == -2 or fd.bbmdAddress is None or not pdu.pduSource == fd.bbmdAddress:
        return fd.registrationStatus == old_status and t.isScheduled == old_timeout_scheduled        # not ours: ignored
    if fd.registrationStatus != pdu.bvlciResultCode:
        return False
    if pdu.bvlciResultCode == 0:
        # every acknowledgement pushes the 'definitely expired' deadline out to a full time-to-live plus 30 s from now
        return t.isScheduled == True and t.taskTime == due(None, fd.bbmdTimeToLive + 30)
    return t.isScheduled == old_timeout_scheduled

contract("bacpypes.bvllservice:BIPForeign.confirmation", name="bacpypes.bvllservice:BIPForeign.confirmation[Result]",
    params={"self": Foreign(), "pdu": BVL("Result", OneOf(BBMD_ADDR, STRANGER), Const(LOCAL), bvlciResultCode=OneOf(0, 0x30), pduData=Const(None))},
    requires=["self._registration_timeout_task.isScheduled == False or self._registration_timeout_task.taskTime is None"],
    ensures=["result_ok(self, pdu, old(self.registrationStatus), old(self._registration_timeout_task.isScheduled))",
             "len(trace('to_net')) == 0 and len(trace('to_up')) == 0"],
    modifies=["self.registrationStatus", "self._registration_timeout_task.isScheduled", "self._registration_timeout_task.taskTime"])

contract("bacpypes.bvllservice:BIPForeign.confirmation", name="bacpypes.bvllservice:BIPForeign.confirmation[Result, no BBMD configured]",
    params={"self": Foreign(configured=False), "pdu": BVL("Result", OneOf(BBMD_ADDR, STRANGER), Const(LOCAL), bvlciResultCode=OneOf(0, 0x30), pduData=Const(None))},
    ensures=["result_ok(self, pdu, old(self.registrationStatus), old(self._registration_timeout_task.isScheduled))",
             "len(trace('to_net')) == 0 and len(trace('to_up')) == 0"],
    modifies=[], note="a stray result reaching a device that has no registration in progress is ignored (C10: stays healthy under garbage)")

contract("bacpypes.bvllservice:BIPForeign.process_task",
    params={"self": Foreign()},
    ensures=[# the renewal goes to the BBMD with the configured time-to-live, the next renewal is armed one time-to-live from now (before TTL + grace)
             "len(trace_then('to_net')) == 1 and type(trace_then('to_net')[0][0]) is RegisterForeignDevice "
             "and trace_then('to_net')[0][0].bvlciTimeToLive == self.bbmdTimeToLive and trace_then('to_net')[0][0].pduDestination == self.bbmdAddress",
             "self.isScheduled == True and self.taskTime == due(None, self.bbmdTimeToLive)"],
    modifies=["self.isScheduled", "self.taskTime"])

def fd_forwarded_ok(fd, pdu, to_up, data):
    if fd.registrationStatus != 0 or not pdu.pduSource == fd.bbmdAddress:
        return len(to_up) == 0          # not registered (any more), or not from its BBMD: dropped
    return (len(to_up) == 1 and to_up[0][0].pduSource == pdu.bvlciAddress and is_local_broadcast(to_up[0][0].pduDestination)
            and to_up[0][0].pduData == data)

contract("bacpypes.bvllservice:BIPForeign.confirmation", name="bacpypes.bvllservice:BIPForeign.confirmation[ForwardedNPDU]",
    params={"self": Foreign(), "pdu": BVL("ForwardedNPDU", OneOf(BBMD_ADDR, STRANGER), Const(LOCAL), bvlciAddress=Const(Address("192.168.2.9")))},
    ensures=["fd_forwarded_ok(self, pdu, trace_then('to_up'), old(bytes(pdu.pduData)))", "len(trace('to_net')) == 0"],
    modifies=[])

def fd_broadcast_ok(fd, pdu, to_net, data):
    if fd.registrationStatus != 0:
        return len(to_net) == 0
    return (len(to_net) == 1 and type(to_net[0][0]) is DistributeBroadcastToNetwork and to_net[0][0].pduDestination == fd.bbmdAddress
            and to_net[0][0].pduData == data)

contract("bacpypes.bvllservice:BIPForeign.indication", name="bacpypes.bvllservice:BIPForeign.indication[local broadcast]",
    params={"self": Foreign(), "pdu": Obj("bacpypes.pdu:PDU", pduSource=Const(None), pduDestination=Const(LocalBroadcast()), pduUserData=Token(),
                                         pduData=Bytes(0, 8, mutable=True), pduExpectingReply=Const(0), pduNetworkPriority=Const(0))},
    ensures=["fd_broadcast_ok(self, pdu, trace_then('to_net'), old(bytes(pdu.pduData)))", "len(trace('to_up')) == 0"],
    modifies=[])

contract("bacpypes.bvllservice:BIPForeign._registration_expired",
    params={"self": Foreign()},
    ensures=["self.registrationStatus == -1 and self._registration_timeout_task.isScheduled == False"],
    modifies=["self.registrationStatus", "self._registration_timeout_task.isScheduled"])

def unregister_ok(fd, to_net, old_bbmd):
    return (len(to_net) == 1 and type(to_net[0][0]) is RegisterForeignDevice and to_net[0][0].bvlciTimeToLive == 0 and to_net[0][0].pduDestination == old_bbmd
            and fd.registrationStatus == -2 and fd.isScheduled == False and fd._registration_timeout_task.isScheduled == False)

contract("bacpypes.bvllservice:BIPForeign.unregister",
    params={"self": Foreign()},
    ensures=["unregister_ok(self, trace_then('to_net'), old(self.bbmdAddress))"],
    modifies=["self.registrationStatus", "self.bbmdAddress", "self.bbmdTimeToLive", "self.isScheduled", "self._registration_timeout_task.isScheduled"])

def registering_ok(fd, addr, ttl):
    return (fd.bbmdAddress == addr and fd.bbmdTimeToLive == ttl and fd.registrationStatus != -2         # results are listened to again, also after an unregister()
            and fd.isScheduled == True and fd.taskTime == due(0, None) and fd._registration_timeout_task.isScheduled == False)

contract("bacpypes.bvllservice:BIPForeign.register",
    params={"self": Foreign(), "addr": Const(BBMD_ADDR), "ttl": Int(1, 65535)},
    ensures=["registering_ok(self, addr, ttl)", "len(trace('to_net')) == 0"],
    modifies=["self.bbmdAddress", "self.bbmdTimeToLive", "self.registrationStatus", "self.isScheduled", "self.taskTime", "self._registration_timeout_task.isScheduled"],
    note="(re)starting a registration: the request goes out at once (task installed for time 0), whatever happened before")

# -- the ordinary node (BIPSimple) ------------------------------------------------------------------------------------------------------------

from bacpypes.bvllservice import BIPSimple

ORIGIN = Address("192.168.2.9")
PEER = Address("192.168.1.9")

def Simple():
    def build(b, name):
        o = object.__new__(BIPSimple)
        o.__dict__.update(serviceID=None, serviceElement=Tok('bse'), clientID=None, clientPeer=Tok('lower'), serverID=None, serverPeer=Tok('upper'))
        b.built[name] = o
        return o
    return Fn(build)

def simple_up_ok(to_up, source, dest, data):
    """handed to the network layer exactly once: from `source`, to the station itself (unicast) or as a local broadcast, same octets"""
    if len(to_up) != 1:
        return False
    p = to_up[0][0]
    if not (type(p) is PDU and p.pduSource == source and p.pduData == data):
        return False
    return is_local_broadcast(p.pduDestination) if dest is None else p.pduDestination == dest

contract("bacpypes.bvllservice:BIPSimple.confirmation", name="bacpypes.bvllservice:BIPSimple.confirmation[OriginalUnicastNPDU]",
    params={"self": Simple(), "pdu": BVL("OriginalUnicastNPDU", Const(PEER), Const(LOCAL))},
    ensures=["simple_up_ok(trace_then('to_up'), pdu.pduSource, pdu.pduDestination, old(bytes(pdu.pduData)))", "len(trace('to_net')) == 0 and len(trace('to_sap')) == 0"],
    modifies=[])

contract("bacpypes.bvllservice:BIPSimple.confirmation", name="bacpypes.bvllservice:BIPSimple.confirmation[OriginalBroadcastNPDU]",
    params={"self": Simple(), "pdu": BVL("OriginalBroadcastNPDU", Const(PEER), Const(LocalBroadcast()))},
    ensures=["simple_up_ok(trace_then('to_up'), pdu.pduSource, None, old(bytes(pdu.pduData)))", "len(trace('to_net')) == 0 and len(trace('to_sap')) == 0"],
    modifies=[], note="a broadcast of a neighbour on the same subnet: handed up once as a local broadcast from that neighbour")

contract("bacpypes.bvllservice:BIPSimple.confirmation", name="bacpypes.bvllservice:BIPSimple.confirmation[ForwardedNPDU]",
    params={"self": Simple(), "pdu": BVL("ForwardedNPDU", OneOf(ME, STRANGER), OneOf(LOCAL, LocalBroadcast()), bvlciAddress=Const(ORIGIN))},
    ensures=["simple_up_ok(trace_then('to_up'), pdu.bvlciAddress, None, old(bytes(pdu.pduData)))", "len(trace('to_net')) == 0 and len(trace('to_sap')) == 0"],
    modifies=[], note="a broadcast relayed by a BBMD: handed up once as a local broadcast whose source is the true originator, not the relaying BBMD")

contract("bacpypes.bvllservice:BIPSimple.confirmation", name="bacpypes.bvllservice:BIPSimple.confirmation[BBMD functions]",
    params={"self": Simple(), "pdu": OneOf(BVL("DistributeBroadcastToNetwork", Const(STRANGER), Const(LOCAL)),
                                          BVL("RegisterForeignDevice", Const(STRANGER), Const(LOCAL), bvlciTimeToLive=Int(0, 65535), pduData=Const(None)))},
    ensures=["len(trace('to_up')) == 0 and len(trace('to_sap')) == 0"],
    modifies=[], note="an ordinary node never hands a foreign device's Distribute-Broadcast or a registration to its network layer and never relays it")

def simple_down_ok(to_net, pdu, data):
    if len(to_net) != 1:
        return False
    p = to_net[0][0]
    if pdu.pduDestination.addrType == Address.localBroadcastAddr:
        return type(p) is OriginalBroadcastNPDU and is_local_broadcast(p.pduDestination) and p.pduData == data
    return type(p) is OriginalUnicastNPDU and p.pduDestination == pdu.pduDestination and p.pduData == data

contract("bacpypes.bvllservice:BIPSimple.indication",
    params={"self": Simple(), "pdu": Obj("bacpypes.pdu:PDU", pduSource=Const(None), pduDestination=OneOf(LocalBroadcast(), PEER), pduUserData=Token(),
                                         pduData=Bytes(0, 8, mutable=True), pduExpectingReply=Const(0), pduNetworkPriority=Const(0))},
    ensures=["simple_down_ok(trace_then('to_net'), pdu, old(bytes(pdu.pduData)))", "len(trace('to_up')) == 0"],
    modifies=[], note="one frame per request: Original-Broadcast for a local broadcast, Original-Unicast to the station otherwise, octets unchanged")
