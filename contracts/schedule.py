"""
Contracts for bacpypes.local.schedule: the calendar matchers (proved for every
calendar date 1900..2154 and every pattern octet), date_in_calendar_entry, and
LocalScheduleInterpreter.eval / process_task.

eval is verified on configuration objects exposing exactly the attributes it
reads (effectivePeriod, exceptionSchedule, weeklySchedule indexable by weekday
1..7, scheduleDefault), bounded in structure (0..2 exceptions x 0..2 time
values, 0..2 daily entries) with every time, priority, period match and
effective-period bound symbolic; values are distinct tokens.
"""
import calendar
from pyvc.contracts import contract, external, register_model, Obj, Bytes, Int, Bool, Const, OneOf, NoneOr, List, Tuple, Fn, trace
from contracts.comm import Tok, Token
from spec import schedule as ss
from bacpypes.primitivedata import Null

def DateShape():
    return Tuple(Int(0, 254), Int(1, 12), Int(1, 31), Int(1, 7))

Pattern = Tuple(Int(0, 255), Int(0, 255), Int(0, 255), Int(0, 255))

contract("bacpypes.local.schedule:match_date",
    params={"date": DateShape(), "date_pattern": Pattern},
    requires=["ss.is_calendar_date(date)"],
    post={"result": "ss.match_date(date, date_pattern)"})

class Range(object):
    """stand-in for basetypes.DateRange: the two attributes the matcher reads"""
    pass

def RangeObj():
    return Obj("contracts.schedule:Range", startDate=OneOf(Const((255, 255, 255, 255)), Tuple(Int(0, 254), Int(1, 12), Int(1, 31), Int(1, 255))),
               endDate=OneOf(Const((255, 255, 255, 255)), Tuple(Int(0, 254), Int(1, 12), Int(1, 31), Int(1, 255))))

contract("bacpypes.local.schedule:match_date_range",
    params={"date": DateShape(), "date_range": RangeObj()},
    requires=["ss.is_calendar_date(date)"],
    post={"result": "ss.match_date_range(date, date_range.startDate, date_range.endDate)"},
    applies_when="isinstance(date_range, Range)")

contract("bacpypes.local.schedule:match_weeknday",
    params={"date": DateShape(), "weeknday": Bytes(3, 3)},
    requires=["ss.is_calendar_date(date)"],
    post={"result": "ss.match_weeknday(date, weeknday[0], weeknday[1], weeknday[2])"})

# calendar.monthrange: modelled by the Gregorian rule of spec.schedule; the model is compared with the real function for
# every month of 1900..2154 on every run (bounded stage, exhaustive)
def _m_monthrange(I, year, month):
    from pyvc.interp import Frame
    import types
    fr = Frame(func=None, globs={'ss': ss})
    fr.locals.update(y=year, m=month)
    import ast
    days = I.ev(ast.parse("ss.days_in_month(y, m)", mode='eval').body, fr)
    return (0, days)

register_model(calendar.monthrange, _m_monthrange)

# -- eval ---------------------------------------------------------------------------------------------

external("bacpypes.local.schedule:date_in_calendar_entry", "period_match", returns_shape=Bool(), method=False)
# inside eval the effective period is an opaque token: whether the date lies in it is an arbitrary boolean (the matcher
# itself is verified above against the standard)
external("bacpypes.local.schedule:match_date_range", "effective", returns_shape=Bool(), method=False,
         name="bacpypes.local.schedule:match_date_range[as external in eval]")

class Cfg(object):
    pass

class Entry(object):
    pass

def TimeShape():
    return Tuple(Int(0, 23), Int(0, 59), Int(0, 59), Int(0, 99))

def Values():
    """a schedule value: Null (relinquish) or a value token of its own (distinct per entry)"""
    return OneOf(Fn(lambda b, n: Null()), Fn(lambda b, n: Tok(n)))

def TimeValue():
    return Obj("contracts.schedule:Entry", time=TimeShape(), value=Values())

def SpecialEvent(ntv, prio):
    period = Obj("contracts.schedule:Entry", calendarEntry=Token(), calendarReference=Const(None))
    return Obj("contracts.schedule:Entry", period=period, eventPriority=prio, listOfTimeValues=List(*[TimeValue() for _ in range(ntv)]))

def SchedObj(nexc, ntv, ndaily):
    def build(b, name):
        c = Cfg()
        c.effectivePeriod = Tok('period')
        # one exception: any priority 1..16; several: priorities from a grid, in both orders (the priority indexes a list)
        prio = Int(1, 16) if nexc <= 1 else OneOf(1, 8, 16)
        c.exceptionSchedule = [SpecialEvent(ntv, prio).build(b, "%s.exc%d" % (name, i)) for i in range(nexc)]
        day = Entry()
        day.daySchedule = [TimeValue().build(b, "%s.daily%d" % (name, i)) for i in range(ndaily)]
        c.weeklySchedule = [7, day, day, day, day, day, day, day]         # indexable by weekday 1..7 like the real array
        c.scheduleDefault = Tok('default')
        c._app = None
        b.built[name] = c
        return c
    return Fn(build)

def sorted_times(entries):
    return all(entries[i].time < entries[i + 1].time for i in range(len(entries) - 1))

def cfg_ok(c):
    """time lists are in time order (the standard requires it; _check_reliability does not enforce it), exception priorities distinct"""
    ex = c.exceptionSchedule
    return (all(sorted_times(e.listOfTimeValues) for e in ex) and sorted_times(c.weeklySchedule[1].daySchedule)
            and all(ex[i].eventPriority != ex[j].eventPriority for i in range(len(ex)) for j in range(i + 1, len(ex))))

def val(v):
    return None if isinstance(v, Null) else v

def spec_value(c, in_period, matches, t):
    exceptions = [(e.eventPriority, matches[i], [(tv.time, val(tv.value)) for tv in e.listOfTimeValues]) for i, e in enumerate(c.exceptionSchedule)]
    daily = [(tv.time, val(tv.value)) for tv in c.weeklySchedule[1].daySchedule]
    return ss.value_at(in_period, exceptions, daily, c.scheduleDefault, t)

def eval_ok(result, c, etime, in_period, matches, probe):
    """(i) the value is the standard's; (ii) it cannot change before the reported transition (probe is an arbitrary time in
    [etime, transition)); (iii) the transition lies strictly after etime and not after the end of the day"""
    want = spec_value(c, in_period, matches, etime)
    if want[0] == 'none':
        return result is None
    value, nxt = result
    if value is not want[1]:
        return False
    if not (etime < nxt and nxt <= ss.END_OF_DAY):
        return False
    if etime <= probe and probe < nxt:
        return spec_value(c, in_period, matches, probe)[1] is value
    return True

class Interp(object):
    pass

import os
_EVAL_BOUNDS = [(0, 0, 0), (0, 0, 1), (0, 0, 2), (1, 1, 0), (1, 2, 0), (1, 1, 1), (2, 1, 0)]
if os.environ.get('VERIF_TIER', 'quick') == 'thorough':
    _EVAL_BOUNDS += [(1, 2, 2), (2, 1, 1), (2, 2, 0), (2, 2, 1)]

for (_ne, _nt, _nd) in _EVAL_BOUNDS:
    contract("bacpypes.local.schedule:LocalScheduleInterpreter.eval",
        name="bacpypes.local.schedule:LocalScheduleInterpreter.eval[%d exceptions x %d time values, %d daily entries]" % (_ne, _nt, _nd),
        params={"self": Obj("bacpypes.local.schedule:LocalScheduleInterpreter", sched_obj=SchedObj(_ne, _nt, _nd), taskTime=Const(None), isScheduled=Const(False)),
                "edate": Tuple(Int(0, 254), Int(1, 12), Int(1, 31), Int(1, 7)), "etime": TimeShape(), "probe": TimeShape()},
        requires=["cfg_ok(self.sched_obj)"],
        ensures=["eval_ok(result, self.sched_obj, etime, trace('effective')[0][-1], [c[-1] for c in trace('period_match')] + [False, False], probe)"],
        max_paths=60000,
        note="bounded in structure; `probe` is a universally quantified time for the stability clause")

# -- eval with a calendar-reference period: the exception is in force exactly on the days some entry of the referenced calendar's date list matches ----

class GhostCalApp(object):
    """the application of the schedule object: resolves the calendar reference"""
    def get_object_id(self, ref):
        return self.objects.get(ref)

CAL_ID = ('calendar', 1)

def SchedObjRef(ncal, ntv, ndaily, known=True):
    def build(b, name):
        c = SchedObj(1, ntv, ndaily).build(b, name)
        period = c.exceptionSchedule[0].period
        period.calendarEntry = None
        period.calendarReference = CAL_ID
        cal = Entry()
        cal.dateList = [Tok('%s.cal%d' % (name, i)) for i in range(ncal)]
        app = GhostCalApp()
        app.objects = {CAL_ID: cal} if known else {}
        c._app = app
        return c
    return Fn(build)

def any_match(calls, ncal):
    """the referenced calendar matches when one of its entries does; the code may stop asking at the first match, but must ask until then"""
    got = [c[-1] for c in calls]
    if any(got):
        return True
    return False if len(got) == ncal else None

def eval_ref_ok(result, c, etime, in_period, calls, ncal, probe):
    if not in_period:
        return eval_ok(result, c, etime, in_period, [False, False, False], probe)       # outside the effective period nothing is asked
    m = any_match(calls, ncal)
    if m is None:
        return False            # gave up before the date list was exhausted
    return eval_ok(result, c, etime, in_period, [m, False, False], probe)

_REF_BOUNDS = [(0, 1, 0), (1, 1, 0), (2, 1, 0)] + ([(1, 1, 1), (2, 1, 1), (2, 2, 0)] if os.environ.get('VERIF_TIER', 'quick') == 'thorough' else [])
for (_nc, _nt, _nd) in _REF_BOUNDS:
    contract("bacpypes.local.schedule:LocalScheduleInterpreter.eval",
        name="bacpypes.local.schedule:LocalScheduleInterpreter.eval[calendar reference with %d entries, %d time values, %d daily entries]" % (_nc, _nt, _nd),
        params={"self": Obj("bacpypes.local.schedule:LocalScheduleInterpreter", sched_obj=SchedObjRef(_nc, _nt, _nd), taskTime=Const(None), isScheduled=Const(False)),
                "edate": Tuple(Int(0, 254), Int(1, 12), Int(1, 31), Int(1, 7)), "etime": TimeShape(), "probe": TimeShape()},
        requires=["cfg_ok(self.sched_obj)"],
        ensures=["eval_ref_ok(result, self.sched_obj, etime, trace('effective')[0][-1], trace('period_match'), %d, probe)" % _nc],
        max_paths=60000,
        note="bounded in structure; each entry of the referenced calendar matches or not arbitrarily (the matcher is verified on its own)")

contract("bacpypes.local.schedule:LocalScheduleInterpreter.eval",
    name="bacpypes.local.schedule:LocalScheduleInterpreter.eval[calendar reference to an unknown object]",
    params={"self": Obj("bacpypes.local.schedule:LocalScheduleInterpreter", sched_obj=SchedObjRef(0, 1, 0, known=False), taskTime=Const(None), isScheduled=Const(False)),
            "edate": Tuple(Int(0, 254), Int(1, 12), Int(1, 31), Int(1, 7)), "etime": TimeShape()},
    requires=["cfg_ok(self.sched_obj)"],
    only_raises=(RuntimeError,), raise_ensures=["trace('effective')[0][-1] == True"],
    ensures=["result is None and trace('effective')[0][-1] == False"],
    note="a dangling calendar reference is reported (RuntimeError) on every day of the effective period instead of being read as 'no exception'; outside the period nothing is evaluated")
