"""
Contracts for the network layer (C06, and the return-path learning that C10
relies on): bacpypes.netservice.NetworkServiceAccessPoint.process_npdu (a
packet arriving from one of the attached networks), .indication (a packet
from the local application) and NetworkServiceElement.WhoIsRouterToNetwork.

The node is a real NetworkServiceAccessPoint with real NetworkAdapter objects
and a real RouterInfoCache:
    router   networks 1 (local adapter, station 10), 2 and 3 attached; network 5 is
             known (or not: symbolic) to lie behind router station 20 on network 2
    station  one adapter on network 1, station 10
What leaves the node is ghost-traced: NetworkAdapter.process_npdu (a frame put
on an attached network), Server.response (up to the application),
ServiceAccessPoint.sap_request / sap_indication (to / from the network service
element).  Addresses are concrete representatives of every destination class,
hop count and payload are symbolic.
"""
from pyvc.contracts import (contract, external, Obj, Bytes, Int, Bool, Const, OneOf, Fn, Maybe, trace, trace_then)
from contracts.comm import Tok, Token
from bacpypes.netservice import NetworkServiceAccessPoint, NetworkServiceElement, NetworkAdapter, RouterInfoCache
from bacpypes.pdu import Address, LocalStation, LocalBroadcast, RemoteStation, RemoteBroadcast, GlobalBroadcast
from bacpypes.npdu import NPDU, WhoIsRouterToNetwork, IAmRouterToNetwork

external("bacpypes.netservice:NetworkAdapter.process_npdu", "to_net", method=False)
external("bacpypes.comm:Server.response", "to_up")
external("bacpypes.comm:ServiceAccessPoint.sap_request", "to_app")
external("bacpypes.netservice:NetworkServiceAccessPoint.sap_indication", "from_nse")
external("bacpypes.comm:ApplicationServiceElement.request", "ase_request")
external("bacpypes.comm:ApplicationServiceElement.response", "reply")

def calls(channel):
    """calls on a channel: the first argument (an adapter) by identity, the PDU with its fields as they were at the moment of the call"""
    now, then = trace(channel), trace_then(channel)
    return [(now[i][0],) + tuple(then[i][1:]) for i in range(len(now))]


ME = LocalStation(10)
SRC = LocalStation(30)
ROUTER20 = LocalStation(20)

def Node(router=True, stale_on=None):
    def build(b, name):
        n = object.__new__(NetworkServiceAccessPoint)
        n.__dict__.update(serviceID=None, serviceElement=Tok('nse'), serverID=None, serverPeer=Tok('application'), adapters={},
                          router_info_cache=RouterInfoCache(), pending_nets={}, local_adapter=None)
        nets = (1, 2, 3) if router else (1,)
        for net in nets:
            a = object.__new__(NetworkAdapter)
            a.__dict__.update(clientID=None, clientPeer=Tok('lan%d' % net), adapterSAP=n, adapterNet=net, adapterAddr=(ME if net == 1 else LocalStation(10 + net)),
                              adapterNetConfigured=1)
            n.adapters[net] = a
        n.local_adapter = n.adapters[1]
        knows5 = Bool().build(b, name + '.knows5')
        if (b.ctx.decide(knows5.t) if b.mode == 'sym' else knows5):
            n.router_info_cache.update_router_info(2 if router else 1, ROUTER20, [5])
        if stale_on is not None:
            # an older, different belief about where network 7 lies (a stale or bogus path): the newest packet must win
            stale7 = Bool().build(b, name + '.stale7')
            if (b.ctx.decide(stale7.t) if b.mode == 'sym' else stale7):
                n.router_info_cache.update_router_info(stale_on, LocalStation(40), [7])
        n.ghost_knows5 = bool(knows5) if b.mode != 'sym' else (5 in [k[1] for k in n.router_info_cache.path_info])
        b.built[name] = n
        return n
    return Fn(build)

_NPCI = dict(npduVersion=Const(1), npduControl=Const(0), npduVendorID=Const(None), pduUserData=Token(), pduExpectingReply=Const(0), pduNetworkPriority=Const(0))

DADRS = (None, RemoteStation(1, 10), RemoteStation(2, 7), RemoteStation(3, 7), RemoteBroadcast(3), RemoteBroadcast(2), GlobalBroadcast(), RemoteStation(5, 9),
         RemoteBroadcast(5), RemoteStation(9, 9))
SADRS = (None, RemoteStation(7, 4))

def InNPDU():
    return Obj("bacpypes.npdu:NPDU", pduSource=Const(SRC), pduDestination=OneOf(ME, LocalBroadcast()), npduSADR=OneOf(*SADRS), npduDADR=OneOf(*DADRS),
               npduHopCount=Int(0, 255), npduNetMessage=Const(None), pduData=Bytes(2, 8, mutable=True), **_NPCI)

def arrival(node, net):
    return node.adapters[net]

def kind(a):
    if a is None:
        return 'none'
    t = a.addrType
    return {Address.remoteStationAddr: 'rs', Address.remoteBroadcastAddr: 'rb', Address.globalBroadcastAddr: 'gb', Address.localStationAddr: 'ls',
            Address.localBroadcastAddr: 'lb', Address.nullAddr: 'none'}[t]

def routed_ok(node, net, npdu, frames, ups, who_is, data, hops):
    """what a node does with a frame that arrived from network `net`"""
    adapter = node.adapters[net]
    router = len(node.adapters) > 1
    sadr, dadr = npdu.npduSADR, npdu.npduDADR
    k = kind(dadr)
    # -- delivered to the local application?
    if k == 'none':
        local = adapter is node.local_adapter
    elif k == 'rb':
        local = dadr.addrNet == 1
    elif k == 'rs':
        local = dadr.addrNet == 1 and dadr.addrAddr == ME.addrAddr
    else:
        local = True
    if k in ('rb', 'rs') and dadr.addrNet == net:
        return len(frames) == 0 and len(ups) == 0 and len(who_is) == 0          # addressed to the network it came from: dropped
    if local:
        if len(ups) != 1:
            return False
        up = ups[0][0]
        # the source shown names the originator's network and station
        if sadr is not None:
            want_src = sadr
        elif router and adapter is not node.local_adapter:
            want_src = RemoteStation(net, SRC.addrAddr)
        else:
            want_src = SRC
        if not (up.pduSource == want_src and up.apduType == 1 and up.apduService == 8 and up.pduData == data[2:]):
            return False
        if k == 'gb' and kind(up.pduDestination) != 'gb':
            return False
    elif len(ups) != 0:
        return False
    # -- forwarded?
    forward = k in ('rb', 'gb') or (k == 'rs' and not local)
    if not forward or not router or hops == 0:
        return len(frames) == 0 and len(who_is) == 0
    want_sadr = sadr if sadr is not None else RemoteStation(net, SRC.addrAddr)
    for f in frames:
        a, p = f[0], f[1]
        if a is adapter:
            return False                    # never back onto the network it came from
        if not (p.npduHopCount == hops - 1 and p.npduSADR == want_sadr and p.pduData == data and p.npduNetMessage is None):
            return False
    nets = [f[0].adapterNet for f in frames]
    if k == 'gb':
        return (sorted(nets) == [x for x in (1, 2, 3) if x != net] and all(kind(f[1].pduDestination) == 'lb' and kind(f[1].npduDADR) == 'gb' for f in frames)
                and len(who_is) == 0)
    dnet = dadr.addrNet
    if dnet in (1, 2, 3):
        # last hop: exactly one frame on that network, addressed locally, no DADR
        if not (nets == [dnet] and frames[0][1].npduDADR is None and len(who_is) == 0):
            return False
        d = frames[0][1].pduDestination
        return (kind(d) == 'lb') if k == 'rb' else (kind(d) == 'ls' and d.addrAddr == dadr.addrAddr)
    if dnet == 5 and node.ghost_knows5:
        if net == 2:
            return False if len(frames) else True       # the known router is on the arrival network: see the unit's note
        return nets == [2] and frames[0][1].pduDestination == ROUTER20 and frames[0][1].npduDADR == dadr and len(who_is) == 0
    # unknown network: nothing forwarded yet, the path is asked for on every other network
    return len(frames) == 0 and sorted(w[0].adapterNet for w in who_is) == [x for x in (1, 2, 3) if x != net] and \
        all(type(w[1]) is WhoIsRouterToNetwork and w[1].wirtnNetwork == dnet and kind(w[1].pduDestination) == 'lb' for w in who_is)

def learned_ok(node, net, npdu):
    """the return path of a routed packet is (re)learned: replies to its source network go to the station it came from"""
    if npdu.npduSADR is None:
        return True
    ri = node.router_info_cache.get_router_info(net, npdu.npduSADR.addrNet)
    return ri is not None and ri.address == SRC

for _router in (True, False):
    for _net in ((1, 2, 3) if _router else (1,)):
        contract("bacpypes.netservice:NetworkServiceAccessPoint.process_npdu",
            name="bacpypes.netservice:NetworkServiceAccessPoint.process_npdu[%s, from network %d]" % ("router" if _router else "station", _net),
            params={"self": Node(_router, stale_on=_net), "adapter": Fn(lambda b, name, _net=_net: b.built['self'].adapters[_net]), "npdu": InNPDU()},
            requires=["not (kind(npdu.npduDADR) in ('rs', 'rb') and npdu.npduDADR.addrNet == 5 and self.ghost_knows5 and %d == 2)" % _net,
                      "npdu.pduData[0] == 0x10 and npdu.pduData[1] == 0x08"],        # an unconfirmed Who-Is header: routing never looks at the payload
            ensures=["routed_ok(self, %d, npdu, calls('to_net'), trace_then('to_up'), calls('from_nse'), old(bytes(npdu.pduData)), old(npdu.npduHopCount))" % _net,
                     "learned_ok(self, %d, npdu)" % _net, "len(trace('to_app')) == 0"],
            modifies=["self.router_info_cache.*", "self.router_info_cache.routers", "self.router_info_cache.path_info"], max_paths=20000,
            note="every destination class (none, this station, stations / broadcasts on attached networks, global broadcast, a network behind a known router, an unknown "
                 "network) x source routing present or not x any hop count; excluded: a destination behind a router that sits on the arrival network itself")

# -- a packet from the local application ---------------------------------------------------------------------------------------------

DESTS = (LocalStation(7), LocalBroadcast(), GlobalBroadcast(), RemoteStation(1, 7), RemoteBroadcast(1), RemoteStation(2, 7), RemoteStation(5, 9), RemoteBroadcast(5),
         RemoteStation(9, 9))

def OutPDU():
    return Obj("bacpypes.apdu:UnconfirmedRequestPDU", pduSource=Const(None), pduDestination=OneOf(*DESTS), pduData=Bytes(0, 6, mutable=True), pduUserData=Token(),
               pduExpectingReply=Const(0), pduNetworkPriority=Const(0), apduType=Const(1), apduService=Const(8), apduSeg=Const(None), apduMor=Const(None),
               apduSA=Const(None), apduSrv=Const(None), apduNak=Const(None), apduSeq=Const(None), apduWin=Const(None), apduMaxSegs=Const(None), apduMaxResp=Const(None),
               apduInvokeID=Const(None), apduAbortRejectReason=Const(None))

def PendingNode():
    """a station (network 1) that may already be waiting for a path to network 9"""
    def build(b, name):
        n = Node(False).build(b, name)
        waiting = Bool().build(b, name + '.waiting9')
        if (b.ctx.decide(waiting.t) if b.mode == 'sym' else waiting):
            first = NPDU()
            first.npduDADR = RemoteStation(9, 1)
            n.pending_nets[9] = [first]
        return n
    return Fn(build)

def sent_ok(node, pdu, frames, who_is, data, was_pending):
    d = pdu.pduDestination
    k = kind(d)
    if k in ('ls', 'lb'):
        return len(frames) == 1 and frames[0][1].pduDestination == d and frames[0][1].npduDADR is None and frames[0][1].pduData == data and frames[0][1].npduHopCount == 255
    if k == 'gb':
        return len(frames) == 1 and kind(frames[0][1].pduDestination) == 'lb' and kind(frames[0][1].npduDADR) == 'gb' and frames[0][1].npduHopCount == 255
    if d.addrNet == 1:
        return (len(frames) == 1 and frames[0][1].npduDADR is None and
                (kind(frames[0][1].pduDestination) == 'lb' if k == 'rb' else frames[0][1].pduDestination == LocalStation(d.addrAddr)))
    if d.addrNet == 5 and node.ghost_knows5:
        return len(frames) == 1 and frames[0][1].pduDestination == ROUTER20 and frames[0][1].npduDADR == d and frames[0][1].npduHopCount == 255 and len(who_is) == 0
    # no path yet: the packet waits, complete with its final destination, and the path is asked for once
    q = node.pending_nets.get(d.addrNet)
    if q is None or len(frames) != 0:
        return False
    last = q[-1]
    if not (last.npduDADR == d and last.pduDestination is None and last.pduData == data and last.npduHopCount == 255):
        return False
    if d.addrNet == 9 and was_pending:
        return len(q) == 2 and len(who_is) == 0
    return len(q) == 1 and len(who_is) == 1 and type(who_is[0][1]) is WhoIsRouterToNetwork and who_is[0][1].wirtnNetwork == d.addrNet

contract("bacpypes.netservice:NetworkServiceAccessPoint.indication",
    params={"self": PendingNode(), "pdu": OutPDU()},
    ensures=["sent_ok(self, pdu, calls('to_net'), calls('from_nse'), bytes([0x10, 0x08]) + old(bytes(pdu.pduData)), old(9 in self.pending_nets))", "len(trace('to_up')) == 0"],
    modifies=["self.pending_nets", "self.pending_nets[9][:]"], max_paths=20000,
    note="a station on network 1: every destination class, path known / unknown / already being looked for")

# -- who is the router to a network? --------------------------------------------------------------------------------------------------------

def NSE():
    def build(b, name):
        e = object.__new__(NetworkServiceElement)
        node = Node(True).build(b, name + '.node')
        e.__dict__.update(elementID=None, elementService=node, _startup_disabled=True)
        b.built[name] = e
        return e
    return Fn(build)

def WhoIs():
    return Obj("bacpypes.npdu:WhoIsRouterToNetwork", pduSource=Const(SRC), pduDestination=Const(LocalBroadcast()), npduSADR=Const(None), npduDADR=Const(None),
               npduHopCount=Const(None), npduNetMessage=Const(0), wirtnNetwork=OneOf(None, 1, 2, 3, 5, 9), pduData=Const(None), **_NPCI)

def who_is_ok(e, net, npdu, answers, asks):
    node = e.elementService
    want = npdu.wirtnNetwork
    iam = [a for a in answers if type(a[1]) is IAmRouterToNetwork]
    if len(iam) > 1 or len(iam) != len(answers):
        return False
    if iam:
        # an answer goes back on the asking network, to the asker, and names only networks reached through ANOTHER attached network
        a = iam[0]
        if not (a[0] is node.adapters[net] and a[1].pduDestination == SRC):
            return False
        for n in a[1].iartnNetworkList:
            if n == net:
                return False
            if n not in (1, 2, 3) and not (n == 5 and node.ghost_knows5 and net != 2):
                return False
    if want is None:
        return len(iam) == 1 and sorted(iam[0][1].iartnNetworkList) == [x for x in (1, 2, 3) if x != net]
    if want in (1, 2, 3):
        return (len(iam) == 1 and iam[0][1].iartnNetworkList == [want]) if want != net else len(iam) == 0
    if want == 5 and node.ghost_knows5:
        return (len(iam) == 1 and iam[0][1].iartnNetworkList == [5]) if net != 2 else len(iam) == 0
    return len(iam) == 0

for _net in (1, 2, 3):
    contract("bacpypes.netservice:NetworkServiceElement.WhoIsRouterToNetwork",
        name="bacpypes.netservice:NetworkServiceElement.WhoIsRouterToNetwork[router, asked on network %d]" % _net,
        params={"self": NSE(), "adapter": Fn(lambda b, name, _net=_net: b.built['self'].elementService.adapters[_net]), "npdu": WhoIs()},
        ensures=["who_is_ok(self, %d, npdu, calls('reply'), calls('ase_request'))" % _net],
        modifies=[], max_paths=20000)

# -- the answer arrives: the path is learned and what was waiting for it goes out, once, complete ------------------------------------------

def WaitingNSE(router):
    """a node with packets waiting for a path to network 9 (0..2) and to network 8 (0..1)"""
    def build(b, name):
        e = object.__new__(NetworkServiceElement)
        node = Node(router).build(b, name + '.node')
        e.__dict__.update(elementID=None, elementService=node, _startup_disabled=True)
        n9 = OneOf(0, 1, 2).build(b, name + '.waiting9')
        e.ghost_waiting = []
        for i in range(n9):
            p = NPDU()
            p.npduDADR = RemoteStation(9, 1 + i)
            p.npduHopCount = 255
            p.pduData = bytearray([0x10, 0x08, i])
            node.pending_nets.setdefault(9, []).append(p)
            e.ghost_waiting.append(p)
        other = Bool().build(b, name + '.waiting8')
        e.ghost_other = None
        if (b.ctx.decide(other.t) if b.mode == 'sym' else other):
            q = NPDU()
            q.npduDADR = RemoteStation(8, 1)
            node.pending_nets[8] = [q]
            e.ghost_other = q
        b.built[name] = e
        return e
    return Fn(build)

def IAm(nets):
    return Obj("bacpypes.npdu:IAmRouterToNetwork", pduSource=Const(ROUTER20), pduDestination=Const(LocalBroadcast()), npduSADR=Const(None), npduDADR=Const(None),
               npduHopCount=Const(None), npduNetMessage=Const(1), iartnNetworkList=OneOf(*nets), pduData=Const(None), **_NPCI)

def released_ok(e, net, npdu, frames, relays):
    node = e.elementService
    adapter = node.adapters[net]
    announced = npdu.iartnNetworkList
    # the announcement is what the cache says from now on
    for d in announced:
        ri = node.router_info_cache.get_router_info(net, d)
        if ri is None or not ri.address == ROUTER20:
            return False
    # what waited for an announced network goes out exactly once, in order, to the announcing router on the network it spoke on, still naming its final destination
    want = []
    for d in announced:
        if d == 9:
            want = want + list(e.ghost_waiting)
        elif d == 8 and e.ghost_other is not None:
            want = want + [e.ghost_other]
    if len(frames) != len(want):
        return False
    for i in range(len(want)):
        a, p = frames[i]
        if not (a is adapter and p.pduDestination == ROUTER20 and p.npduDADR == want[i].npduDADR and p.pduData == want[i].pduData):
            return False
    for d in announced:
        if d in node.pending_nets:
            return False
    # what waits for a network that was not announced keeps waiting
    if e.ghost_other is not None and 8 not in announced and not (node.pending_nets.get(8) is not None and len(node.pending_nets[8]) == 1 and node.pending_nets[8][0] is e.ghost_other):
        return False
    if len(e.ghost_waiting) > 0 and 9 not in announced and not (node.pending_nets.get(9) is not None and len(node.pending_nets[9]) == len(e.ghost_waiting)):
        return False
    # a router passes the announcement on to its other networks, once each, never back
    if len(node.adapters) == 1:
        return len(relays) == 0
    return (sorted(r[0].adapterNet for r in relays) == [x for x in (1, 2, 3) if x != net]
            and all(type(r[1]) is IAmRouterToNetwork and r[1].iartnNetworkList == announced and kind(r[1].pduDestination) == 'lb' for r in relays))

for _router, _net in ((False, 1), (True, 2)):
    contract("bacpypes.netservice:NetworkServiceElement.IAmRouterToNetwork",
        name="bacpypes.netservice:NetworkServiceElement.IAmRouterToNetwork[%s, heard on network %d]" % ("router" if _router else "station", _net),
        params={"self": WaitingNSE(_router), "adapter": Fn(lambda b, name, _net=_net: b.built['self'].elementService.adapters[_net]),
                "npdu": IAm(([9], [7], [9, 7], [8, 9]))},
        ensures=["released_ok(self, %d, npdu, calls('to_net'), calls('ase_request'))" % _net],
        modifies=["self.elementService.pending_nets", "self.elementService.router_info_cache.*", "self.elementService.router_info_cache.routers",
                  "self.elementService.router_info_cache.path_info"]
                 + ["self.ghost_waiting[%d].pduDestination" % i for i in range(2)] + ["self.ghost_other.pduDestination"],
        max_paths=20000,
        note="0..2 packets waiting for network 9, possibly one for network 8; announcements [9], [7], [9, 7], [8, 9]")
