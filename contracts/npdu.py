"""
Contracts for bacpypes.npdu: the network-layer header codec (NPCI, NPDU) and
the network-layer message bodies.  Postconditions are stated against
spec.npci, which is written from clause 6.2 of the standard.
"""
from pyvc.contracts import contract, exactly, buflen, Obj, Bytes, Int, Bool, Const, OneOf, NoneOr, List, Tuple
from bacpypes.errors import DecodingError
from bacpypes.pdu import RemoteStation, RemoteBroadcast, GlobalBroadcast, Address
from contracts.comm import Token, BPDUObj, BPCIFields
from spec import npci as sn

# -- address shapes ----------------------------------------------------------

def RemoteStationObj(maxlen=255):
    return Obj("bacpypes.pdu:RemoteStation", addrType=Const(4), addrNet=Int(0, 65534), addrAddr=Bytes(1, maxlen),
               addrRoute=Const(None), _derive={"addrLen": lambda o: buflen(o.addrAddr)})

def RemoteBroadcastObj():
    return Obj("bacpypes.pdu:RemoteBroadcast", addrType=Const(3), addrNet=Int(0, 65534), addrAddr=Const(None),
               addrLen=Const(None), addrRoute=Const(None))

def GlobalBroadcastObj():
    return Obj("bacpypes.pdu:GlobalBroadcast", addrType=Const(5), addrNet=Const(None), addrAddr=Const(None),
               addrLen=Const(None), addrRoute=Const(None))

def DestShape():
    return OneOf(Const(None), RemoteStationObj(), RemoteBroadcastObj(), GlobalBroadcastObj())

def SourceShape():
    return OneOf(Const(None), RemoteStationObj())

def dest_of(a):
    """an Address as the spec's destination tuple"""
    if a is None:
        return None
    if a.addrType == 4:
        return ('station', a.addrNet, a.addrAddr)
    if a.addrType == 3:
        return ('broadcast', a.addrNet, None)
    return ('global', None, None)

def source_of(a):
    if a is None:
        return None
    return (a.addrNet, a.addrAddr)

def mk_station(net, addr):
    a = object.__new__(RemoteStation)
    a.addrType = 4
    a.addrNet = net
    a.addrRoute = None
    a.addrAddr = bytes(addr)
    a.addrLen = len(addr)
    return a

def mk_dest(d):
    """the Address object a decoded destination tuple denotes"""
    if d is None:
        return None
    if d[0] == 'station':
        return mk_station(d[1], d[2])
    a = object.__new__(RemoteBroadcast if d[0] == 'broadcast' else GlobalBroadcast)
    a.addrType = 3 if d[0] == 'broadcast' else 5
    a.addrNet = d[1]
    a.addrAddr = None
    a.addrLen = None
    a.addrRoute = None
    return a

def mk_source(s):
    if s is None:
        return None
    return mk_station(s[0], s[1])

# -- NPCI ---------------------------------------------------------------------

def NPCIFields(**kw):
    f = dict(npduVersion=Int(0, 255), npduControl=NoneOr(Int()), npduDADR=DestShape(), npduSADR=SourceShape(),
             npduHopCount=Int(), npduNetMessage=NoneOr(Int(0, 255)), npduVendorID=Int(),
             pduUserData=Token(), pduSource=Token(), pduDestination=Token(),
             pduExpectingReply=Bool(), pduNetworkPriority=Int(0, 3))
    f.update(kw)
    return f

def NPCIObj(cls="bacpypes.npdu:NPCI", **kw):
    return Obj(cls, **NPCIFields(**kw))

def OpaqueNPCIObj(cls="bacpypes.npdu:NPCI", **kw):
    """any prior state of a header object whose old content only matters as 'unchanged'"""
    f = dict(npduVersion=Int(), npduControl=Token(), npduDADR=Token(), npduSADR=Token(), npduHopCount=Token(),
             npduNetMessage=Token(), npduVendorID=Token(), pduUserData=Token(), pduSource=Token(), pduDestination=Token(),
             pduExpectingReply=Token(), pduNetworkPriority=Token())
    f.update(kw)
    return Obj(cls, **f)

def BlankNPCIObj(cls="bacpypes.npdu:NPCI", **kw):
    f = dict(npduVersion=Const(1), npduControl=Const(None), npduDADR=Const(None), npduSADR=Const(None),
             npduHopCount=Const(None), npduNetMessage=Const(None), npduVendorID=Const(None),
             pduUserData=Token(), pduSource=Token(), pduDestination=Token(),
             pduExpectingReply=Const(0), pduNetworkPriority=Const(0))
    f.update(kw)
    return Obj(cls, **f)

def encodable(h):
    """field ranges of a header the standard allows to be sent"""
    return ((h.npduDADR is None or 0 <= h.npduHopCount <= 255)
            and (h.npduNetMessage is None or h.npduNetMessage < 128 or 0 <= h.npduVendorID <= 65535))

def header_of(h):
    return sn.header(h.npduVersion, h.pduExpectingReply, h.pduNetworkPriority, dest_of(h.npduDADR), source_of(h.npduSADR),
                     h.npduHopCount, h.npduNetMessage, h.npduVendorID)

contract("bacpypes.npdu:NPCI.update",
    params={"self": OpaqueNPCIObj(), "npci": OpaqueNPCIObj()},
    post=dict(("self." + f, "npci." + f) for f in ("pduUserData", "pduSource", "pduDestination", "pduExpectingReply", "pduNetworkPriority",
              "npduVersion", "npduControl", "npduDADR", "npduSADR", "npduHopCount", "npduNetMessage", "npduVendorID")))

_enc_post = {
    "pdu.pduData[:]": "old(pdu.pduData) + header_of(self)",
    "pdu.pduUserData": "self.pduUserData", "pdu.pduSource": "self.pduSource", "pdu.pduDestination": "self.pduDestination",
    "pdu.pduExpectingReply": "self.pduExpectingReply", "pdu.pduNetworkPriority": "self.pduNetworkPriority",
    "self.npduControl": "sn.control(self.npduNetMessage is not None, self.npduDADR is not None, self.npduSADR is not None, self.pduExpectingReply, self.pduNetworkPriority)",
}

contract("bacpypes.npdu:NPCI.encode",
    params={"self": NPCIObj(), "pdu": BPDUObj()},
    requires=["encodable(self)"],
    post=_enc_post)

def _dec_post(consume_all):
    return {
        "self.pduUserData": "pdu.pduUserData", "self.pduSource": "pdu.pduSource", "self.pduDestination": "pdu.pduDestination",
        "self.npduVersion": "1",
        "self.npduControl": "sn.parse(old(pdu.pduData))[0]",
        "self.pduExpectingReply": "sn.parse(old(pdu.pduData))[1]",
        "self.pduNetworkPriority": "sn.parse(old(pdu.pduData))[2]",
        "self.npduDADR": "exactly(mk_dest(sn.parse(old(pdu.pduData))[3])) if sn.parse(old(pdu.pduData))[3] is not None else old(self.npduDADR)",
        "self.npduSADR": "exactly(mk_source(sn.parse(old(pdu.pduData))[4])) if sn.parse(old(pdu.pduData))[4] is not None else old(self.npduSADR)",
        "self.npduHopCount": "sn.parse(old(pdu.pduData))[5] if sn.parse(old(pdu.pduData))[3] is not None else old(self.npduHopCount)",
        "self.npduNetMessage": "sn.parse(old(pdu.pduData))[6]",
        "self.npduVendorID": "sn.parse(old(pdu.pduData))[7] if sn.parse(old(pdu.pduData))[7] is not None else old(self.npduVendorID)",
        "pdu.pduData[:]": "b''" if consume_all else "old(pdu.pduData)[sn.parse(old(pdu.pduData))[8]:]",
    }

contract("bacpypes.npdu:NPCI.decode",
    params={"self": OneOf(BlankNPCIObj(), OpaqueNPCIObj()), "pdu": BPDUObj()},
    raises=[(DecodingError, "sn.parse(old(pdu.pduData)) is None")],
    post=_dec_post(False))

# -- NPDU: header + payload ---------------------------------------------------

_npdu_enc_post = dict(_enc_post)
_npdu_enc_post["pdu.pduData[:]"] = "old(pdu.pduData) + header_of(self) + self.pduData"

contract("bacpypes.npdu:NPDU.encode",
    params={"self": NPCIObj("bacpypes.npdu:NPDU", pduData=Bytes(mutable=True)), "pdu": BPDUObj()},
    requires=["encodable(self)"],
    post=_npdu_enc_post)

_npdu_dec_post = _dec_post(True)
_npdu_dec_post["self.pduData"] = "old(pdu.pduData)[sn.parse(old(pdu.pduData))[8]:]"

contract("bacpypes.npdu:NPDU.decode",
    params={"self": OneOf(BlankNPCIObj("bacpypes.npdu:NPDU", pduData=Bytes(mutable=True)), OpaqueNPCIObj("bacpypes.npdu:NPDU", pduData=Bytes(mutable=True))),
            "pdu": BPDUObj()},
    raises=[(DecodingError, "sn.parse(old(pdu.pduData)) is None")],
    post=_npdu_dec_post)

# -- network-layer message bodies (clause 6.4) --------------------------------
from spec import netmsg as sm

_NPCI_COPY = ("pduUserData", "pduSource", "pduDestination", "pduExpectingReply", "pduNetworkPriority",
              "npduVersion", "npduControl", "npduDADR", "npduSADR", "npduHopCount", "npduNetMessage", "npduVendorID")

def MsgObj(cls, **fields):
    return OpaqueNPCIObj("bacpypes.npdu:" + cls, pduData=Token(), **fields)

def NPDUBuf():
    return OpaqueNPCIObj("bacpypes.npdu:NPDU", pduData=Bytes(mutable=True))

def _msg_contracts(cls, fields, body, decode_posts, min_len, shapes, requires=None, blank=None, note=None):
    """encode: header fields copied to the npdu, body octets appended;
    decode: header fields copied from the npdu, message fields from the octets"""
    post = dict(("npdu." + f, "self." + f) for f in _NPCI_COPY)
    post["npdu.pduData[:]"] = "old(npdu.pduData) + " + body
    contract("bacpypes.npdu:%s.encode" % cls,
        params={"self": MsgObj(cls, **shapes), "npdu": NPDUBuf()},
        requires=requires, post=post, note=note)
    dpost = dict(("self." + f, "npdu." + f) for f in _NPCI_COPY)
    dpost.update(decode_posts)
    contract("bacpypes.npdu:%s.decode" % cls,
        params={"self": MsgObj(cls, **(blank or dict((f, Token()) for f in fields))), "npdu": NPDUBuf()},
        raises=[(DecodingError, min_len)] if min_len else None,
        post=dpost, note=note)

_msg_contracts("WhoIsRouterToNetwork", ["wirtnNetwork"], "sm.who_is_router(self.wirtnNetwork)",
    {"self.wirtnNetwork": "(old(npdu.pduData)[0] * 256 + old(npdu.pduData)[1]) if len(old(npdu.pduData)) > 0 else None",
     "npdu.pduData[:]": "old(npdu.pduData)[2:]"},
    "len(old(npdu.pduData)) == 1", {"wirtnNetwork": NoneOr(Int(0, 65535))})

_msg_contracts("ICouldBeRouterToNetwork", ["icbrtnNetwork", "icbrtnPerformanceIndex"],
    "sm.i_could_be_router(self.icbrtnNetwork, self.icbrtnPerformanceIndex)",
    {"self.icbrtnNetwork": "old(npdu.pduData)[0] * 256 + old(npdu.pduData)[1]", "self.icbrtnPerformanceIndex": "old(npdu.pduData)[2]",
     "npdu.pduData[:]": "old(npdu.pduData)[3:]"},
    "len(old(npdu.pduData)) < 3", {"icbrtnNetwork": Int(0, 65535), "icbrtnPerformanceIndex": Int(0, 255)})

_msg_contracts("RejectMessageToNetwork", ["rmtnRejectionReason", "rmtnDNET"],
    "sm.reject_message(self.rmtnRejectionReason, self.rmtnDNET)",
    {"self.rmtnRejectionReason": "old(npdu.pduData)[0]", "self.rmtnDNET": "old(npdu.pduData)[1] * 256 + old(npdu.pduData)[2]",
     "npdu.pduData[:]": "old(npdu.pduData)[3:]"},
    "len(old(npdu.pduData)) < 3", {"rmtnRejectionReason": Int(0, 255), "rmtnDNET": Int(0, 65535)})

_msg_contracts("EstablishConnectionToNetwork", ["ectnDNET", "ectnTerminationTime"],
    "sm.establish_connection(self.ectnDNET, self.ectnTerminationTime)",
    {"self.ectnDNET": "old(npdu.pduData)[0] * 256 + old(npdu.pduData)[1]", "self.ectnTerminationTime": "old(npdu.pduData)[2]",
     "npdu.pduData[:]": "old(npdu.pduData)[3:]"},
    "len(old(npdu.pduData)) < 3", {"ectnDNET": Int(0, 65535), "ectnTerminationTime": Int(0, 255)})

_msg_contracts("DisconnectConnectionToNetwork", ["dctnDNET"], "sm.disconnect_connection(self.dctnDNET)",
    {"self.dctnDNET": "old(npdu.pduData)[0] * 256 + old(npdu.pduData)[1]", "npdu.pduData[:]": "old(npdu.pduData)[2:]"},
    "len(old(npdu.pduData)) < 2", {"dctnDNET": Int(0, 65535)})

_msg_contracts("WhatIsNetworkNumber", [], "b''", {}, None, {})

_msg_contracts("NetworkNumberIs", ["nniNet", "nniFlag"], "sm.network_number_is(self.nniNet, self.nniFlag)",
    {"self.nniNet": "old(npdu.pduData)[0] * 256 + old(npdu.pduData)[1]", "self.nniFlag": "old(npdu.pduData)[2]",
     "npdu.pduData[:]": "old(npdu.pduData)[3:]"},
    "len(old(npdu.pduData)) < 3", {"nniNet": Int(0, 65535), "nniFlag": Int(0, 255)})

# list-valued messages: lists of 0..NETS_BOUND networks (bounded in structure, every number symbolic)
NETS_BOUND = 3

def NetLists(n=NETS_BOUND):
    return OneOf(*[List(*[Int(0, 65535) for _ in range(k)]) for k in range(n + 1)])

for _cls, _attr in (("IAmRouterToNetwork", "iartnNetworkList"), ("RouterBusyToNetwork", "rbtnNetworkList"), ("RouterAvailableToNetwork", "ratnNetworkList")):
    _msg_contracts(_cls, [_attr], "sm.nets(self.%s)" % _attr,
        {"self." + _attr: "sm.parse_nets(old(npdu.pduData))", "npdu.pduData[:]": "b''"},
        "len(old(npdu.pduData)) % 2 != 0", {_attr: NetLists()},
        blank={_attr: Token()},
        note="bounded in structure: lists of 0..%d network numbers on the encode side, 0..%d octets on the decode side" % (NETS_BOUND, 2 * NETS_BOUND + 1))

# decode side of the list messages needs a bounded buffer for the loop to unroll
from pyvc.contracts import REGISTRY
for _cls in ("IAmRouterToNetwork", "RouterBusyToNetwork", "RouterAvailableToNetwork"):
    REGISTRY["bacpypes.npdu:%s.decode" % _cls].params["npdu"] = OpaqueNPCIObj("bacpypes.npdu:NPDU", pduData=Bytes(0, 2 * NETS_BOUND + 1, mutable=True))

# routing tables: 0..RT_BOUND entries (bounded in structure); DNET, port ID, port info (0..255 octets) symbolic
RT_BOUND = 2

def RTEObj():
    return Obj("bacpypes.npdu:RoutingTableEntry", rtDNET=Int(0, 65535), rtPortID=Int(0, 255), rtPortInfo=Bytes(0, 255))

def RTables(n=RT_BOUND):
    return OneOf(*[List(*[RTEObj() for _ in range(k)]) for k in range(n + 1)])

def rt_tuples(table):
    return [(e.rtDNET, e.rtPortID, e.rtPortInfo) for e in table]

def parse_rt(data):
    """(entries, consumed) or None when truncated; entries are (dnet, port, info)"""
    if len(data) < 1:
        return None
    n = data[0]
    pos = 1
    out = []
    for i in range(n):
        if len(data) < pos + 4:
            return None
        ln = data[pos + 3]
        if len(data) < pos + 4 + ln:
            return None
        out.append((data[pos] * 256 + data[pos + 1], data[pos + 2], data[pos + 4:pos + 4 + ln]))
        pos = pos + 4 + ln
    return (out, pos)

def mk_rte(t):
    from bacpypes.npdu import RoutingTableEntry
    e = object.__new__(RoutingTableEntry)
    e.rtDNET = t[0]
    e.rtPortID = t[1]
    e.rtPortInfo = t[2]
    return e

for _cls, _attr in (("InitializeRoutingTable", "irtTable"), ("InitializeRoutingTableAck", "irtaTable")):
    post = dict(("npdu." + f, "self." + f) for f in _NPCI_COPY)
    post["npdu.pduData[:]"] = "old(npdu.pduData) + sm.routing_table(rt_tuples(self.%s))" % _attr
    contract("bacpypes.npdu:%s.encode" % _cls,
        params={"self": MsgObj(_cls, **{_attr: RTables()}), "npdu": NPDUBuf()},
        post=post, note="bounded in structure: tables of 0..%d entries, port info of 0..255 octets symbolic" % RT_BOUND)
    dpost = dict(("self." + f, "npdu." + f) for f in _NPCI_COPY)
    dpost["self." + _attr] = "[exactly(mk_rte(t)) for t in parse_rt(old(npdu.pduData))[0]]"
    dpost["npdu.pduData[:]"] = "old(npdu.pduData)[parse_rt(old(npdu.pduData))[1]:]"
    contract("bacpypes.npdu:%s.decode" % _cls,
        params={"self": MsgObj(_cls, **{_attr: Token()}), "npdu": NPDUBuf()},
        requires=["len(npdu.pduData) == 0 or npdu.pduData[0] <= %d" % RT_BOUND],
        raises=[(DecodingError, "parse_rt(old(npdu.pduData)) is None")],
        post=dpost, note="bounded in structure: entry count octet 0..%d" % RT_BOUND)
