"""
Contracts for the transaction bookkeeping of bacpypes.appservice.
StateMachineAccessPoint (C11): invoke-ID allocation and the demultiplexing of
every inbound PDU to the one live transaction with the same peer address and
invoke ID.

The access point is a *real* StateMachineAccessPoint whose two transaction
lists hold a bounded number of live transactions (see BOUND) with symbolic
invoke IDs and peers.  The listed transactions are instances of sidecar
subclasses of the real ClientSSM / ServerSSM whose four entry points record
(kind, transaction, apdu) on the ghost channel `deliver` instead of running the
state machine (the state machines themselves are under contract in
contracts.ssm); where the access point creates a transaction itself
(`ServerSSM(self, src)`, `ClientSSM(self, dst)`) the module global is bound to
the same sidecar subclass, so the real constructor runs and the first call is
recorded.
"""
import ast
from pyvc.contracts import (contract, external, Obj, Bytes, Int, Bool, Const, OneOf, Fn, Maybe, trace)
from contracts.comm import Tok, Token
from bacpypes.appservice import ClientSSM, ServerSSM, StateMachineAccessPoint
from bacpypes.app import DeviceInfoCache
from bacpypes.pdu import LocalStation
from contracts.ssm import PDUObj, ConfReq, SimpleAck, ComplexAck, SegAck, ErrorP, RejectP, AbortP

BOUND = 4 if __import__("os").environ.get("VERIF_TIER") == "thorough" else 3       # live transactions per list (structural bound of these units)

A, B, C3 = LocalStation(1), LocalStation(2), LocalStation(3)

def ghost_deliver(kind, tr, apdu):
    """ghost: a PDU handed to a transaction's entry point"""

external("contracts.ssm_sap:ghost_deliver", "deliver", method=False)
external("bacpypes.comm:Client.request", "to_net")
external("bacpypes.comm:ServiceAccessPoint.sap_request", "to_app")
external("bacpypes.comm:ServiceAccessPoint.sap_response", "to_app")

class GhostClientSSM(ClientSSM):
    def indication(self, apdu):
        ghost_deliver('client.indication', self, apdu)
    def confirmation(self, apdu):
        ghost_deliver('client.confirmation', self, apdu)

class GhostServerSSM(ServerSSM):
    def indication(self, apdu):
        ghost_deliver('server.indication', self, apdu)
    def confirmation(self, apdu):
        ghost_deliver('server.confirmation', self, apdu)

def SAPObj(nclient, nserver):
    def build(b, name):
        sap = object.__new__(StateMachineAccessPoint)
        sap.__dict__.update(clientID=None, clientPeer=Tok('lower'), serviceID=None, serviceElement=Tok('upper'), localDevice=None,
                            clientTransactions=[], serverTransactions=[],
                            numberOfApduRetries=3, apduTimeout=3000, maxApduLengthAccepted=1024, segmentationSupported='noSegmentation',
                            segmentTimeout=1500, maxSegmentsAccepted=2, proposedWindowSize=2, dccEnableDisable='enable', applicationTimeout=3000)
        sap.nextInvokeID = Int(0, 255).build(b, name + '.nextInvokeID')
        cache = object.__new__(DeviceInfoCache)
        cache.cache = {}
        sap.deviceInfoCache = cache
        for cls, lst, n, tag in ((GhostClientSSM, sap.clientTransactions, nclient, 'c'), (GhostServerSSM, sap.serverTransactions, nserver, 's')):
            for i in range(n):
                tr = object.__new__(cls)
                tr.__dict__.update(ssmSAP=sap, pdu_address=OneOf(A, B).build(b, '%s.%s%d.peer' % (name, tag, i)),
                                   invokeID=Int(0, 255).build(b, '%s.%s%d.invokeID' % (name, tag, i)), state=2 if tag == 'c' else 3,
                                   device_info=None, isScheduled=True)
                lst.append(tr)
        b.built[name] = sap
        return sap
    return Fn(build)

def distinct(lst):
    """no two live transactions share peer and invoke ID (kept by allocation, see get_next_invoke_id / sap_indication)"""
    return all(not (lst[i].invokeID == lst[j].invokeID and lst[i].pdu_address == lst[j].pdu_address)
               for i in range(len(lst)) for j in range(i + 1, len(lst)))

def match(lst, invoke, addr):
    return [t for t in lst if t.invokeID == invoke and t.pdu_address == addr]

def same_list(now, before):
    return len(now) == len(before) and all(now[i] is before[i] for i in range(len(before)))

# -- invoke-ID allocation -----------------------------------------------------------------------------------

def alloc_ok(sap, addr, result, old_next):
    """a free ID for that peer, the cursor moves past it"""
    return (0 <= result <= 255 and len(match(sap.clientTransactions, result, addr)) == 0
            and sap.nextInvokeID == (result + 1) % 256
            # the first free one at or after the cursor: nothing in between was free
            and all(len(match(sap.clientTransactions, (old_next + k) % 256, addr)) > 0 for k in range((result - old_next) % 256)))

for _n in range(BOUND + 1):
    contract("bacpypes.appservice:StateMachineAccessPoint.get_next_invoke_id",
        name="bacpypes.appservice:StateMachineAccessPoint.get_next_invoke_id[%d live]" % _n,
        params={"self": SAPObj(_n, 0), "addr": OneOf(A, B)},
        requires=["distinct(self.clientTransactions)"],
        ensures=["alloc_ok(self, addr, result, old(self.nextInvokeID))",
                 "same_list(self.clientTransactions, old(list(self.clientTransactions)))"],
        modifies=["self.nextInvokeID"], max_paths=20000,
        note="bounded in structure: %d live client transactions with symbolic invoke IDs and peers; the cursor is any value 0..255" % _n)

# -- a new request from the application ---------------------------------------------------------------------------

def start_ok(sap, apdu, calls, old_list, old_invoke):
    lst = sap.clientTransactions
    if len(lst) != len(old_list) + 1 or not all(lst[i] is old_list[i] for i in range(len(old_list))):
        return False
    new = lst[-1]
    return (new.pdu_address is apdu.pduDestination and apdu.apduInvokeID is not None and 0 <= apdu.apduInvokeID <= 255
            and (old_invoke is None or apdu.apduInvokeID == old_invoke)
            and len(match(old_list, apdu.apduInvokeID, apdu.pduDestination)) == 0          # not used by another live request to that peer
            and len(calls) == 1 and calls[0][0] == 'client.indication' and calls[0][1] is new and calls[0][2] is apdu)

for _n in range(BOUND):
    contract("bacpypes.appservice:StateMachineAccessPoint.sap_indication",
        name="bacpypes.appservice:StateMachineAccessPoint.sap_indication[confirmed request, %d live]" % _n,
        params={"self": SAPObj(_n, 1), "apdu": ConfReq(apduSeg=Const(None), apduMor=Const(None), apduSA=Const(None), apduSeq=Const(None), apduWin=Const(None),
                                                        apduMaxSegs=Const(None), apduMaxResp=Const(None), apduInvokeID=Maybe(Int(0, 255)),
                                                        pduDestination=OneOf(A, B), pduData=Const(None))},
        globals_={"ClientSSM": ("bacpypes.appservice", GhostClientSSM)},
        requires=["distinct(self.clientTransactions)"],
        raises=[(RuntimeError, "apdu.apduInvokeID is not None and len(match(self.clientTransactions, apdu.apduInvokeID, apdu.pduDestination)) > 0")],
        ensures=["start_ok(self, apdu, trace('deliver'), old(list(self.clientTransactions)), old(apdu.apduInvokeID))",
                 "distinct(self.clientTransactions)",
                 "same_list(self.serverTransactions, old(list(self.serverTransactions)))"],
        unchanged_on_raise=["list(self.clientTransactions)"],
        modifies=["self.nextInvokeID", "self.clientTransactions", "apdu.apduInvokeID"], max_paths=20000,
        note="bounded in structure: %d live client transactions; application-chosen or allocated invoke ID" % _n)

# -- inbound PDUs: the block of confirmation() after decoding ------------------------------------------------------

def _demux_block(fn):
    """`if isinstance(apdu, ConfirmedRequestPDU): ... else: raise` -- everything after `apdu.decode(pdu)`"""
    for node in fn.body:
        if (isinstance(node, ast.If) and isinstance(node.test, ast.Call) and getattr(node.test.func, 'id', None) == 'isinstance'
                and getattr(node.test.args[0], 'id', None) == 'apdu' and getattr(node.test.args[1], 'id', None) == 'ConfirmedRequestPDU'):
            return [node]
    return None

def demux_ok(sap, apdu, calls, old_c, old_s):
    t = apdu.apduType
    if t == 0:
        m = match(old_s, apdu.apduInvokeID, apdu.pduSource)
        if not same_list(sap.clientTransactions, old_c):
            return False
        if m:       # a retransmission / further segment: the transaction that is already working on it, no second one
            return (same_list(sap.serverTransactions, old_s)
                    and len(calls) == 1 and calls[0][0] == 'server.indication' and calls[0][1] is m[0] and calls[0][2] is apdu)
        lst = sap.serverTransactions
        if len(lst) != len(old_s) + 1 or not all(lst[i] is old_s[i] for i in range(len(old_s))):
            return False
        return (lst[-1].pdu_address is apdu.pduSource
                and len(calls) == 1 and calls[0][0] == 'server.indication' and calls[0][1] is lst[-1] and calls[0][2] is apdu)
    if not (same_list(sap.clientTransactions, old_c) and same_list(sap.serverTransactions, old_s)):
        return False
    to_client = t in (2, 3, 5, 6) or bool(apdu.apduSrv)
    m = match(old_c if to_client else old_s, apdu.apduInvokeID, apdu.pduSource)
    if not m:       # other peer, other ID, or already completed: ignored
        return len(calls) == 0
    return (len(calls) == 1 and calls[0][0] == ('client.confirmation' if to_client else 'server.indication')
            and calls[0][1] is m[0] and calls[0][2] is apdu)

_SRC = dict(pduSource=OneOf(A, B, C3), pduData=Const(None))
_INBOUND = {
    "ConfirmedRequest": lambda: ConfReq(**_SRC), "SimpleAck": lambda: SimpleAck(**_SRC), "ComplexAck": lambda: ComplexAck(**_SRC),
    "SegmentAck": lambda: SegAck(**_SRC), "Error": lambda: ErrorP(**_SRC), "Reject": lambda: RejectP(**_SRC), "Abort": lambda: AbortP(**_SRC),
}

for _kn, _mk in _INBOUND.items():
    contract("bacpypes.appservice:StateMachineAccessPoint.confirmation",
        name="bacpypes.appservice:StateMachineAccessPoint.confirmation[block: demultiplexing, %s]" % _kn,
        region=_demux_block,
        params={"self": SAPObj(2, 2), "apdu": _mk()},
        globals_={"ServerSSM": ("bacpypes.appservice", GhostServerSSM)},
        requires=["distinct(self.clientTransactions)", "distinct(self.serverTransactions)"],
        ensures=["demux_ok(self, apdu, trace('deliver'), old(list(self.clientTransactions)), old(list(self.serverTransactions)))",
                 "len(trace('to_app')) == 0 and len(trace('to_net')) == 0"],
        modifies=["self.serverTransactions"], max_paths=20000,
        note="bounded in structure: 2 live client and 2 live server transactions with symbolic invoke IDs over 2 peers; the PDU comes from one "
             "of 3 peers with any invoke ID")

# -- the application's answer -------------------------------------------------------------------------------------------

def answer_ok(sap, apdu, calls, old_s):
    m = match(old_s, apdu.apduInvokeID, apdu.pduDestination)
    if not same_list(sap.serverTransactions, old_s):
        return False
    if not m:
        return len(calls) == 0
    return len(calls) == 1 and calls[0][0] == 'server.confirmation' and calls[0][1] is m[0] and calls[0][2] is apdu

_DST = dict(pduDestination=OneOf(A, B, C3), pduData=Const(None))
contract("bacpypes.appservice:StateMachineAccessPoint.sap_confirmation",
    params={"self": SAPObj(1, BOUND), "apdu": OneOf(SimpleAck(**_DST), ComplexAck(**_DST), ErrorP(**_DST), RejectP(**_DST), AbortP(**_DST))},
    requires=["distinct(self.serverTransactions)"],
    ensures=["answer_ok(self, apdu, trace('deliver'), old(list(self.serverTransactions)))",
             "same_list(self.clientTransactions, old(list(self.clientTransactions)))"],
    modifies=[], max_paths=20000,
    note="bounded in structure: %d live server transactions" % BOUND)
