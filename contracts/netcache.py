"""
Contracts for netservice.RouterInfoCache: the loop-free lookup is verified
with symbolic network numbers (tables of 0..3 paths); the mutating operations
are verified over a structurally bounded cache (see Cache1) with the abstract
view and the representation invariant as postconditions; bounded/c19.py drives
whole histories natively on top.
"""
from pyvc.contracts import contract, Obj, Int, Const, OneOf, NoneOr, Fn, Tuple
from contracts.comm import Token, Tok

def CacheWithPaths(k):
    def build(b, name):
        from bacpypes.netservice import RouterInfoCache, RouterInfo
        c = object.__new__(RouterInfoCache)
        c.routers = {}
        c.path_info = {}
        for i in range(k):
            s = Int(0, 65534).build(b, "%s.path%d.snet" % (name, i))
            d = Int(0, 65534).build(b, "%s.path%d.dnet" % (name, i))
            ri = object.__new__(RouterInfo)
            ri.snet, ri.address, ri.dnets = s, Tok("router%d" % i), {}
            c.path_info[(s, d)] = ri
        b.built[name] = c
        return c
    return Fn(build)

def keys_distinct(c):
    ks = list(c.path_info.keys())
    return all(not (ks[i][0] == ks[j][0] and ks[i][1] == ks[j][1]) for i in range(len(ks)) for j in range(i + 1, len(ks)))

def lookup(c, snet, dnet):
    for (s, d), ri in c.path_info.items():
        if s == snet and d == dnet:
            return ri
    return None

for _k in range(4):
    contract("bacpypes.netservice:RouterInfoCache.get_router_info", name="bacpypes.netservice:RouterInfoCache.get_router_info[%d paths]" % _k,
        params={"self": CacheWithPaths(_k), "snet": NoneOr(Int(0, 65534)), "dnet": Int(0, 65534)},
        requires=["keys_distinct(self)"],
        post={"result": "lookup(self, snet, dnet)"},        # the record credited with (snet, dnet), or None; the cache is not changed (frame)
        applies_when="len(self.path_info) == %d" % _k,
        note="bounded in structure: %d known paths, all network numbers symbolic" % _k)

# -- the mutating operations over a structurally bounded cache: every assignment of 3 destinations of network 1 to {nobody, router A, router B} ----
# (plus one path on network 2 that must never be touched); argument sets are every non-empty subset of the destinations plus a foreign one

from pyvc.contracts import Bool
from bacpypes.pdu import LocalStation

RA, RB, RC = LocalStation(1), LocalStation(2), LocalStation(3)
DN = (10, 20, 30)
SUBSETS = ([10], [20], [30], [10, 20], [20, 30], [10, 30], [10, 20, 30], [40], [10, 40])

def Cache1():
    def build(b, name):
        from bacpypes.netservice import RouterInfoCache
        c = RouterInfoCache()
        for d in DN:
            who = OneOf(None, 'A', 'B').build(b, '%s.net%d' % (name, d))
            if who is not None:
                c.update_router_info(1, RA if who == 'A' else RB, [d])
        c.update_router_info(2, RA, [10])          # another attached network: its knowledge is separate
        b.built[name] = c
        return c
    return Fn(build)

def view(c):
    """abstract view: (attached network, destination) -> address of the router credited with it"""
    out = {}
    for s in (1, 2, 3):
        for d in DN + (40,):
            ri = c.get_router_info(s, d)
            if ri is not None:
                out[(s, d)] = ri.address
    return out

def rep_ok(c):
    """representation invariant: the two indexes agree, nothing dangles in either direction"""
    for (s, d), ri in c.path_info.items():
        if c.routers.get(s, {}).get(ri.address) is not ri or d not in ri.dnets:
            return False
    for s, table in c.routers.items():
        for a, ri in table.items():
            if not (ri.address == a) or len(ri.dnets) == 0:
                return False
            for d in ri.dnets:
                if c.path_info.get((s, d)) is not ri:
                    return False
    return True

def learned(old, s, a, D):
    new = dict(old)
    for d in D:
        new[(s, d)] = a
    return new

contract("bacpypes.netservice:RouterInfoCache.update_router_info",
    params={"self": Cache1(), "snet": Const(1), "address": OneOf(RA, RB, RC), "dnets": OneOf(*SUBSETS)},
    ensures=["rep_ok(self)", "view(self) == learned(old(view(self)), snet, address, dnets)"],       # newest knowledge wins, everything else unchanged
    modifies=["self.routers", "self.path_info", "self.routers[1]", "self.*"], frame_on_raise=False,
    note="bounded in structure: 27 cache states x 3 routers x 9 destination sets")

def forgot_router(old, s, a, D):
    return dict((k, v) for k, v in old.items() if not (k[0] == s and v == a and (D is None or k[1] in D)))

def forgot_dnets(old, s, D):
    return dict((k, v) for k, v in old.items() if not (k[0] == s and k[1] in D))

contract("bacpypes.netservice:RouterInfoCache.delete_router_info", name="bacpypes.netservice:RouterInfoCache.delete_router_info[router]",
    params={"self": Cache1(), "snet": Const(1), "address": OneOf(RA, RB, RC), "dnets": OneOf(None, *SUBSETS)},
    ensures=["rep_ok(self)", "view(self) == forgot_router(old(view(self)), snet, address, dnets)"],
    modifies=["self.routers", "self.path_info", "self.*"],
    note="forget a router (entirely, or for the given destinations): exactly those paths go, the router only when it leads nowhere any more")

contract("bacpypes.netservice:RouterInfoCache.delete_router_info", name="bacpypes.netservice:RouterInfoCache.delete_router_info[destinations]",
    params={"self": Cache1(), "snet": Const(1), "address": Const(None), "dnets": OneOf(*SUBSETS)},
    ensures=["rep_ok(self)", "view(self) == forgot_dnets(old(view(self)), snet, dnets)"],
    modifies=["self.routers", "self.path_info", "self.*"])

def renumbered(old, o, n):
    return dict((((n if k[0] == o else k[0]), k[1]), v) for k, v in old.items())

contract("bacpypes.netservice:RouterInfoCache.update_source_network",
    params={"self": Cache1(), "old_snet": OneOf(1, 2, 3), "new_snet": Const(3)},
    requires=["old_snet != new_snet"],
    ensures=["rep_ok(self)", "view(self) == renumbered(old(view(self)), old_snet, new_snet)"],
    modifies=["self.routers", "self.path_info", "self.*"],
    note="the attached network learns its number: its knowledge moves with it (onto a network that holds nothing yet)")
