"""
Contracts for netservice.RouterInfoCache: the loop-free lookup is verified
deductively (symbolic network numbers, tables of 0..3 paths); the mutating
operations over nested dicts of identity-compared records are decided by the
executable contracts of bounded/c19.py over the property's own bound.
"""
from pyvc.contracts import contract, Obj, Int, Const, OneOf, NoneOr, Fn, Tuple
from contracts.comm import Token, Tok

def CacheWithPaths(k):
    def build(b, name):
        from bacpypes.netservice import RouterInfoCache, RouterInfo
        c = object.__new__(RouterInfoCache)
        c.routers = {}
        c.path_info = {}
        for i in range(k):
            s = Int(0, 65534).build(b, "%s.path%d.snet" % (name, i))
            d = Int(0, 65534).build(b, "%s.path%d.dnet" % (name, i))
            ri = object.__new__(RouterInfo)
            ri.snet, ri.address, ri.dnets = s, Tok("router%d" % i), {}
            c.path_info[(s, d)] = ri
        b.built[name] = c
        return c
    return Fn(build)

def keys_distinct(c):
    ks = list(c.path_info.keys())
    return all(not (ks[i][0] == ks[j][0] and ks[i][1] == ks[j][1]) for i in range(len(ks)) for j in range(i + 1, len(ks)))

def lookup(c, snet, dnet):
    for (s, d), ri in c.path_info.items():
        if s == snet and d == dnet:
            return ri
    return None

for _k in range(4):
    contract("bacpypes.netservice:RouterInfoCache.get_router_info", name="bacpypes.netservice:RouterInfoCache.get_router_info[%d paths]" % _k,
        params={"self": CacheWithPaths(_k), "snet": NoneOr(Int(0, 65534)), "dnet": Int(0, 65534)},
        requires=["keys_distinct(self)"],
        post={"result": "lookup(self, snet, dnet)"},        # the record credited with (snet, dnet), or None; the cache is not changed (frame)
        applies_when="len(self.path_info) == %d" % _k,
        note="bounded in structure: %d known paths, all network numbers symbolic" % _k)
