"""
Contracts for bacpypes.comm: the octet buffer PDUData and the PCI copy.
Every later codec contract is stated over these.
"""
from pyvc.contracts import contract, Obj, Bytes, Int, Bool, Const, OneOf, Fn, Same
from bacpypes.errors import DecodingError
import struct

class Tok(object):
    """an opaque token standing for an arbitrary value carried through
    unchanged (user data, addresses); compared by identity"""
    def __init__(self, name='tok'):
        self.name = name
    def __repr__(self):
        return "<Tok %s>" % self.name
    def __deepcopy__(self, memo):
        return self

def Token():
    return Fn(lambda b, name: Tok(name))

def PDUDataObj(**kw):
    return Obj("bacpypes.comm:PDUData", pduData=Bytes(mutable=True), **kw)

def PDUObj(**kw):
    f = dict(pduData=Bytes(mutable=True), pduUserData=Token(), pduSource=Token(), pduDestination=Token())
    f.update(kw)
    return Obj("bacpypes.comm:PDU", **f)

contract("bacpypes.comm:PDUData.get",
    params={"self": PDUDataObj()},
    raises=[(DecodingError, "len(self.pduData) == 0")],
    post={"result": "old(self.pduData)[0]",
          "self.pduData[:]": "old(self.pduData)[1:]"})

contract("bacpypes.comm:PDUData.get_data",
    params={"self": PDUDataObj(), "dlen": Int(0)},
    requires=["dlen >= 0"],
    raises=[(DecodingError, "len(self.pduData) < dlen")],
    post={"result": "old(self.pduData)[:dlen]",
          "self.pduData[:]": "old(self.pduData)[dlen:]"})

contract("bacpypes.comm:PDUData.get_short",
    params={"self": PDUDataObj()},
    raises=[(DecodingError, "len(self.pduData) < 2")],
    post={"result": "old(self.pduData)[0] * 256 + old(self.pduData)[1]",
          "self.pduData[:]": "old(self.pduData)[2:]"})

contract("bacpypes.comm:PDUData.get_long",
    params={"self": PDUDataObj()},
    raises=[(DecodingError, "len(self.pduData) < 4")],
    post={"result": "((old(self.pduData)[0] * 256 + old(self.pduData)[1]) * 256 + old(self.pduData)[2]) * 256 + old(self.pduData)[3]",
          "self.pduData[:]": "old(self.pduData)[4:]"})

contract("bacpypes.comm:PDUData.put",
    params={"self": PDUDataObj(), "n": Int()},
    raises=[(ValueError, "not (0 <= n <= 255)")],
    post={"self.pduData[:]": "old(self.pduData) + bytes([n])"})

contract("bacpypes.comm:PDUData.put_data", name="bacpypes.comm:PDUData.put_data[bytes]",
    params={"self": PDUDataObj(), "data": OneOf(Bytes(), Bytes(mutable=True))},
    post={"self.pduData[:]": "old(self.pduData) + data"},
    applies_when="isinstance(data, (bytes, bytearray))")

contract("bacpypes.comm:PDUData.put_short",
    params={"self": PDUDataObj(), "n": Int()},
    post={"self.pduData[:]": "old(self.pduData) + bytes([(n // 256) % 256, n % 256])"})

contract("bacpypes.comm:PDUData.put_long",
    params={"self": PDUDataObj(), "n": Int()},
    post={"self.pduData[:]": "old(self.pduData) + bytes([(n // 16777216) % 256, (n // 65536) % 256, (n // 256) % 256, n % 256])"})

contract("bacpypes.comm:PCI.update",
    params={"self": Obj("bacpypes.comm:PCI", pduUserData=Token(), pduSource=Token(), pduDestination=Token()),
            "pci": Obj("bacpypes.comm:PCI", pduUserData=Token(), pduSource=Token(), pduDestination=Token())},
    post={"self.pduUserData": "pci.pduUserData",
          "self.pduSource": "pci.pduSource",
          "self.pduDestination": "pci.pduDestination"})

# bacpypes.pdu.PCI adds the two BACnet fields

def BPCIFields():
    return dict(pduUserData=Token(), pduSource=Token(), pduDestination=Token(),
                pduExpectingReply=Token(), pduNetworkPriority=Token())

def BPDUObj(**kw):
    f = dict(pduData=Bytes(mutable=True))
    f.update(BPCIFields())
    f.update(kw)
    return Obj("bacpypes.pdu:PDU", **f)

contract("bacpypes.pdu:PCI.update",
    params={"self": Obj("bacpypes.pdu:PCI", **BPCIFields()),
            "pci": Obj("bacpypes.pdu:PCI", **BPCIFields())},
    post={"self.pduUserData": "pci.pduUserData",
          "self.pduSource": "pci.pduSource",
          "self.pduDestination": "pci.pduDestination",
          "self.pduExpectingReply": "pci.pduExpectingReply",
          "self.pduNetworkPriority": "pci.pduNetworkPriority"})
