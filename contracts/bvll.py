"""
Contracts for bacpypes.bvll: the BVLL header (BVLCI, BVLPDU), the twelve
BVLL functions, and the six-octet address helpers of bacpypes.pdu.
Postconditions are stated against spec.bvll (Annex J).
"""
from pyvc.contracts import contract, exactly, buflen, Obj, Bytes, Int, Bool, Const, OneOf, NoneOr, List, Tuple
from bacpypes.errors import DecodingError, EncodingError
from contracts.comm import Token, BPDUObj, BPCIFields
from spec import bvll as sv

def BVLCIFields(**kw):
    f = dict(bvlciType=Int(), bvlciFunction=Int(), bvlciLength=Int())
    f.update(BPCIFields())
    f.update(kw)
    return f

def OpaqueBVLCI(cls="bacpypes.bvll:BVLCI", **kw):
    f = dict(bvlciType=Token(), bvlciFunction=Token(), bvlciLength=Token())
    f.update(BPCIFields())
    f.update(kw)
    return Obj(cls, **f)

_PCI_COPY = ("pduUserData", "pduSource", "pduDestination", "pduExpectingReply", "pduNetworkPriority")
_BVLCI_COPY = _PCI_COPY + ("bvlciType", "bvlciFunction", "bvlciLength")

contract("bacpypes.bvll:BVLCI.update",
    params={"self": OpaqueBVLCI(), "bvlci": OpaqueBVLCI()},
    post=dict(("self." + f, "bvlci." + f) for f in _BVLCI_COPY))

# BVLCI.encode reads self.pduData: it is only ever called on a BVLPDU
contract("bacpypes.bvll:BVLPDU.encode",
    params={"self": Obj("bacpypes.bvll:BVLPDU", pduData=Bytes(mutable=True), **BVLCIFields(bvlciType=Int(0, 255), bvlciFunction=Int(0, 255))),
            "pdu": BPDUObj()},
    requires=["len(self.pduData) + 4 <= 65535"],
    raises=[(EncodingError, "self.bvlciLength != len(self.pduData) + 4")],       # a stale length is refused, never sent
    post=dict([("pdu." + f, "self." + f) for f in _PCI_COPY] +
              [("pdu.pduData[:]", "old(pdu.pduData) + bytes([self.bvlciType, self.bvlciFunction]) + sv.short(self.bvlciLength) + self.pduData")]))

contract("bacpypes.bvll:BVLPDU.decode",
    params={"self": Obj("bacpypes.bvll:BVLPDU", pduData=Token(), **BVLCIFields(bvlciType=Token(), bvlciFunction=Token(), bvlciLength=Token())),
            "pdu": BPDUObj()},
    raises=[(DecodingError, "sv.parse_header(old(pdu.pduData)) is None")],
    post=dict([("self." + f, "pdu." + f) for f in _PCI_COPY] +
              [("self.bvlciType", "129"), ("self.bvlciFunction", "sv.parse_header(old(pdu.pduData))[0]"),
               ("self.bvlciLength", "len(old(pdu.pduData))"),
               ("self.pduData", "sv.parse_header(old(pdu.pduData))[1]"),
               ("pdu.pduData[:]", "b''")]))

# -- addresses -------------------------------------------------------------------

def IPObj(**kw):
    """a B/IP address as the table encoders see it: six octets and a mask"""
    f = dict(addrType=Const(2), addrNet=Const(None), addrAddr=Bytes(6, 6), addrLen=Const(6), addrRoute=Const(None), addrMask=Int(0, 4294967295))
    f.update(kw)
    return Obj("bacpypes.pdu:Address", **f)

def ip_ok(a, six):
    """a is the address the six octets denote"""
    return (a.addrType == 2 and a.addrNet is None and a.addrAddr == six and a.addrLen == 6 and a.addrRoute is None
            and a.addrPort == six[4] * 256 + six[5] and a.addrIP == ((six[0] * 256 + six[1]) * 256 + six[2]) * 256 + six[3])

contract("bacpypes.pdu:unpack_ip_addr",
    params={"addr": OneOf(Bytes(6, 6), Bytes(6, 6, mutable=True))},
    post={"result": "(ntoa(addr[0:4]), addr[4] * 256 + addr[5])"})

import socket
def ntoa(b):
    return socket.inet_ntoa(bytes(b))

# -- the twelve functions ------------------------------------------------------------

def MsgObj(cls, **fields):
    return OpaqueBVLCI("bacpypes.bvll:" + cls, **fields)

def BVLPDUBuf(**kw):
    f = dict(pduData=Bytes(mutable=True))
    f.update(kw)
    return OpaqueBVLCI("bacpypes.bvll:BVLPDU", **f)

def _enc(cls, body, shapes, extra_post=None, requires=None, note=None, length=None):
    post = dict(("bvlpdu." + f, "self." + f) for f in _BVLCI_COPY)
    if length is not None:       # encode recomputes the length field first
        post["self.bvlciLength"] = length
        post["bvlpdu.bvlciLength"] = length
    post["bvlpdu.pduData[:]"] = "old(bvlpdu.pduData) + " + body
    if extra_post:
        post.update(extra_post)
    contract("bacpypes.bvll:%s.encode" % cls, params={"self": MsgObj(cls, **shapes), "bvlpdu": BVLPDUBuf()},
             requires=requires, post=post, note=note)

def _dec(cls, shapes, posts, ensures=None, raises=None, buf=None, note=None, modifies=None):
    post = dict(("self." + f, "bvlpdu." + f) for f in _BVLCI_COPY)
    post.update(posts)
    contract("bacpypes.bvll:%s.decode" % cls,
             params={"self": MsgObj(cls, **shapes), "bvlpdu": BVLPDUBuf() if buf is None else buf},
             raises=raises, post=post, ensures=ensures, note=note, modifies=modifies)

_enc("Result", "sv.result(self.bvlciResultCode)", {"bvlciResultCode": Int(0, 65535)})
_dec("Result", {"bvlciResultCode": Token()},
     {"self.bvlciResultCode": "old(bvlpdu.pduData)[0] * 256 + old(bvlpdu.pduData)[1]", "bvlpdu.pduData[:]": "old(bvlpdu.pduData)[2:]"},
     raises=[(DecodingError, "len(old(bvlpdu.pduData)) < 2")])

_enc("RegisterForeignDevice", "sv.register_foreign_device(self.bvlciTimeToLive)", {"bvlciTimeToLive": Int(0, 65535)})
_dec("RegisterForeignDevice", {"bvlciTimeToLive": Token()},
     {"self.bvlciTimeToLive": "old(bvlpdu.pduData)[0] * 256 + old(bvlpdu.pduData)[1]", "bvlpdu.pduData[:]": "old(bvlpdu.pduData)[2:]"},
     raises=[(DecodingError, "len(old(bvlpdu.pduData)) < 2")])

for _cls in ("ReadBroadcastDistributionTable", "ReadForeignDeviceTable"):
    _enc(_cls, "b''", {})
    _dec(_cls, {}, {})

for _cls in ("DistributeBroadcastToNetwork", "OriginalUnicastNPDU", "OriginalBroadcastNPDU"):
    _enc(_cls, "self.pduData", {"pduData": Bytes(mutable=True)}, length="4 + len(self.pduData)")
    _dec(_cls, {"pduData": Token()}, {"self.pduData": "old(bvlpdu.pduData)", "bvlpdu.pduData[:]": "b''"})

_enc("ForwardedNPDU", "sv.forwarded_npdu(self.bvlciAddress.addrAddr, self.pduData)",
     {"pduData": Bytes(mutable=True), "bvlciAddress": IPObj()}, length="10 + len(self.pduData)")
_dec("ForwardedNPDU", {"pduData": Token(), "bvlciAddress": Token()},
     {"self.pduData": "old(bvlpdu.pduData)[6:]", "bvlpdu.pduData[:]": "b''"},
     ensures=["ip_ok(self.bvlciAddress, old(bvlpdu.pduData)[0:6])"], modifies=["self.bvlciAddress"],
     raises=[(DecodingError, "len(old(bvlpdu.pduData)) < 6")])

_enc("DeleteForeignDeviceTableEntry", "sv.delete_fdt_entry(self.bvlciAddress.addrAddr)", {"bvlciAddress": IPObj()})
_dec("DeleteForeignDeviceTableEntry", {"bvlciAddress": Token()},
     {"bvlpdu.pduData[:]": "old(bvlpdu.pduData)[6:]"},
     ensures=["ip_ok(self.bvlciAddress, old(bvlpdu.pduData)[0:6])"], modifies=["self.bvlciAddress"],
     raises=[(DecodingError, "len(old(bvlpdu.pduData)) < 6")])

# tables: 0..TABLE_BOUND entries (bounded in structure), addresses/masks/times symbolic
TABLE_BOUND = 2

def BDTs(n=TABLE_BOUND):
    return OneOf(*[List(*[IPObj() for _ in range(k)]) for k in range(n + 1)])

def bdt_tuples(t):
    return [(a.addrAddr, a.addrMask) for a in t]

def bdt_ok(table, data):
    n = len(data) // 10
    if len(table) != n:
        return False
    for k in range(n):
        e = data[10 * k:10 * k + 10]
        if not ip_ok(table[k], e[0:6]):
            return False
        if table[k].addrMask != ((e[6] * 256 + e[7]) * 256 + e[8]) * 256 + e[9]:
            return False
    return True

def FDTEObj():
    return Obj("bacpypes.bvll:FDTEntry", fdAddress=IPObj(addrMask=Const(4294967295)), fdTTL=Int(0, 65535), fdRemain=Int(0, 65535))

def FDTs(n=TABLE_BOUND):
    return OneOf(*[List(*[FDTEObj() for _ in range(k)]) for k in range(n + 1)])

def fdt_tuples(t):
    return [(e.fdAddress.addrAddr, e.fdTTL, e.fdRemain) for e in t]

def fdt_ok(table, data):
    n = len(data) // 10
    if len(table) != n:
        return False
    for k in range(n):
        e = data[10 * k:10 * k + 10]
        if not ip_ok(table[k].fdAddress, e[0:6]):
            return False
        if table[k].fdTTL != e[6] * 256 + e[7] or table[k].fdRemain != e[8] * 256 + e[9]:
            return False
    return True

_tnote = "bounded in structure: tables of 0..%d entries, every address/mask/time symbolic" % TABLE_BOUND
_enc("WriteBroadcastDistributionTable", "sv.bdt(bdt_tuples(self.bvlciBDT))", {"bvlciBDT": BDTs()}, note=_tnote)
_enc("ReadBroadcastDistributionTableAck", "sv.bdt(bdt_tuples(self.bvlciBDT))", {"bvlciBDT": BDTs()}, note=_tnote,
     length="4 + 10 * len(self.bvlciBDT)")
_enc("ReadForeignDeviceTableAck", "sv.fdt(fdt_tuples(self.bvlciFDT))", {"bvlciFDT": FDTs()}, note=_tnote)

def _tbuf():
    return BVLPDUBuf(pduData=Bytes(0, 10 * TABLE_BOUND + 9, mutable=True))

for _cls in ("WriteBroadcastDistributionTable", "ReadBroadcastDistributionTableAck"):
    _dec(_cls, {"bvlciBDT": Token()}, {"bvlpdu.pduData[:]": "b''"},
         ensures=["bdt_ok(self.bvlciBDT, old(bvlpdu.pduData))"], modifies=["self.bvlciBDT"],
         raises=[(DecodingError, "len(old(bvlpdu.pduData)) % 10 != 0")], buf=_tbuf(), note=_tnote)
_dec("ReadForeignDeviceTableAck", {"bvlciFDT": Token()}, {"bvlpdu.pduData[:]": "b''"},
     ensures=["fdt_ok(self.bvlciFDT, old(bvlpdu.pduData))"], modifies=["self.bvlciFDT"],
     raises=[(DecodingError, "len(old(bvlpdu.pduData)) % 10 != 0")], buf=_tbuf(), note=_tnote)

# -- the codec object that sits on the wire side (bvllservice.AnnexJCodec) ---------------
from pyvc.contracts import external
external("bacpypes.comm:Client.request", "down")
external("bacpypes.comm:Server.response", "up")
