"""
Contracts for what a stack knows about its peers (C12): bacpypes.app.
DeviceInfoCache -- the record learned from an I-Am must be the record a new
transaction to that peer finds -- and the constructors of the segmentation
state machines that look it up.

The cache is a real DeviceInfoCache holding no record, a record for the
announcing device, or a record for another device (symbolic choice); the I-Am
carries symbolic limits.
"""
from pyvc.contracts import (contract, external, Obj, Int, Bool, Const, OneOf, Fn, Maybe, trace)
from contracts.comm import Tok, Token
from bacpypes.app import DeviceInfo, DeviceInfoCache
from bacpypes.appservice import ClientSSM, ServerSSM, StateMachineAccessPoint
from bacpypes.pdu import LocalStation

A, B = LocalStation(1), LocalStation(2)
SEG = ('noSegmentation', 'segmentedTransmit', 'segmentedReceive', 'segmentedBoth')

def _record(cache, ident, addr, max_apdu, seg):
    r = DeviceInfo(ident, addr)
    r.maxApduLengthAccepted = max_apdu
    r.segmentationSupported = seg
    r._ref_count = 0
    r._cache_keys = (ident, addr)
    cache.cache[ident] = r
    cache.cache[addr] = r
    return r

def Cache():
    def build(b, name):
        c = DeviceInfoCache()
        which = OneOf('empty', 'same device', 'other device').build(b, name + '.holds')
        c.ghost_other = None
        if which == 'same device':
            _record(c, 7, A, 1024, 'noSegmentation')
        elif which == 'other device':
            c.ghost_other = _record(c, 9, B, 480, 'segmentedBoth')
        b.built[name] = c
        return c
    return Fn(build)

def IAm():
    return Obj("bacpypes.apdu:IAmRequest", iAmDeviceIdentifier=Const(('device', 7)), maxAPDULengthAccepted=Int(50, 1476), segmentationSupported=OneOf(*SEG),
               vendorID=Int(0, 65535), pduSource=Const(A), pduDestination=Token(), pduUserData=Token(), pduData=Const(None), apduType=Const(1), apduService=Const(0),
               pduExpectingReply=Const(0), pduNetworkPriority=Const(0))

def learned_ok(c, apdu):
    """what the peer announced is what a lookup by its address (or by its device instance) gives from now on"""
    r = c.get_device_info(apdu.pduSource)
    if r is None or c.get_device_info(7) is not r:
        return False
    if not (r.maxApduLengthAccepted == apdu.maxAPDULengthAccepted and r.segmentationSupported == apdu.segmentationSupported
            and r.deviceIdentifier == 7 and r.address == apdu.pduSource and r.vendorID == apdu.vendorID):
        return False
    o = c.ghost_other
    return o is None or (c.get_device_info(B) is o and c.get_device_info(9) is o and o.maxApduLengthAccepted == 480)

contract("bacpypes.app:DeviceInfoCache.iam_device_info",
    params={"self": Cache(), "apdu": IAm()},
    ensures=["learned_ok(self, apdu)"],
    modifies=["self.cache", "self.cache[7].*", "self.cache[A].*"],
    note="cache empty / holding an older record of the same device / holding another device's record")

# -- a new transaction finds (and holds) the record of its peer ---------------------------------------------------------------------

def SAP():
    def build(b, name):
        sap = object.__new__(StateMachineAccessPoint)
        sap.__dict__.update(clientID=None, clientPeer=Tok('lower'), serviceID=None, serviceElement=Tok('upper'), localDevice=None,
                            nextInvokeID=1, clientTransactions=[], serverTransactions=[],
                            numberOfApduRetries=3, apduTimeout=3000, maxApduLengthAccepted=1024, segmentationSupported='noSegmentation',
                            segmentTimeout=1500, maxSegmentsAccepted=2, proposedWindowSize=2, dccEnableDisable='enable', applicationTimeout=3000)
        c = DeviceInfoCache()
        sap.ghost_record = None
        known = Bool().build(b, name + '.knows_peer')
        if (b.ctx.decide(known.t) if b.mode == 'sym' else known):
            sap.ghost_record = _record(c, 7, A, Int(50, 1476).build(b, name + '.peer.maxApdu'), 'segmentedBoth')
        sap.deviceInfoCache = c
        b.built[name] = sap
        return sap
    return Fn(build)

def created_ok(tr, sap):
    r = sap.ghost_record
    if r is None:
        return tr.device_info is None
    # held while the transaction lives (released when it ends, see set_state); in a plan that also loads contracts.ssm the cache's
    # acquire() is a ghost-traced external, then the call itself is what is checked
    return tr.device_info is r and (r._ref_count == 1 or (len(trace('cache')) == 1 and trace('cache')[0][0] is tr.pdu_address))

for _cls in ("ClientSSM", "ServerSSM"):
    contract("bacpypes.appservice:%s.__init__" % _cls,
        params={"self": Fn(lambda b, name, _cls=_cls: object.__new__(ClientSSM if _cls == "ClientSSM" else ServerSSM)), "sap": SAP(), "pdu_address": Const(A)},
        ensures=["created_ok(self, sap)", "self.state == 0 and self.ssmSAP is sap and self.pdu_address is pdu_address"],
        modifies=["self.*", "sap.deviceInfoCache.cache[A]._ref_count", "sap.deviceInfoCache.cache[7]._ref_count"],
        note="the transaction to a peer holds the peer's record when one is known")
