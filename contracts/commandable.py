"""
Contracts for the commandable mix-in of bacpypes.local.object
(Commandable.<locals>._Commando) and the minimum on/off timer (MinOnOffTask).

The object under contract is a *real* instance of a commandable class, built
by its own constructor; its sixteen priority slots, relinquish default and
present value are then made symbolic.  Each slot is null or holds a value,
decided lazily (no 2**16 case split); the abstract view is
    slots: 1..16 -> value | null,  default,  present value.
Three representative classes cover the three storage paths of the mix-in:
  AnalogValueCmdObject   (Real: stored as is)
  BinaryValueCmdObject   (BinaryPV, Enumerated: names outside, numbers in the slots; MinOnOff)
  MultiStateValueCmdObject (Unsigned)
The 20 classes differ only in the datatype handed to the same factory; the
per-class choice selection is swept natively in the bounded stage.
"""
from pyvc.contracts import (contract, external, exactly, Obj, Bytes, Int, Bool, Real, Const, OneOf, NoneOr, List, Tuple, Same, Fn, Maybe, trace, trace_kw)
from pyvc.sym import SOption, SBool
from bacpypes.errors import ExecutionError
from bacpypes.local.object import AnalogValueCmdObject, BinaryValueCmdObject, MultiStateValueCmdObject, MinOnOffTask
from bacpypes.basetypes import BinaryPV

BinaryPV()      # expands the enumeration table (done lazily by the constructor)

# the commandable classes are used registered, as the library's samples do (register_object_type collects the mix-in's
# writable presentValue into the class's property table; unregistered, presentValue stays the base class's read-only property)
from bacpypes.object import register_object_type
for _c in (AnalogValueCmdObject, BinaryValueCmdObject, MultiStateValueCmdObject):
    register_object_type(_c, vendor_id=999)

KINDS = {
    'analog': dict(cls=AnalogValueCmdObject, choice='real', value=lambda: Real(), names=None),
    'binary': dict(cls=BinaryValueCmdObject, choice='enumerated', value=lambda: Int(0, 1), names=('inactive', 'active')),
    'multistate': dict(cls=MultiStateValueCmdObject, choice='unsigned', value=lambda: Int(0), names=None),
}

def _commando(kind):
    """the factory-made mix-in class of the representative class"""
    for k in KINDS[kind]['cls'].__mro__:
        if k.__name__ == '_Commando':
            return k
    raise RuntimeError("no _Commando in the MRO")

def outward(kind, v):
    """a slot content as the present value shows it (enumerations show names)"""
    names = KINDS[kind]['names']
    if names is None:
        return v
    return BinaryPV._xlate_table[v]

def CmdObj(kind, with_minonoff=None):
    """a real commandable object whose slots / default / present value are symbolic"""
    spec = KINDS[kind]
    def build(b, name):
        kw = dict(objectIdentifier=(spec['cls'].objectType, 1), objectName='obj')
        if kind == 'binary':
            kw['presentValue'] = 'inactive'
        obj = spec['cls'](**kw)
        pa = obj._values['priorityArray']
        for i in range(1, 17):
            pv = pa.value[i]
            isnull = Bool().build(b, "%s.slot%d.null" % (name, i))
            val = spec['value']().build(b, "%s.slot%d.value" % (name, i))
            if b.mode == 'sym':
                pv.__dict__['null'] = SOption(SBool(__import__('z3').Not(isnull.t)), ())
                pv.__dict__[spec['choice']] = SOption(isnull, val)
            else:
                pv.__dict__['null'] = () if isnull else None
                pv.__dict__[spec['choice']] = None if isnull else val
        dv = spec['value']().build(b, name + ".default")
        cv = spec['value']().build(b, name + ".present")
        if spec['names'] is not None and b.mode != 'sym':
            dv, cv = spec['names'][dv], spec['names'][cv]
        elif spec['names'] is not None:
            # names outside: decide which name eagerly for the two stored names (two binary choices)
            dv = spec['names'][1] if b.ctx.decide(dv.t == 1) else spec['names'][0]
            cv = spec['names'][1] if b.ctx.decide(cv.t == 1) else spec['names'][0]
        obj._values['relinquishDefault'] = dv
        obj._values['presentValue'] = cv
        if kind == 'binary':
            on = Int(0, 3600).build(b, name + ".minimumOnTime")
            off = Int(0, 3600).build(b, name + ".minimumOffTime")
            obj._values['minimumOnTime'] = on
            obj._values['minimumOffTime'] = off
            # a hold may already be running when the next change arrives
            obj._min_on_off_task.__dict__['isScheduled'] = Bool().build(b, name + ".hold_running")
            obj._min_on_off_task.__dict__['taskTime'] = Real().build(b, name + ".hold_until")
        b.built[name] = obj
        return obj
    return Fn(build)

# -- abstract view (interpreted symbolically, executed natively in replays) -------------------------

def slot_is_null(obj, i):
    return obj._values['priorityArray'].value[i].null is not None

def slot_value(obj, kind, i):
    return getattr(obj._values['priorityArray'].value[i], KINDS[kind]['choice'])

def winner(obj, kind):
    """the value in the lowest-numbered non-null slot, else the relinquish default"""
    for i in range(1, 17):
        if not slot_is_null(obj, i):
            return outward(kind, slot_value(obj, kind, i))
    return obj._values['relinquishDefault']

def winner_source(obj):
    for i in range(1, 17):
        if not slot_is_null(obj, i):
            return '###'
    return None

def consistent(obj, kind):
    """representation invariant: the present value is the winner"""
    return obj._values['presentValue'] == winner(obj, kind)

def slot_holds(obj, kind, i, value):
    """slot i holds exactly `value` (() = relinquished)"""
    pv = obj._values['priorityArray'].value[i]
    if value == ():
        return pv.null is not None and getattr(pv, KINDS[kind]['choice']) is None
    want = value if KINDS[kind]['names'] is None else BinaryPV._xlate_table[value]
    return pv.null is None and getattr(pv, KINDS[kind]['choice']) == want

def others_unchanged(now, before):
    """every stored property value other than the present value is the same object as before"""
    return set(now) == set(before) and all(now[k] is before[k] or (not hasattr(now[k], '__dict__') and now[k] == before[k])
                                           for k in before if k != 'presentValue')

def _fn(kind, name):
    return lambda: _commando(kind).__dict__[name]

def ValueShape(kind, allow_relinquish=True):
    spec = KINDS[kind]
    v = OneOf(*spec['names']) if spec['names'] is not None else spec['value']()
    return OneOf(Const(()), v) if allow_relinquish else v

# a present-value change of a binary object may arm the minimum on/off hold, which commands slot 6 (see present_value_change below)
_MINONOFF_MAY_TOUCH = ["self._values['priorityArray'].value[6].null", "self._values['priorityArray'].value[6].enumerated",
                       "self._min_on_off_task.taskTime", "self._min_on_off_task.isScheduled"]

for _kind in KINDS:
    contract("bacpypes.local.object:Commandable.<locals>._Commando._highest_priority_value",
        name="local.object:_Commando._highest_priority_value[%s]" % _kind, resolver=_fn(_kind, '_highest_priority_value'),
        params={"self": CmdObj(_kind)},
        post={"result": "(winner(self, %r), winner_source(self))" % _kind})

    # a command at priority p (None counts as 16) through the present value
    for _p in [None] + list(range(1, 17)):
        _slot = 16 if _p is None else _p
        if _kind == 'binary' and _slot == 6:
            continue        # priority 6 is reserved for the minimum on/off algorithm, which commands that slot itself
        contract("bacpypes.local.object:Commandable.<locals>._Commando.WriteProperty",
            name="local.object:_Commando.WriteProperty[%s, presentValue, priority %s]" % (_kind, _p), resolver=_fn(_kind, 'WriteProperty'),
            params={"self": CmdObj(_kind), "property": Const("presentValue"), "value": ValueShape(_kind), "priority": Const(_p)},
            requires=["consistent(self, %r)" % _kind],
            ensures=["slot_holds(self, %r, %d, value)" % (_kind, _slot),              # the slot holds the last value commanded at that priority
                     "consistent(self, %r)" % _kind,                                  # and the present value is the winner of the new array
                     "others_unchanged(self._values, old(dict(self._values)))"],
            modifies=["self._values['priorityArray'].value[%d].null" % _slot,
                      "self._values['priorityArray'].value[%d].%s" % (_slot, KINDS[_kind]['choice']),
                      "self._values"] + (_MINONOFF_MAY_TOUCH if _kind == 'binary' else []),
            note="every other slot is unchanged by the frame condition (checked, not assumed)")

    # refused commands change nothing
    contract("bacpypes.local.object:Commandable.<locals>._Commando.WriteProperty",
        name="local.object:_Commando.WriteProperty[%s, presentValue, priority out of range]" % _kind, resolver=_fn(_kind, 'WriteProperty'),
        params={"self": CmdObj(_kind), "property": Const("presentValue"), "value": ValueShape(_kind), "priority": Int()},
        requires=["priority < 1 or priority > 16"],
        raises=[(ExecutionError, "True")],
        frame_on_raise=True,        # refused without changing anything
        raise_ensures=["exc.errorClass == 'property' and exc.errorCode == ('writeAccessDenied' if priority == 0 else 'invalidArrayIndex')"],
        applies_when="property == 'presentValue' and priority is not None and (priority < 1 or priority > 16)",
        note="the frame condition on the raising path: nothing reachable from the object changes")

    # the same through the priority array property
    contract("bacpypes.local.object:Commandable.<locals>._Commando.WriteProperty",
        name="local.object:_Commando.WriteProperty[%s, priorityArray, index out of range]" % _kind, resolver=_fn(_kind, 'WriteProperty'),
        params={"self": CmdObj(_kind), "property": Const("priorityArray"), "value": ValueShape(_kind), "arrayIndex": Int()},
        requires=["arrayIndex < 1 or arrayIndex > 16"],
        raises=[(ExecutionError, "True")],
        frame_on_raise=True,
        raise_ensures=["exc.errorClass == 'property' and exc.errorCode == ('writeAccessDenied' if arrayIndex == 0 else 'invalidArrayIndex')"],
        applies_when="property == 'priorityArray' and arrayIndex is not None and (arrayIndex < 1 or arrayIndex > 16)")
    for _p in ((1, 8, 16) if _kind == 'binary' else (1, 6, 8, 16)):
        contract("bacpypes.local.object:Commandable.<locals>._Commando.WriteProperty",
            name="local.object:_Commando.WriteProperty[%s, priorityArray, index %d]" % (_kind, _p), resolver=_fn(_kind, 'WriteProperty'),
            params={"self": CmdObj(_kind), "property": Const("priorityArray"), "value": ValueShape(_kind), "arrayIndex": Const(_p)},
            requires=["consistent(self, %r)" % _kind],
            ensures=["slot_holds(self, %r, %d, value)" % (_kind, _p), "consistent(self, %r)" % _kind,
                     "others_unchanged(self._values, old(dict(self._values)))"],
            modifies=["self._values['priorityArray'].value[%d].null" % _p,
                      "self._values['priorityArray'].value[%d].%s" % (_p, KINDS[_kind]['choice']),
                      "self._values"] + (_MINONOFF_MAY_TOUCH if _kind == 'binary' else []))

# -- minimum on / off time ---------------------------------------------------------------------------------

external("bacpypes.task:_Task.install_task", "install_task")

contract("bacpypes.local.object:MinOnOffTask.present_value_change",
    params={"self": Fn(lambda b, name: CmdObj('binary').build(b, name + '.binary_obj')._min_on_off_task),
            "old_value": OneOf("inactive", "active"), "new_value": OneOf("inactive", "active")},
    requires=["consistent(self.binary_obj, 'binary')",
              "self.binary_obj._values['presentValue'] == new_value"],         # it is called as the monitor of a present-value change to new_value
    ensures=["minonoff_ok(self, old_value, new_value, trace_kw('install_task'))"],
    modifies=["self.binary_obj._values['priorityArray'].value[6].null", "self.binary_obj._values['priorityArray'].value[6].enumerated",
              "self.binary_obj._values"])

def minonoff_ok(task, old_value, new_value, installs):
    obj = task.binary_obj
    if old_value == new_value:
        return len(installs) == 0
    hold = obj._values['minimumOnTime'] if new_value == 'active' else obj._values['minimumOffTime']
    if not hold:
        return len(installs) == 0
    # the new state is held at priority 6 for the minimum on time (new active) / minimum off time (new inactive)
    return (slot_holds(obj, 'binary', 6, new_value) and consistent(obj, 'binary')
            and len(installs) == 1 and installs[0].get('delta') == hold)         # the release timer is armed `hold` seconds from now

contract("bacpypes.local.object:MinOnOffTask.process_task",
    params={"self": Fn(lambda b, name: CmdObj('binary').build(b, name + '.binary_obj')._min_on_off_task)},
    requires=["consistent(self.binary_obj, 'binary')"],
    ensures=["release_ok(self, old(self.binary_obj._values['presentValue']), trace_kw('install_task'))", "consistent(self.binary_obj, 'binary')"],
    modifies=["self.binary_obj._values['priorityArray'].value[6].null", "self.binary_obj._values['priorityArray'].value[6].enumerated",
              "self.binary_obj._values", "self.taskTime", "self.isScheduled"])

def release_ok(task, old_pv, installs):
    """the hold at priority 6 is released; if that changes the present value, the new state starts its own hold"""
    obj = task.binary_obj
    new_pv = obj._values['presentValue']
    if new_pv == old_pv:
        return slot_holds(obj, 'binary', 6, ()) and len(installs) == 0
    hold = obj._values['minimumOnTime'] if new_pv == 'active' else obj._values['minimumOffTime']
    if not hold:
        return slot_holds(obj, 'binary', 6, ()) and len(installs) == 0
    return slot_holds(obj, 'binary', 6, new_pv) and len(installs) == 1 and installs[0].get('delta') == hold
