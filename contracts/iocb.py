"""
Contracts for the I/O-control-block side of a confirmed request (C04):
bacpypes.app.ApplicationIOController keeps one SieveQueue per destination
address; a request is active in, or queued in, the queue that
queue_by_address holds for its destination, and is completed exactly once by
the confirmation that the application layer hands up.

The objects are real ApplicationIOController / SieveQueue / IOQueue / IOCB
instances with symbolic fields.  IOCB.trigger (event + user callbacks) and
core.deferred are ghost-traced externals.
"""
import threading
from pyvc.contracts import (contract, external, Obj, Int, Bool, Const, OneOf, Fn, Maybe, trace)
from contracts.comm import Tok, Token
from bacpypes.app import ApplicationIOController
from bacpypes.iocb import IOCB, IOQueue, SieveQueue, IOQController
from bacpypes.pdu import LocalStation
from contracts.ssm import PDUObj, ConfReq, SimpleAck, ComplexAck, ErrorP, RejectP, AbortP

IO_IDLE, IO_PENDING, IO_ACTIVE, IO_COMPLETED, IO_ABORTED = range(5)
CTRL_IDLE, CTRL_ACTIVE = 0, 1

A, B = LocalStation(1), LocalStation(2)

external("bacpypes.iocb:IOCB.trigger", "iocb_done", method=False)
external("bacpypes.core:deferred", "deferred", method=False)
external("bacpypes.comm:ApplicationServiceElement.request", "ase_request")

class GhostEvent(object):
    """stand-in for threading.Event in IOQueue.notempty (same four methods; copyable)"""
    def __init__(self):
        self.flag = False
    def isSet(self):
        return self.flag
    is_set = isSet
    def set(self):
        self.flag = True
    def clear(self):
        self.flag = False
    def wait(self, timeout=None):
        if not self.flag:
            raise RuntimeError("would block forever: waiting on an empty queue")
        return True

def _iocb(b, name, state, ident):
    io = object.__new__(IOCB)
    io.__dict__.update(ioID=ident, args=(Tok('request%d' % ident),), kwargs={}, ioState=state, ioResponse=None, ioError=None, ioController=None,
                       ioComplete=None, ioCallback=[], ioQueue=None, ioPriority=0, ioTimeout=None)
    return io

def AppObj(max_pending=2):
    """an application with a queue for peer A: active request or not (symbolic), 0..max_pending queued requests"""
    def build(b, name):
        app = object.__new__(ApplicationIOController)
        q = object.__new__(SieveQueue)
        ioq = object.__new__(IOQueue)
        ev = GhostEvent()
        npend = OneOf(*range(max_pending + 1)).build(b, name + '.pending')
        ioq.__dict__.update(notempty=ev, queue=[])
        for i in range(npend):
            io = _iocb(b, name, IO_PENDING, 10 + i)
            io.ioQueue = ioq
            io.ioController = q
            ioq.queue.append((0, io))
        if npend:
            ev.set()
        has_active = Bool().build(b, name + '.active')
        active = None
        if (b.ctx.decide(has_active.t) if b.mode == 'sym' else has_active):
            active = _iocb(b, name, OneOf(IO_ACTIVE, IO_COMPLETED, IO_ABORTED).build(b, name + '.active.ioState'), 1)
            active.ioController = q
        q.__dict__.update(name='A', state=(CTRL_ACTIVE if active is not None else CTRL_IDLE), active_iocb=active, ioQueue=ioq,
                          request_fn=Tok('request_fn'), address=A)
        has_queue = Bool().build(b, name + '.has_queue')
        app.__dict__.update(queue_by_address={}, name='app')
        if (b.ctx.decide(has_queue.t) if b.mode == 'sym' else has_queue):
            app.queue_by_address[A] = q
        app.ghost_queue = q
        b.built[name] = app
        return app
    return Fn(build)

def pending(q):
    return [item[1] for item in q.ioQueue.queue]

def complete_ok(app, address, apdu, had_queue, old_active, old_state, old_pending, done, deferred_calls):
    q = app.ghost_queue
    if address is not A or not had_queue or old_active is None:
        # nothing to complete: nothing happens
        return (len(done) == 0 and q.active_iocb is old_active and pending(q) == old_pending
                and (app.queue_by_address.get(A) is q) == had_queue)
    good = apdu is None or apdu.apduType in (2, 3)
    if old_state == IO_ACTIVE:
        # the active request gets its one outcome: the acknowledgement, or the error / reject / abort
        if not (len(done) == 1 and done[0][0] is old_active and old_active.ioState == (IO_COMPLETED if good else IO_ABORTED)
                and (old_active.ioResponse if good else old_active.ioError) is apdu):
            return False
    elif not (len(done) == 0 and old_active.ioState == old_state):      # already finished (e.g. timed out): never a second outcome
        return False
    if not (q.active_iocb is None and pending(q) == old_pending):
        return False
    # requests still queued stay reachable and the next one is started; an idle empty queue is dropped
    if len(old_pending) > 0:
        return app.queue_by_address.get(A) is q and len(deferred_calls) == 1 and deferred_calls[0][1] is q
    return A not in app.queue_by_address

contract("bacpypes.app:ApplicationIOController._app_complete",
    params={"self": AppObj(), "address": OneOf(A, B),
            "apdu": OneOf(Const(None), SimpleAck(pduData=Const(None)), ComplexAck(pduData=Const(None)), ErrorP(pduData=Const(None)),
                          RejectP(pduData=Const(None)), AbortP(pduData=Const(None)))},
    ensures=["complete_ok(self, address, apdu, old(A in self.queue_by_address), old(self.ghost_queue.active_iocb), "
             "old(self.ghost_queue.active_iocb.ioState if self.ghost_queue.active_iocb is not None else None), old(pending(self.ghost_queue)), "
             "trace('iocb_done'), trace('deferred'))"],
    modifies=["self.queue_by_address", "self.ghost_queue.active_iocb", "self.ghost_queue.state", "self.ghost_queue.active_iocb.ioState",
              "self.ghost_queue.active_iocb.ioResponse", "self.ghost_queue.active_iocb.ioError"],
    max_paths=20000,
    note="bounded in structure: 0..2 queued requests behind the active one")

# -- submission: active at once or queued behind the active one, always reachable -------------------------------------------

def ghost_send(apdu):
    """ghost: the queue's request function (ApplicationIOController._app_request)"""

external("contracts.iocb:ghost_send", "sent", method=False)

def SubmitApp():
    def build(b, name):
        app = AppObj().build(b, name)
        app.ghost_queue.request_fn = ghost_send
        return app
    return Fn(build)

def NewIOCB():
    def build(b, name):
        io = _iocb(b, name, IO_IDLE, 99)
        req = ConfReq(pduData=Const(None), pduDestination=Const(A)).build(b, name + '.request')
        io.args = (req,)
        return io
    return Fn(build)

def submit_ok(app, iocb, had_queue, old_active, old_pending, sent):
    q = app.queue_by_address.get(A)
    if q is None:
        return False
    if had_queue and q is not app.ghost_queue:
        return False                    # an existing queue is never replaced: what it holds stays reachable
    sent = sent + trace('ase_request')
    if had_queue and old_active is not None:
        # busy: queued behind what was already waiting, nothing sent yet
        return (q.active_iocb is old_active and pending(q) == old_pending + [iocb] and iocb.ioState == IO_PENDING and len(sent) == 0
                and iocb.ioController is q)
    if not had_queue:
        return (q.active_iocb is iocb and iocb.ioState == IO_ACTIVE and len(sent) == 1 and sent[0][0] is iocb.args[0] and pending(q) == []
                and iocb.ioController is q)
    # idle queue that still has requests waiting for their deferred start: the new one must not overtake or displace them
    return (iocb.ioController is q
            and ((q.active_iocb is iocb and iocb.ioState == IO_ACTIVE and len(sent) == 1 and pending(q) == old_pending)
                 or (pending(q) == old_pending + [iocb] and iocb.ioState == IO_PENDING and len(sent) == 0)))

contract("bacpypes.app:ApplicationIOController.process_io",
    params={"self": SubmitApp(), "iocb": NewIOCB()},
    requires=["self.ghost_queue.active_iocb is None or self.ghost_queue.active_iocb.ioState == IO_ACTIVE",
              "A in self.queue_by_address or (self.ghost_queue.active_iocb is None and len(pending(self.ghost_queue)) == 0)"],
    ensures=["submit_ok(self, iocb, old(A in self.queue_by_address), old(self.ghost_queue.active_iocb), old(pending(self.ghost_queue)), trace('sent'))"],
    modifies=["self.queue_by_address", "self.ghost_queue.active_iocb", "self.ghost_queue.state", "self.ghost_queue.ioQueue.queue", "self.ghost_queue.ioQueue.notempty.flag", "iocb.*"],
    max_paths=20000,
    note="bounded in structure: 0..2 queued requests")

# -- completion is idempotent: a request has one outcome whatever arrives later (late reply after a timeout, abort after completion) ---------

def LoneIOCB():
    def build(b, name):
        io = _iocb(b, name, OneOf(IO_PENDING, IO_ACTIVE, IO_COMPLETED, IO_ABORTED).build(b, name + '.ioState'), 5)
        io.ioResponse = Tok('earlier response') if io.ioState == IO_COMPLETED else None
        io.ioError = Tok('earlier error') if io.ioState == IO_ABORTED else None
        return io
    return Fn(build)

def once_ok(iocb, kind, msg, old_state, old_response, old_error, done):
    if old_state in (IO_COMPLETED, IO_ABORTED):
        # already has its outcome: nothing changes, nobody is notified again
        return iocb.ioState == old_state and iocb.ioResponse is old_response and iocb.ioError is old_error and len(done) == 0
    if kind == 'complete':
        return iocb.ioState == IO_COMPLETED and iocb.ioResponse is msg and iocb.ioError is None and len(done) == 1 and done[0][0] is iocb
    return iocb.ioState == IO_ABORTED and iocb.ioError is msg and iocb.ioResponse is None and len(done) == 1 and done[0][0] is iocb

for _kind, _fn in (('complete', 'complete_io'), ('abort', 'abort_io')):
    contract("bacpypes.iocb:IOController.%s" % _fn,
        params={"self": Obj("bacpypes.iocb:IOController", name=Const('ctl')), "iocb": LoneIOCB(), ("msg" if _kind == 'complete' else "err"): Token()},
        ensures=["once_ok(iocb, %r, %s, old(iocb.ioState), old(iocb.ioResponse), old(iocb.ioError), trace('iocb_done'))" % (_kind, "msg" if _kind == 'complete' else "err")],
        modifies=["iocb.ioState", "iocb.ioResponse", "iocb.ioError"],
        note="a request gets its outcome once; later completions / aborts are ignored")

# -- the queue advances: the next waiting request is started, in order ---------------------------------------------------------------------

def IdleQueue():
    """a SieveQueue of an application: idle or busy (symbolic), 0..2 waiting requests"""
    def build(b, name):
        app = SubmitApp().build(b, name + '.app')
        q = app.ghost_queue
        for item in q.ioQueue.queue:
            item[1].args = (ConfReq(pduData=Const(None), pduDestination=Const(A)).build(b, '%s.req%d' % (name, item[1].ioID)),)
        return q
    return Fn(build)

def advanced_ok(q, old_active, old_pending, old_state, sent, deferred_calls):
    if old_state != CTRL_IDLE or len(old_pending) == 0:
        # busy, or nothing waits: nothing happens
        return q.active_iocb is old_active and pending(q) == old_pending and len(sent) == 0 and len(deferred_calls) == 0
    first = old_pending[0]
    return (q.active_iocb is first and first.ioState == IO_ACTIVE and pending(q) == old_pending[1:] and q.state == CTRL_ACTIVE
            and len(sent) == 1 and sent[0][0] is first.args[0] and first.ioQueue is None)

contract("bacpypes.iocb:IOQController._trigger",
    params={"self": IdleQueue()},
    requires=["(self.active_iocb is None) == (self.state == CTRL_IDLE)", "self.active_iocb is None or self.active_iocb.ioState == IO_ACTIVE"],
    ensures=["advanced_ok(self, old(self.active_iocb), old(pending(self)), old(self.state), trace('sent'), trace('deferred'))"],
    modifies=["self.active_iocb", "self.state", "self.ioQueue.queue", "self.ioQueue.queue[:]", "self.ioQueue.notempty.flag"]
             + ["self.ioQueue.queue[%d][1].%s" % (i, f) for i in range(2) for f in ("ioState", "ioQueue")],
    note="bounded in structure: 0..2 waiting requests")
