"""
Contracts for change-of-value reporting (C16): bacpypes.service.detect
(DetectionMonitor / DetectionAlgorithm) and bacpypes.service.cov
(COVIncrementCriteria, COVDetection, Subscription, ChangeOfValueServices).

The code under contract is the real detect.py / cov.py.  What surrounds it is
sidecar: the monitored object (a plain object with _values, covIncrement,
_property_monitors and get_datatype), the application (a leaf subclass of the
real ChangeOfValueServices whose object lookup / response / request_io record
ghost events), the clock (TaskManager().get_time() -> a symbolic real) and
the datatype / Any constructors used to bundle reported values (GhostDatum:
keeps the value it was given).  Timers are the trusted summaries of
_Task.install_task / suspend_task (verified under C14).
"""
from pyvc.contracts import (contract, external, Obj, Int, Bool, Real, Const, OneOf, Fn, Maybe, trace, native_stub)
from contracts.comm import Tok, Token
from bacpypes.service.cov import (COVIncrementCriteria, GenericCriteria, COVDetection, Subscription, SubscriptionList, ChangeOfValueServices)
from bacpypes.service.detect import DetectionMonitor, DetectionAlgorithm
from bacpypes.apdu import SubscribeCOVRequest, ConfirmedCOVNotificationRequest, UnconfirmedCOVNotificationRequest
from bacpypes.pdu import LocalStation

NSUBS = 4 if __import__("os").environ.get("VERIF_TIER") == "thorough" else 3        # subscriptions per object: range(NSUBS) (structural bound)
A, B = LocalStation(1), LocalStation(2)
OBJ_ID = ('analogValue', 1)

# -- timers: summaries of the C14 contracts ---------------------------------------------------------------------

def due(delta):
    return ('now+', delta)

contract("bacpypes.task:_Task.install_task", name="bacpypes.task:_Task.install_task[summary, cov]",
    params={"self": Obj("bacpypes.task:OneShotTask", taskTime=Token(), isScheduled=Bool()), "when": Const(None), "delta": Real()},
    post={"self.isScheduled": "True", "self.taskTime": "due(delta)"},
    trusted=True, applies_when="when is None and delta is not None",
    note="summary of the C14 contracts: installing schedules the task")

contract("bacpypes.task:_Task.suspend_task", name="bacpypes.task:_Task.suspend_task[summary, cov]",
    params={"self": Obj("bacpypes.task:OneShotTask", taskTime=Token(), isScheduled=Bool())},
    post={"self.isScheduled": "False"},
    trusted=True, note="summary of the C14 contracts: suspending unschedules the task")

def _stub_install(self, when=None, delta=None):
    self.isScheduled = True
    self.taskTime = due(delta)

def _stub_suspend(self):
    self.isScheduled = False

native_stub("bacpypes.task:_Task.install_task", _stub_install)
native_stub("bacpypes.task:_Task.suspend_task", _stub_suspend)

# -- ghosts -------------------------------------------------------------------------------------------------------

def ghost_now():
    """ghost: the clock"""

def ghost_event(kind, *args):
    """ghost: something handed to the surroundings"""

external("contracts.cov:ghost_now", "clock", returns_shape=Real(0), method=False)
external("contracts.cov:ghost_event", "events", method=False)
external("bacpypes.core:deferred", "deferred", method=False)

class GhostTaskManager(object):
    def get_time(self):
        return ghost_now()

class GhostDatum(object):
    """stands for the datatype / Any constructors that bundle a reported value: keeps what it was given"""
    def __init__(self, value):
        self.value = value

class GhostObject(object):
    _object_supports_cov = True
    def get_datatype(self, name):
        return GhostDatum

class GhostApp(ChangeOfValueServices):
    """leaf of the real ChangeOfValueServices: lookups, responses and outbound requests are ghost events"""
    def __init__(self):
        pass
    def get_object_id(self, obj_id):
        return self.ghost_objects.get(obj_id)
    def response(self, apdu):
        ghost_event('response', apdu)
    def request_io(self, iocb):
        ghost_event('request_io', iocb)

class NotifyApp(GhostApp):
    """for the units that end at cov_notification"""
    def cov_notification(self, cov, request):
        ghost_event('notify', cov, request)

def events(kind):
    return [e[1:] for e in trace('events') if e[0] == kind]

# -- the analog criterion -------------------------------------------------------------------------------------------

def _monitored(b, name, app=None):
    obj = GhostObject()
    obj._values = {'presentValue': Real().build(b, name + '.presentValue'),
                   'statusFlags': [Int(0, 1).build(b, '%s.flag%d' % (name, i)) for i in range(4)],
                   'covIncrement': None}
    obj.covIncrement = Real(0).build(b, name + '.covIncrement')
    obj._values['covIncrement'] = obj.covIncrement
    obj._property_monitors = {'presentValue': [], 'statusFlags': [], 'covIncrement': []}
    obj._app = app
    obj.objectIdentifier = OBJ_ID
    return obj

def _subscription(b, name, obj, i):
    cov = object.__new__(Subscription)
    cov.__dict__.update(obj_ref=obj, client_addr=OneOf(A, B).build(b, '%s.sub%d.client' % (name, i)), proc_id=Int(0, 4).build(b, '%s.sub%d.proc' % (name, i)),
                        obj_id=OBJ_ID, confirmed=Bool().build(b, '%s.sub%d.confirmed' % (name, i)),
                        lifetime=Int(0).build(b, '%s.sub%d.lifetime' % (name, i)), covIncrement=None,
                        taskTime=Real(0).build(b, '%s.sub%d.taskTime' % (name, i)), isScheduled=Bool().build(b, '%s.sub%d.isScheduled' % (name, i)))
    return cov

def Criterion(cls, nsubs=0, app_cls=NotifyApp, bound=True):
    """a detection algorithm of class cls bound to a monitored object, with nsubs subscriptions"""
    def build(b, name):
        app = app_cls()
        app.cov_detections = {}
        app.ghost_objects = {}
        device = GhostObject()
        device.objectIdentifier = ('device', 7)
        app.localDevice = device
        obj = _monitored(b, name + '.obj', app)
        app.ghost_objects[OBJ_ID] = obj
        det = object.__new__(cls)
        det.__dict__.update(_monitors=[], _triggered=Bool().build(b, name + '._triggered'), obj=obj,
                            presentValue=Real().build(b, name + '.cached.presentValue'),
                            statusFlags=[Int(0, 1).build(b, '%s.cached.flag%d' % (name, i)) for i in range(4)],
                            cov_subscriptions=SubscriptionList())
        if cls is COVIncrementCriteria:
            det.covIncrement = obj.covIncrement
            det.previous_reported_value = Maybe(Real()).build(b, name + '.previous_reported_value')
        for prop in (cls.properties_tracked if bound else ()):
            m = DetectionMonitor(det, prop, obj, prop)
            if prop == 'presentValue' and cls is COVIncrementCriteria:
                m.filter = det.present_value_filter
            det._monitors.append(m)
            obj._property_monitors[prop].append(m.property_change)
        for i in range(nsubs):
            det.cov_subscriptions.cov_subscriptions.append(_subscription(b, name, obj, i))
        app.cov_detections[obj] = det
        b.built[name] = det
        return det
    return Fn(build)

contract("bacpypes.service.cov:COVIncrementCriteria.present_value_filter",
    params={"self": Criterion(COVIncrementCriteria), "old_value": Real(), "new_value": Real()},
    post={"result": "abs(new_value - (old(self.previous_reported_value) if old(self.previous_reported_value) is not None else old_value)) >= self.obj.covIncrement",
          "self.previous_reported_value": "old(self.previous_reported_value) if old(self.previous_reported_value) is not None else old_value"},
    note="a change qualifies iff it is at least the COV increment away from the last reported value (the value before the first change when nothing was reported yet)")

# -- a monitored property changes ----------------------------------------------------------------------------------------

def change_ok(mon, parameter, old_value, new_value, was_triggered, deferred_calls, expect):
    alg = mon.algorithm
    if getattr(alg, parameter) is not new_value and getattr(alg, parameter) != new_value:
        return False                    # the algorithm always sees the latest value, also while a run is pending
    if was_triggered:
        return alg._triggered == True and len(deferred_calls) == 0          # one run per burst
    if expect:
        return alg._triggered == True and len(deferred_calls) == 1
    return alg._triggered == False and len(deferred_calls) == 0

def MonitorOf(cls, parameter):
    def build(b, name):
        det = Criterion(cls).build(b, name + '.alg')
        for m in det._monitors:
            if m.parameter == parameter:
                return m
    return Fn(build)

contract("bacpypes.service.detect:DetectionMonitor.property_change", name="bacpypes.service.detect:DetectionMonitor.property_change[analog presentValue]",
    params={"self": MonitorOf(COVIncrementCriteria, 'presentValue'), "old_value": Real(), "new_value": Real()},
    ensures=["change_ok(self, 'presentValue', old_value, new_value, old(self.algorithm._triggered), trace('deferred'), "
             "abs(new_value - (old(self.algorithm.previous_reported_value) if old(self.algorithm.previous_reported_value) is not None else old_value)) "
             ">= self.algorithm.obj.covIncrement)"],
    modifies=["self.algorithm.presentValue", "self.algorithm._triggered", "self.algorithm.previous_reported_value"])

contract("bacpypes.service.detect:DetectionMonitor.property_change", name="bacpypes.service.detect:DetectionMonitor.property_change[generic presentValue]",
    params={"self": MonitorOf(GenericCriteria, 'presentValue'), "old_value": Int(), "new_value": Int()},
    ensures=["change_ok(self, 'presentValue', old_value, new_value, old(self.algorithm._triggered), trace('deferred'), old_value != new_value)"],
    modifies=["self.algorithm.presentValue", "self.algorithm._triggered"])

contract("bacpypes.service.detect:DetectionMonitor.property_change", name="bacpypes.service.detect:DetectionMonitor.property_change[statusFlags]",
    params={"self": MonitorOf(COVIncrementCriteria, 'statusFlags'), "old_value": Int(0, 15), "new_value": Int(0, 15)},
    ensures=["change_ok(self, 'statusFlags', old_value, new_value, old(self.algorithm._triggered), trace('deferred'), old_value != new_value)"],
    modifies=["self.algorithm.statusFlags", "self.algorithm._triggered"])

# -- the run: one notification per subscription, current values, remaining lifetime ----------------------------------------

def remaining(cov, now):
    if not cov.lifetime:
        return 0
    r = int(cov.taskTime - now)
    return r if r else 1

def notified_ok(det, subs, notes, now):
    """one notification per subscription, in order: right kind, right addressee, current values, remaining lifetime"""
    if len(notes) != len(subs):
        return False
    obj = det.obj
    for i in range(len(subs)):
        cov, req = notes[i][0], notes[i][1]
        if cov is not subs[i]:
            return False
        if type(req) is not (ConfirmedCOVNotificationRequest if cov.confirmed else UnconfirmedCOVNotificationRequest):
            return False
        if not (req.pduDestination is cov.client_addr and req.subscriberProcessIdentifier == cov.proc_id
                and req.monitoredObjectIdentifier == cov.obj_id and req.initiatingDeviceIdentifier == ('device', 7)
                and req.timeRemaining == remaining(cov, now)):
            return False
        vals = req.listOfValues
        if not (len(vals) == 2 and vals[0].propertyIdentifier == 'presentValue' and vals[0].value.value.value == obj._values['presentValue']
                and vals[1].propertyIdentifier == 'statusFlags' and vals[1].value.value.value is obj._values['statusFlags']):
            return False
    return True

_GHOSTS = {"TaskManager": ("bacpypes.service.cov", GhostTaskManager), "Any": ("bacpypes.service.cov", GhostDatum)}

for _cls in (COVIncrementCriteria, GenericCriteria):
    for _n in range(NSUBS):
        contract("bacpypes.service.detect:DetectionAlgorithm._execute", name="bacpypes.service.detect:DetectionAlgorithm._execute[%s, %d subscriptions]" % (_cls.__name__, _n),
            params={"self": Criterion(_cls, _n)},
            globals_=dict((k, v) for k, v in _GHOSTS.items()),
            ensures=["notified_ok(self, list(self.cov_subscriptions.cov_subscriptions), events('notify'), (trace('clock')[0][0] if trace('clock') else 0))",
                     "self._triggered == False"]
                    + (["self.previous_reported_value == self.presentValue"] if _cls is COVIncrementCriteria else []),
            modifies=["self._triggered", "self.previous_reported_value"],
            note="bounded in structure: %d subscriptions" % _n)

# -- subscriptions: lifetime timer ---------------------------------------------------------------------------------------------

def SubOf(nsubs=1):
    def build(b, name):
        det = Criterion(GenericCriteria, nsubs, app_cls=GhostApp).build(b, name + '.det')
        cov = det.cov_subscriptions.cov_subscriptions[0]
        cov.ghost_det, cov.ghost_app = det, det.obj._app
        return cov
    return Fn(build)

def live_subs(app):
    return [c for det in app.cov_detections.values() for c in det.cov_subscriptions.cov_subscriptions]

def watched(det):
    """the detection algorithm's monitors are hooked into the object"""
    return len(det._monitors) > 0 and all(any(f.__self__ is m for f in m.obj._property_monitors[m.prop]) for m in det._monitors)

def gone_ok(app, det, cov, old_subs):
    """the subscription is gone, the others stay; an object nobody subscribes to any more is no longer watched nor tracked"""
    now = det.cov_subscriptions.cov_subscriptions
    if not (len(now) == len(old_subs) - 1 and all(c is not cov for c in now) and all(any(c is o for c in now) for o in old_subs if o is not cov)):
        return False
    if cov.isScheduled != False:
        return False
    if len(now) == 0:
        return det.obj not in app.cov_detections and len(det._monitors) == 0 and all(len(v) == 0 for v in det.obj._property_monitors.values())
    return app.cov_detections.get(det.obj) is det and watched(det)

for _n in (1, 2):
    contract("bacpypes.service.cov:Subscription.process_task", name="bacpypes.service.cov:Subscription.process_task[%d subscriptions]" % _n,
        params={"self": SubOf(_n)},
        ensures=["gone_ok(self.ghost_app, self.ghost_det, self, old(list(self.ghost_det.cov_subscriptions.cov_subscriptions)))",
                 "self.obj_ref is None"],
        modifies=["self.isScheduled", "self.obj_ref", "self.ghost_app.cov_detections", "self.ghost_det._monitors",
                  "self.ghost_det.cov_subscriptions.cov_subscriptions", "self.ghost_det.obj._property_monitors"],
        note="expiry of the lifetime: the subscription cancels itself")

# -- SubscribeCOV -------------------------------------------------------------------------------------------------------------------

def SubscribeReq():
    return Obj("bacpypes.apdu:SubscribeCOVRequest", pduSource=OneOf(A, B), subscriberProcessIdentifier=Int(0, 3),
               monitoredObjectIdentifier=Const(OBJ_ID), issueConfirmedNotifications=Maybe(Bool()), lifetime=Maybe(Int(0)),
               apduInvokeID=Int(0, 255), apduService=Const(5), pduDestination=Token(), pduUserData=Token(), pduExpectingReply=Const(1),
               pduNetworkPriority=Const(0), apduType=Const(0))

def AppOf(nsubs):
    """the application with nsubs subscriptions on the object; with none, the object is not tracked at all"""
    def build(b, name):
        det = Criterion(COVIncrementCriteria, nsubs, app_cls=GhostApp, bound=(nsubs > 0)).build(b, name + '.det')
        app = det.obj._app
        app.ghost_obj = det.obj
        app.ghost_det = det if nsubs else None
        if not nsubs:
            del app.cov_detections[det.obj]
        return app
    return Fn(build)

def det_of(app):
    return app.ghost_det if app.ghost_det is not None else app.cov_detections.get(app.ghost_obj)

def subs_of(app):
    d = det_of(app)
    return d.cov_subscriptions.cov_subscriptions if d is not None else []

def find(subs, apdu):
    m = [c for c in subs if c.client_addr == apdu.pduSource and c.proc_id == apdu.subscriberProcessIdentifier and c.obj_id == apdu.monitoredObjectIdentifier]
    return m[0] if m else None

def distinct_subs(subs):
    return all(not (subs[i].client_addr == subs[j].client_addr and subs[i].proc_id == subs[j].proc_id) for i in range(len(subs)) for j in range(i + 1, len(subs)))

def subscribe_ok(app, apdu, old_subs, responses, deferred_calls):
    det = det_of(app)
    now = subs_of(app)
    cancel = apdu.issueConfirmedNotifications is None and apdu.lifetime is None
    was = find(old_subs, apdu)
    # acknowledged
    if not (len(responses) == 1 and responses[0][0].apduType == 2 and responses[0][0].apduInvokeID == apdu.apduInvokeID):
        return False
    if cancel:
        if was is None:
            return len(now) == len(old_subs) and all(now[i] is old_subs[i] for i in range(len(now))) and len(deferred_calls) == 0
        return gone_ok(app, det, was, old_subs) and len(deferred_calls) == 0
    cov = find(now, apdu)
    if cov is None or not distinct_subs(now):
        return False
    if was is not None:
        # a re-subscription replaces and re-times the existing one instead of adding a second
        if not (cov is was and len(now) == len(old_subs)):
            return False
    elif not (len(now) == len(old_subs) + 1 and all(now[i] is old_subs[i] for i in range(len(old_subs))) and cov.obj_ref is det.obj):
        return False
    life = apdu.lifetime if apdu.lifetime is not None else 0
    if not (bool(cov.confirmed) == bool(apdu.issueConfirmedNotifications) and cov.lifetime == life
            and cov.isScheduled == (life > 0) and (life == 0 or cov.taskTime == due(life))):
        return False
    # followed by an initial notification to this subscriber
    return (len(deferred_calls) == 1 and deferred_calls[0][0].__self__ is det and deferred_calls[0][0].__func__ is COVIncrementCriteria.send_cov_notifications
            and deferred_calls[0][1] is cov and app.cov_detections.get(det.obj) is det and watched(det))

for _n in range(NSUBS):
    contract("bacpypes.service.cov:ChangeOfValueServices.do_SubscribeCOVRequest",
        name="bacpypes.service.cov:ChangeOfValueServices.do_SubscribeCOVRequest[%d subscriptions]" % _n,
        params={"self": AppOf(_n), "apdu": SubscribeReq()},
        requires=["distinct_subs(subs_of(self))", "all(c.isScheduled == (c.lifetime > 0) for c in subs_of(self))"],
        ensures=["subscribe_ok(self, apdu, old(list(subs_of(self))), events('response'), trace('deferred'))"],
        modifies=["self.cov_detections", "self.ghost_det.*", "self.ghost_det.cov_subscriptions.cov_subscriptions", "self.ghost_obj._property_monitors"]
                 + ["self.ghost_det.cov_subscriptions.cov_subscriptions[%d].%s" % (i, f) for i in range(_n) for f in ("isScheduled", "taskTime", "lifetime", "confirmed", "obj_ref")],
        note="bounded in structure: %d existing subscriptions on the object (symbolic subscriber, process id, lifetime)" % _n)

# -- the active-subscriptions list shows exactly the live subscriptions -----------------------------------------------------------------------

from bacpypes.service.cov import ActiveCOVSubscriptions

def DeviceOf(nsubs):
    """the device object of an application with nsubs live subscriptions on one monitored object"""
    def build(b, name):
        det = Criterion(COVIncrementCriteria, nsubs, app_cls=GhostApp).build(b, name + '.det')
        dev = GhostObject()
        dev._app = det.obj._app
        dev.ghost_det = det
        return dev
    return Fn(build)

def listed_ok(result, dev, now):
    subs = dev.ghost_det.cov_subscriptions.cov_subscriptions
    if len(result) != len(subs):
        return False
    for i in range(len(subs)):
        cov, e = subs[i], result[i]
        if not (e.recipient.processIdentifier == cov.proc_id and e.recipient.recipient.address.macAddress == cov.client_addr.addrAddr
                and e.monitoredPropertyReference.objectIdentifier == cov.obj_id and e.monitoredPropertyReference.propertyIdentifier == 'presentValue'
                and e.issueConfirmedNotifications == cov.confirmed and e.timeRemaining == remaining(cov, now)):
            return False
    return True

for _n in range(NSUBS):
    contract("bacpypes.service.cov:ActiveCOVSubscriptions.ReadProperty", name="bacpypes.service.cov:ActiveCOVSubscriptions.ReadProperty[%d subscriptions]" % _n,
        params={"self": Fn(lambda b, name: ActiveCOVSubscriptions()), "obj": DeviceOf(_n), "arrayIndex": Const(None)},
        globals_={"TaskManager": ("bacpypes.service.cov", GhostTaskManager)},
        ensures=["listed_ok(result, obj, trace('clock')[0][0])"],
        modifies=[], note="bounded in structure: %d live subscriptions" % _n)
