"""
Bounded stage for C18 (labelled bounded, never counted as proved): the
regex-driven text notations, which the proof stage does not reach (string
theory), and printing.

  * every station 0..255 as text, alone and with networks at the range edges;
    networks {65535, 65536, 70000} and stations {256, 300, 1000} refused;
  * dotted IPv4 x all 33 prefix lengths x port boundaries, optionally with a
    network, against the standard `ipaddress` module (subnet, host, directed
    broadcast, mask) and against the six octets the notation denotes;
  * hex (0x..) and X'..' octet strings of length 1..7, with and without network;
  * print -> parse: Address(str(a)) == a for every address built above and for
    typed-constructor addresses; equal spellings are ==, hash equal and find
    each other in a dict;
  * texts outside every notation are refused (an exception, never an address).
"""
import ipaddress
import itertools
import random

def run(tier, seed):
    from bacpypes.pdu import Address, LocalStation, RemoteStation, LocalBroadcast, RemoteBroadcast, GlobalBroadcast
    rng = random.Random(seed)
    failures = []
    evaluations = 0
    distinct = 0
    samples = []
    built = []          # (address, type, net, octets)

    def fail(name, inp, detail):
        if not any(f['name'] == name for f in failures):
            failures.append({'name': name, 'input': repr(inp)[:300], 'detail': detail})

    def expect(text, typ, net, octets, what):
        nonlocal evaluations, distinct
        evaluations += 1
        try:
            a = Address(text)
        except Exception as e:
            fail(what + '-refused', text, "raised %r for a valid notation" % (e,))
            return None
        got = (a.addrType, a.addrNet, None if a.addrAddr is None else bytes(a.addrAddr))
        if got != (typ, net, octets):
            fail(what + '-denotes', text, "denotes %r, expected %r" % (got, (typ, net, octets)))
            return None
        if octets is not None and a.addrLen != len(octets):
            fail(what + '-length', text, "addrLen %r for %d octets" % (a.addrLen, len(octets)))
        distinct += 1
        built.append((a, typ, net, octets))
        return a

    def refused(text, what):
        nonlocal evaluations, distinct
        evaluations += 1
        try:
            a = Address(text)
        except Exception:
            distinct += 1
            return
        fail(what + '-accepted', text, "accepted as %r (type %r net %r)" % (str(a), a.addrType, a.addrNet))

    nets = [0, 1, 2, 255, 256, 65533, 65534]
    # -- stations ----------------------------------------------------------------
    for s in range(256):
        expect(str(s), 2, None, bytes([s]), 'station')
        for n in (nets if s in (0, 1, 5, 127, 128, 254, 255) else [rng.choice(nets)]):
            expect("%d:%d" % (n, s), 4, n, bytes([s]), 'net-station')
    for n in nets:
        expect("%d:*" % n, 3, n, None, 'net-broadcast')
    expect("*", 1, None, None, 'local-broadcast')
    expect("*:*", 5, None, None, 'global-broadcast')
    for bad in ("256", "300", "1000", "1:256", "1:1000", "65535:1", "65536:1", "70000:5", "65535:*", "65536:*", "99999:*", "65535:0x01", "65535:1.2.3.4"):
        refused(bad, 'out-of-range')
    samples.append({'stations': 'all 256, networks %r' % nets})

    # -- dotted IPv4 ---------------------------------------------------------------
    ips = ['0.0.0.0', '255.255.255.255', '1.2.3.4', '10.0.0.255', '192.168.1.77', '127.255.0.1', '128.0.0.0', '172.16.254.3']
    if tier == 'thorough':
        ips += ['%d.%d.%d.%d' % tuple(rng.randint(0, 255) for _ in range(4)) for _ in range(40)]
    ports = [None, 0, 1, 47807, 47808, 47809, 47823, 47824, 65535]
    for ip in ips:
        word = int(ipaddress.IPv4Address(ip))
        for m in [None] + list(range(33)):
            for p in (ports if m in (None, 0, 8, 24, 31, 32) else [None, rng.choice(ports[1:])]):
                for n in (None, rng.choice(nets)):
                    text = ip + ('' if m is None else '/%d' % m) + ('' if p is None else ':%d' % p)
                    if n is not None:
                        text = '%d:%s' % (n, text)
                    port = 47808 if p is None else p
                    octets = word.to_bytes(4, 'big') + port.to_bytes(2, 'big')
                    a = expect(text, 4 if n is not None else 2, n, octets, 'ipv4')
                    if a is None:
                        continue
                    net = ipaddress.IPv4Network((word, 32 if m is None else m), strict=False)
                    want = (int(net.netmask), int(net.network_address), word & int(net.hostmask), str(net.broadcast_address) if (32 if m is None else m) < 32 else ip)
                    got = (a.addrMask, a.addrSubnet, a.addrHost, a.addrBroadcastTuple[0])
                    if got[:3] != want[:3] or (got[3] != want[3] and (32 if m is None else m) < 31) or a.addrPort != port or a.addrIP != word \
                            or a.addrTuple != (ip, port) or a.addrBroadcastTuple[1] != port:
                        fail('ipv4-arithmetic', text, "mask/subnet/host/broadcast %r, ipaddress gives %r" % (got, want))
    samples.append({'ipv4': '%d addresses x prefix lengths none,0..32 x ports %r, with and without network' % (len(ips), ports)})

    # -- octet strings ---------------------------------------------------------------
    for ln in range(1, 8):
        for rep in range(6 if tier == 'quick' else 60):
            octets = bytes(rng.choice([0, 1, 0x7f, 0x80, 0xff, rng.randint(0, 255)]) for _ in range(ln))
            hx = octets.hex()
            for form in ("0x%s", "0x%s".replace('%s', '%s'), "X'%s'"):
                for up in (False, True):
                    h = hx.upper() if up else hx
                    expect(form % h, 2, None, octets, 'hex')
                    n = rng.choice(nets)
                    expect(("%d:" % n) + (form % h), 4, n, octets, 'net-hex')
            for raw in (octets, bytearray(octets)):
                evaluations += 1
                a = Address(raw)
                if bytes(a.addrAddr) != octets or a.addrType != 2:
                    fail('raw-octets', octets, "raw octets denote %r" % (a.addrAddr,))
                if isinstance(raw, bytearray):
                    raw[0] ^= 0xFF          # the caller reuses its buffer
                    if bytes(a.addrAddr) != octets:
                        fail('raw-octets-aliased', octets, "the address changed when the caller's buffer was reused")
                try:
                    hash(a)
                except Exception as e:
                    fail('raw-octets-unhashable', octets, "hash() raised %r" % (e,))
                    continue
                built.append((a, 2, None, octets))
            n = rng.choice(nets)
            a = Address(n, bytearray(octets))
            try:
                hash(a)
                built.append((a, 4, n, octets))
            except Exception as e:
                fail('raw-octets-unhashable', (n, octets), "hash() raised %r" % (e,))
    for bad in ("0x", "0x1", "0x123", "X''", "X'1'", "0xzz", "1:0x1"):
        refused(bad, 'hex-malformed')

    # -- typed constructors ------------------------------------------------------------
    for s in (0, 1, 255):
        built.append((LocalStation(s), 2, None, bytes([s])))
        built.append((RemoteStation(7, s), 4, 7, bytes([s])))
    built.append((LocalBroadcast(), 1, None, None))
    built.append((RemoteBroadcast(65534), 3, 65534, None))
    built.append((GlobalBroadcast(), 5, None, None))
    built.append((RemoteStation(1, bytes([10, 0, 0, 1, 0xBA, 0xC0])), 4, 1, bytes([10, 0, 0, 1, 0xBA, 0xC0])))
    built.append((Address(('1.2.3.4', 47809)), 2, None, bytes([1, 2, 3, 4, 0xBA, 0xC1])))

    # -- print -> parse, equality, hash -----------------------------------------------------
    groups = {}
    for (a, typ, net, octets) in built:
        evaluations += 1
        try:
            text = str(a)
            b = Address(text)
        except Exception as e:
            fail('print-parse-exception', (typ, net, octets), "str/parse raised %r" % (e,))
            continue
        if not (b == a) or (b.addrType, b.addrNet, None if b.addrAddr is None else bytes(b.addrAddr)) != (typ, net, octets):
            fail('print-parse', text, "printing then parsing gives a different address (%r)" % (str(b),))
        groups.setdefault((typ, net, octets), []).append(a)
        groups[(typ, net, octets)].append(b)
    keys = list(groups)
    for k in keys:
        g = groups[k]
        evaluations += 1
        table = {g[0]: k}
        for x in g[1:6]:
            if not (x == g[0]) or (x != g[0]) or hash(x) != hash(g[0]) or table.get(x) != k:
                fail('equal-spellings', k, "two spellings of one address are not ==, or hash differently, or miss each other in a dict")
                break
        distinct += 1
    for _ in range(400 if tier == 'quick' else 5000):
        k1, k2 = rng.choice(keys), rng.choice(keys)
        if k1 != k2:
            evaluations += 1
            if groups[k1][0] == groups[k2][0]:
                fail('distinct-addresses-equal', (k1, k2), "different (type, net, octets) compare equal")
    samples.append({'pool': '%d distinct addresses, each with 2+ spellings' % len(keys)})

    # -- refusals ------------------------------------------------------------------------
    alphabet = "0123456789:*./xX'aAgGz @-"
    clearly_bad = ["", " ", "hello", "1 2", "1:2:3", "**", "1:*:*", "1.2.3", "1.2.3.4.5", "1.2.3.4/", "1.2.3.4:", ":1", "1:", "-1", "1:-1", "0x 01", "g0", "1.2.3.4/33", "1.2.3.4/-1"]
    for t in clearly_bad:
        refused(t, 'malformed')
    def is_notation(t):
        import re
        num = r'\d+'
        ip = r'\d+\.\d+\.\d+\.\d+(?:/\d+)?(?::\d+)?'
        hx = r"(?:0x(?:[0-9A-Fa-f]{2})+|X'(?:[0-9A-Fa-f]{2})+')"
        one = r'(?:%s|%s|%s|[*])' % (num, ip, hx)
        eth = r'(?:[0-9A-Fa-f]{2}:){5}[0-9A-Fa-f]{2}'
        return re.match(r'^(?:(?:\d+|[*]):)?%s(?:@.*)?$' % one, t) is not None or re.match('^%s$' % eth, t) is not None
    for _ in range(2000 if tier == 'quick' else 40000):
        t = ''.join(rng.choice(alphabet) for _ in range(rng.randint(1, 9)))
        if is_notation(t) or t.replace('_', 'a').isidentifier():
            continue        # some notation (or an interface name) -- not a refusal case
        refused(t, 'random-text')
    return {'evaluations': evaluations, 'distinct_nontrivial': distinct,
            'rule': "text notations enumerated over all stations, range-edge networks, 33 prefix lengths x boundary IPs x port boundaries (vs ipaddress), "
                    "hex strings of 1..7 octets; print->parse and equal-spelling pools; malformed and random non-notation texts; distinct = notations that "
                    "denoted the expected address, refusals, address pools", 'samples': samples, 'failures': failures, 'exhaustive': False}
