"""
C05 bounded stage: segmented transfers between two real stacks over a faulty
wire (bounded/ssm_sim.py).

Checked on every run: a request handed to the serving application and a
complex ack handed to the requesting application are octet for octet what was
submitted; every confirmed request ends in exactly one outcome whose kind is
the one the serving application chose, or an abort; every segment on the wire
is the slice of the submitted payload that its sequence number (modulo 256)
names, with the right more-follows flag, never ahead of the furthest position
sent plus one, and never more segments in a row than the window of the last
segment ack received (1 before the first ack).  With exactly ONE fault (one
frame dropped, duplicated or delayed) and a retry count of at least 1 on both
sides the transaction must end like the fault-free run (ack with the payload).
"""
import random

from bounded import ssm_sim as S


def reps(tier):
    out = []
    s = 44
    for retries in (1, 3):
        r = dict(retries=retries)
        for w1, w2 in ((1, 1), (2, 2), (4, 8), (8, 4)):
            out.append(S.two_node(dict(maxApdu=50, win=w1, **r), dict(maxApdu=50, win=w2, **r), n=4 * s + 2, resp=('complex', 4 * 45 + 2)))
        out.append(S.two_node(dict(maxApdu=50, **r), dict(maxApdu=50, **r), n=10, resp=('complex', 2 * 45 + 1)))
        out.append(S.two_node(dict(maxApdu=50, **r), dict(maxApdu=50, **r), n=2 * s + 1, resp=('simple',)))
        out.append(S.two_node(dict(maxApdu=50, **r), dict(maxApdu=50, **r), n=10, resp=('complex', 10)))
        out.append(S.two_node(dict(maxApdu=50, win=3, **r), dict(maxApdu=50, win=3, **r), n=10, resp=('complex', 9 * 45)))
    if tier != 'quick':
        out.append(S.two_node(dict(maxApdu=128, win=5, retries=2), dict(maxApdu=128, win=3, retries=2), n=6 * 122 + 5, resp=('complex', 7 * 123)))
        out.append(S.two_node(dict(maxApdu=50, win=8, retries=1), dict(maxApdu=50, win=8, retries=1), n=20 * 44, resp=('complex', 20 * 45)))
    return out


def sweep(tier):
    out = []
    for m in S.MAXAPDU:
        if tier == 'quick':
            sizes = sorted(set(S.seg_boundaries(m, 6) + S.seg_boundaries(m, 5) + S.seg_boundaries(m, 4) + S.seg_boundaries(m, 3)))
            wins = ((2, 2),) if m > 128 else ((1, 1), (2, 2), (4, 8), (8, 4), (1, 8), (8, 1))
        else:
            sizes = list(range(0, 4 * (m - 5) + 3)) if m <= 128 else sorted(set(
                S.seg_boundaries(m, 6) + S.seg_boundaries(m, 5) + S.seg_boundaries(m, 4) + S.seg_boundaries(m, 3) + [3 * (m - 6) + k for k in (-1, 0, 1)] + [3 * (m - 5) + k for k in (-1, 0, 1)]))
            wins = ((1, 1), (2, 2), (4, 8), (8, 4), (1, 8), (8, 1), (3, 5), (7, 6)) if m <= 128 else ((1, 1), (2, 2), (4, 8), (8, 4))
        for w1, w2 in wins:
            for n in sizes:
                out.append(S.two_node(dict(maxApdu=m, win=w1), dict(maxApdu=m, win=w2), n=n, resp=('complex', n)))
    # unequal maximum APDU sizes, with and without device information
    for m1, m2 in ((50, 1476), (1476, 50), (128, 480), (480, 206)):
        for know in (True, False):
            for n in (0, 43, 44, 45, 46, 121, 122, 123, 500, 2000):
                out.append(S.two_node(dict(maxApdu=m1), dict(maxApdu=m2), n=n, resp=('complex', n), know=know))
    # windows 1..8 on each side, long enough to fill them
    for w1 in range(1, 9):
        for w2 in range(1, 9):
            out.append(S.two_node(dict(maxApdu=50, win=w1), dict(maxApdu=50, win=w2), n=17 * 44 + 3, resp=('complex', 17 * 45 + 3)))
    # sequence number wrap-around: more than 256 segments
    big = [(257, 2), (300, 8)] if tier == 'quick' else [(256, 1), (257, 1), (257, 2), (258, 3), (300, 8), (513, 4), (600, 7)]
    for nseg, w in big:
        out.append(S.two_node(dict(maxApdu=50, win=w, maxSegs=None, retries=1), dict(maxApdu=50, win=w, maxSegs=None, retries=1), n=nseg * 44 - 7, resp=('complex', nseg * 45 - 9)))
    return out


def scenarios(tier, seed):
    rng = random.Random(seed)
    items = [('c05', scn, None) for scn in sweep(tier)]
    R = reps(tier)
    for scn in R:
        ff = S.fault_free_frames(scn)
        want = ff.records[0]['outcomes'][0]['kind'] if ff.records[0]['outcomes'] else None
        nf = len(ff.frames)
        for kind, faults in S.single_faults(nf, delays=(0.0025, 0.4, 2.0)):
            items.append(('c05', S.with_faults(scn, faults), (kind, want, S.frame_category(ff.frames[list(faults)[0]]))))
        if tier != 'quick':
            singles = [f for _, f in S.single_faults(nf, delays=(0.0025, 2.0))]
            for i in range(len(singles)):
                for j in range(i + 1, len(singles)):
                    if list(singles[i])[0] != list(singles[j])[0]:
                        f = dict(singles[i])
                        f.update(singles[j])
                        items.append(('c05', S.with_faults(scn, f), None))
    # the library's own LocalDeviceObject defaults: segment timeout 5000 ms ABOVE the APDU timeout 3000 ms (a segmented request answered by a
    # segmented response); failures of this scenario carry their own name (known finding C05-KF1, see known_findings.json)
    dflt = dict(maxApdu=50, retries=3, segT=5000, apduT=3000)
    scn = S.two_node(dict(dflt), dict(dflt), n=2 * 44 + 2, resp=('complex', 2 * 45 + 1))
    ff = S.fault_free_frames(scn)
    want = ff.records[0]['outcomes'][0]['kind'] if ff.records[0]['outcomes'] else None
    for kind, faults in S.single_faults(len(ff.frames), delays=(0.0025, 0.4, 2.0)):
        items.append(('c05', S.with_faults(scn, faults), (kind, want, S.frame_category(ff.frames[list(faults)[0]]) + '-with-segment-timeout-above-apdu-timeout')))
    # a long transfer with a single fault near the wrap-around of the sequence numbers
    wrap = S.two_node(dict(maxApdu=50, win=4, retries=1, maxSegs=None), dict(maxApdu=50, win=4, retries=1, maxSegs=None), n=10, resp=('complex', 270 * 45))
    ffw = S.fault_free_frames(wrap)
    around = [f['i'] for f in ffw.frames if f['type'] == 3 and f['seq'] in (254, 255, 0, 1) and f['i'] > 10]
    for i in around + [j + 1 for j in around]:
        for kind, op in (('drop', ('drop',)), ('dup', ('dup', 0.0005)), ('delay', ('delay', 0.0025))):
            if i < len(ffw.frames):
                items.append(('c05', S.with_faults(wrap, {i: [op]}), (kind, 'complex', S.frame_category(ffw.frames[i]))))
    nrand = 1200 if tier == 'quick' else 20000
    for _ in range(nrand):
        m = rng.choice((50, 50, 50, 128))
        n = rng.choice((0, 10, m - 6, 2 * m, 5 * m, 12 * m))
        rn = rng.choice((10, m - 5, 3 * m, 6 * m, 12 * m))
        scn = S.two_node(dict(maxApdu=m, win=rng.randint(1, 8), retries=rng.randint(0, 3)), dict(maxApdu=m, win=rng.randint(1, 8), retries=rng.randint(0, 3)),
                         n=n, resp=('complex', rn), know=rng.random() < 0.8)
        nf = (n + rn) // (m - 6) * 2 + 4
        items.append(('c05', S.with_faults(scn, S.random_faults(rng, nf, rng.randint(1, 6))), None))
    return items


def run(tier, seed):
    col = S.Collector()
    items = scenarios(tier, seed)
    S.run_items(col, items, workers=1 if tier == 'quick' else 8)
    samples = [S.describe(items[i][1]) for i in (0, len(items) // 2, len(items) - 1)]
    return {'evaluations': col.evaluations, 'distinct_nontrivial': len(col.shapes),
            'rule': "two real stacks, virtual clock, faulty wire: %s request and response lengths for each max APDU size in {50,128,206,480,1024,1476} x window pairs, "
                    "unequal max APDU sizes, windows 1..8 x 1..8, transfers of more than 256 segments; every single fault (drop, duplicate, delay 2.5 ms / 0.4 s / 2 s) at every frame "
                    "index of each representative transfer (must still succeed)%s; random multi-fault scenarios; distinct = distinct (frame count, outcomes, indications, fault kinds) shapes"
                    % ('boundary' if tier == 'quick' else 'every length 0..4S+2 (max APDU 50, 128; boundaries for the larger ones) of', '' if tier == 'quick' else '; all pairs of two faults'),
            'samples': samples, 'failures': col.failures(), 'exhaustive': False}


if __name__ == '__main__':
    import sys, time, json
    t = time.time()
    r = run(sys.argv[1] if len(sys.argv) > 1 else 'quick', 1)
    print(json.dumps({k: v for k, v in r.items() if k != 'failures'}, indent=1)[:1200])
    for f in r['failures']:
        print('-', f['name'], '|', f['input'], '|', f['detail'][:2500])
    print('%.1f s' % (time.time() - t))
