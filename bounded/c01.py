"""
Bounded stage for C01 (labelled bounded, never counted as proved).

What it covers that the proof stage leaves to trusted axioms or to finite
tables:
  * every Enumerated subclass importable from primitivedata/basetypes/apdu/
    object: table is a bijection, every name and every number round-trips in
    both tagging modes (exhaustive over the finite tables);
  * CharacterString text values (utf-8 codec is trusted in the proof stage);
  * Real/Double special values (signed zeros, subnormals, infinities, NaN,
    binary32 boundaries) compared by bit pattern;
  * a native tripwire for the integer codecs around every 8-bit boundary
    (a proved-but-refuted result would be a checker error).
"""
import math
import random
import struct

def _roundtrip(obj, cls, ctx=None):
    from bacpypes.pdu import PDUData
    from bacpypes.primitivedata import Tag
    t = Tag()
    obj.encode(t)
    if ctx is not None:
        t = t.app_to_context(ctx)
    pdu = PDUData()
    t.encode(pdu)
    octets = bytes(pdu.pduData)
    pdu.put_data(b'\x55\xaa')
    d = Tag(pdu)
    if bytes(pdu.pduData) != b'\x55\xaa':
        raise AssertionError("over/under-read: %r left" % (bytes(pdu.pduData),))
    if ctx is not None:
        d = d.context_to_app(cls._app_tag)
    return cls(d), octets

def run(tier, seed):
    import bacpypes.primitivedata as pd
    import bacpypes.basetypes, bacpypes.apdu, bacpypes.object
    import sys
    rng = random.Random(seed)
    failures = []
    evaluations = 0
    distinct = set()
    samples = []

    def fail(name, inp, detail):
        if len(failures) < 20:
            failures.append({'name': name, 'input': repr(inp), 'detail': detail})

    # -- enumerations: exhaustive over every table ---------------------------
    classes = set()
    for mn in ('bacpypes.primitivedata', 'bacpypes.basetypes', 'bacpypes.apdu', 'bacpypes.object'):
        for v in vars(sys.modules[mn]).values():
            if isinstance(v, type) and issubclass(v, pd.Enumerated):
                classes.add(v)
    for cls in sorted(classes, key=lambda c: c.__module__ + c.__name__):
        cls()           # expands the table
        enums = {}
        for k in cls.__mro__:
            enums.update(getattr(k, 'enumerations', {}) or {})
        nums = list(enums.values())
        if len(set(nums)) != len(nums):
            dup = sorted(n for n in set(nums) if nums.count(n) > 1)
            # two names for one number: the number cannot show both names, so one of them does not round-trip
            for n in dup:
                names = sorted(k for k, v in enums.items() if v == n)
                shown = cls._xlate_table.get(n)
                for nm in names:
                    evaluations += 1
                    w, _ = _roundtrip(cls(nm), cls)
                    if w.get_long() != n:
                        fail('enumerated-alias', (cls.__name__, nm), "name %s -> number %d decodes to number %r" % (nm, n, w.get_long()))
        for name, n in sorted(enums.items()):
            for ctx in (None, 0, 14, 15, 254):
                evaluations += 1
                try:
                    for start in (name, n):
                        w, octets = _roundtrip(cls(start), cls, ctx)
                        if w.get_long() != n:
                            fail('enumerated', (cls.__name__, start, ctx), "decoded number %r, expected %r" % (w.get_long(), n))
                    distinct.add((cls.__name__, n))
                except Exception as e:
                    fail('enumerated', (cls.__name__, name, ctx), "raised %r" % (e,))
        if len(samples) < 2 and enums:
            samples.append({'enumeration': cls.__name__, 'entries': len(enums)})

    # -- character strings ----------------------------------------------------
    texts = ['', 'a', 'hello world', 'héllo', '中文', '\U0001F600', 'x' * 253, 'y' * 254, 'z' * 65535, '\x00\x01', 'a\u0000b']
    for _ in range(40 if tier == 'quick' else 400):
        n = rng.choice([1, 2, 3, 17, 252, 253, 254, 255, 1000])
        texts.append(''.join(chr(rng.choice([rng.randint(1, 127), rng.randint(128, 0x7ff), rng.randint(0x800, 0xd7ff), rng.randint(0x10000, 0x10ffff)])) for _ in range(n)))
    for s in texts:
        for ctx in (None, 3, 200):
            evaluations += 1
            try:
                w, octets = _roundtrip(pd.CharacterString(s), pd.CharacterString, ctx)
                if w.value != s or w.strEncoding != 0:
                    fail('characterstring', (s[:30], ctx), "decoded %r" % (w.value[:30],))
                distinct.add(('cs', len(s), s[:4]))
            except Exception as e:
                fail('characterstring', (s[:30], ctx), "raised %r" % (e,))

    # -- floats by bit pattern ------------------------------------------------
    f32_patterns = [0x00000000, 0x80000000, 0x00000001, 0x807fffff, 0x00800000, 0x7f7fffff, 0xff7fffff, 0x7f800000, 0xff800000,
                    0x7fc00000, 0x3f800000, 0xbf800000, 0x3dcccccd, 0x4b800000]
    f32_patterns += [rng.getrandbits(32) for _ in range(200 if tier == 'quick' else 5000)]
    for p in f32_patterns:
        x = struct.unpack('>f', struct.pack('>L', p))[0]
        for ctx in (None, 9):
            evaluations += 1
            try:
                w, octets = _roundtrip(pd.Real(x), pd.Real, ctx)
                got = struct.unpack('>L', struct.pack('>f', w.value))[0]
                content = octets[-4:]
                if (got != p and not (math.isnan(x) and math.isnan(w.value))) or (not math.isnan(x) and content != struct.pack('>L', p)):
                    fail('real', hex(p), "came back as %s" % hex(got))
                distinct.add(('f32', p))
            except Exception as e:
                fail('real', hex(p), "raised %r" % (e,))
    for x in (1e39, -1e39, 3.5e38):
        evaluations += 1
        try:
            _roundtrip(pd.Real(x), pd.Real)
            fail('real-range', x, "a finite value beyond binary32 was encoded instead of refused")
        except OverflowError:
            distinct.add(('f32-refused', x))
        except Exception as e:
            fail('real-range', x, "raised %r" % (e,))
    f64_patterns = [0, 1 << 63, 1, 0x7fefffffffffffff, 0x7ff0000000000000, 0xfff0000000000000, 0x7ff8000000000000, 0x3ff0000000000000, 0x3fb999999999999a]
    f64_patterns += [rng.getrandbits(64) for _ in range(200 if tier == 'quick' else 5000)]
    for p in f64_patterns:
        x = struct.unpack('>d', struct.pack('>Q', p))[0]
        evaluations += 1
        try:
            w, octets = _roundtrip(pd.Double(x), pd.Double, rng.choice([None, 77]))
            got = struct.unpack('>Q', struct.pack('>d', w.value))[0]
            if got != p and not (math.isnan(x) and math.isnan(w.value)):
                fail('double', hex(p), "came back as %s" % hex(got))
            distinct.add(('f64', p))
        except Exception as e:
            fail('double', hex(p), "raised %r" % (e,))

    # -- integer codecs around the 8-bit boundaries (tripwire for the proof stage)
    edges = sorted(set(s * (1 << k) + d for k in (0, 7, 8, 15, 16, 23, 24, 31, 32) for d in (-2, -1, 0, 1, 2) for s in (1, -1)))
    for v in edges:
        for ctx in (None, 0, 254):
            evaluations += 1
            for cls in (pd.Unsigned, pd.Integer):
                try:
                    obj = cls(v)
                except (ValueError, TypeError):
                    continue
                try:
                    w, octets = _roundtrip(obj, cls, ctx)
                except (struct.error, ValueError, OverflowError):
                    distinct.add((cls.__name__, v, 'refused'))
                    continue
                except Exception as e:
                    fail('integer-edges', (cls.__name__, v), "raised %r" % (e,))
                    continue
                if w.value != v:
                    fail('integer-edges', (cls.__name__, v, ctx), "decoded %r" % (w.value,))
                distinct.add((cls.__name__, v))
    samples.append({'integer_edges': edges[:8], 'contexts': [None, 0, 254]})
    samples.append({'float32_patterns': [hex(p) for p in f32_patterns[:6]]})
    return {'evaluations': evaluations, 'distinct_nontrivial': len(distinct),
            'rule': "exhaustive over every Enumerated table found by importing primitivedata/basetypes/apdu/object (every name and number x 5 tagging "
                    "modes); text strings incl. non-BMP and length boundaries 253/254/65535; float bit patterns (specials + random, seeded); integers at "
                    "+-2**k+-2 for k in {0,7,8,15,16,23,24,31,32}; distinct = distinct (type, value) pairs that round-tripped or were refused",
            'samples': samples, 'failures': failures, 'exhaustive': False}
