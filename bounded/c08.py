"""
Bounded stage for C08 (labelled bounded, never counted as proved): the
list-valued messages beyond the proof stage's structural bound, and the whole
pipeline message -> NPDU -> PDU -> NPDU -> message through the type registry.

  * network lists of length 0..20, routing tables of 0..5 entries with port
    info of 0..255 octets: round trip through the two-stage encode/decode;
  * all 256 control octets x address shapes x hop counts {0,1,254,255} x
    message types: header round trip against spec.npci;
  * every octet string of length 0..3 and mutated valid frames through
    NPDU.decode: returns or DecodingError, never another exception; what is
    returned agrees with the reference parser.
"""
import itertools
import random

def run(tier, seed):
    from bacpypes.pdu import PDU, RemoteStation, RemoteBroadcast, GlobalBroadcast
    from bacpypes.errors import DecodingError
    import bacpypes.npdu as N
    from spec import npci as sn
    from spec import netmsg as sm
    rng = random.Random(seed)
    failures = []
    evaluations = 0
    distinct = 0
    samples = []

    def fail(name, inp, detail):
        if not any(f['name'] == name for f in failures):
            failures.append({'name': name, 'input': repr(inp)[:300], 'detail': detail})

    def two_stage(msg):
        npdu = N.NPDU()
        msg.encode(npdu)
        pdu = PDU()
        npdu.encode(pdu)
        return bytes(pdu.pduData)

    def two_stage_decode(octets):
        npdu = N.NPDU()
        npdu.decode(PDU(octets))
        cls = N.npdu_types[npdu.npduNetMessage]
        m = cls()
        m.decode(npdu)
        return m, npdu

    # -- list messages ---------------------------------------------------------
    for cls, attr in ((N.IAmRouterToNetwork, 'iartnNetworkList'), (N.RouterBusyToNetwork, 'rbtnNetworkList'), (N.RouterAvailableToNetwork, 'ratnNetworkList')):
        for ln in range(0, 21):
            for rep in range(3):
                nets = [rng.choice([0, 1, 255, 256, 65534, 65535, rng.randint(0, 65535)]) for _ in range(ln)]
                evaluations += 1
                try:
                    octets = two_stage(cls(list(nets)))
                    if octets[3:] != sm.nets(nets):
                        fail('netlist-layout', (cls.__name__, nets), "body octets differ from clause 6.4")
                    m, npdu = two_stage_decode(octets)
                    if getattr(m, attr) != nets or len(npdu.pduData) != 0:
                        fail('netlist-roundtrip', (cls.__name__, nets), "decoded %r" % (getattr(m, attr),))
                    distinct += 1
                except Exception as e:
                    fail('netlist-exception', (cls.__name__, nets), "raised %r" % (e,))
    samples.append({'network_lists': 'lengths 0..20 x 3 random fillings x 3 message classes'})

    # -- routing tables ----------------------------------------------------------
    for cls, attr in ((N.InitializeRoutingTable, 'irtTable'), (N.InitializeRoutingTableAck, 'irtaTable')):
        for n in range(0, 6):
            for rep in range(6):
                table = [N.RoutingTableEntry(rng.choice([0, 1, 65535, rng.randint(0, 65535)]), rng.randint(0, 255),
                                             bytes(rng.randint(0, 255) for _ in range(rng.choice([0, 1, 2, 127, 254, 255]))))
                         for _ in range(n)]
                evaluations += 1
                try:
                    octets = two_stage(cls(list(table)))
                    if octets[3:] != sm.routing_table([(e.rtDNET, e.rtPortID, e.rtPortInfo) for e in table]):
                        fail('routing-table-layout', (cls.__name__, n), "body octets differ from clause 6.4")
                    m, npdu = two_stage_decode(octets)
                    got = getattr(m, attr)
                    if len(got) != n or any((a.rtDNET, a.rtPortID, bytes(a.rtPortInfo)) != (b.rtDNET, b.rtPortID, bytes(b.rtPortInfo)) for a, b in zip(got, table)) or len(npdu.pduData) != 0:
                        fail('routing-table-roundtrip', (cls.__name__, n), "decoded table differs")
                    distinct += 1
                except Exception as e:
                    fail('routing-table-exception', (cls.__name__, n), "raised %r" % (e,))
    samples.append({'routing_tables': 'entries 0..5, port info lengths {0,1,2,127,254,255}'})

    # -- headers: control octet x address shapes x hop counts x message types ----
    def addr_variants():
        return [None, RemoteStation(1, 5), RemoteStation(65534, bytes(range(1, 7))), RemoteStation(0, bytes(255)), RemoteBroadcast(7), GlobalBroadcast()]
    srcs = [None, RemoteStation(2, 9), RemoteStation(65534, bytes([1] * 255))]
    mtypes = [None, 0, 1, 0x13, 0x7f, 0x80, 0xff]
    for dadr in addr_variants():
        for sadr in srcs:
            for hop in (0, 1, 254, 255):
                for mt in mtypes:
                    for er in (0, 1):
                        for prio in range(4):
                            evaluations += 1
                            h = N.NPDU()
                            h.pduData = bytearray(b'\x01\x02\x03')
                            h.npduDADR, h.npduSADR, h.npduHopCount, h.npduNetMessage = dadr, sadr, hop, mt
                            h.npduVendorID = 0x1234 if (mt is not None and mt >= 128) else None
                            h.pduExpectingReply, h.pduNetworkPriority = er, prio
                            try:
                                pdu = PDU()
                                h.encode(pdu)
                                octets = bytes(pdu.pduData)
                                d = N.NPDU()
                                d.decode(PDU(octets))
                                ok = (d.npduDADR == dadr if dadr is not None else d.npduDADR is None) and \
                                     (d.npduSADR == sadr if sadr is not None else d.npduSADR is None) and \
                                     (dadr is None or d.npduHopCount == hop) and d.npduNetMessage == mt and \
                                     bool(d.pduExpectingReply) == bool(er) and d.pduNetworkPriority == prio and bytes(d.pduData) == b'\x01\x02\x03' and \
                                     (h.npduVendorID is None or d.npduVendorID == h.npduVendorID)
                                if not ok:
                                    fail('header-roundtrip', octets, "fields differ after decode")
                                p = sn.parse(octets)
                                if p is None or p[5] != (hop if dadr is not None else None) or p[6] != mt:
                                    fail('header-layout', octets, "reference parser disagrees with what was encoded")
                                distinct += 1
                            except Exception as e:
                                fail('header-exception', (dadr, sadr, hop, mt), "raised %r" % (e,))
    samples.append({'headers': '6 destinations x 3 sources x 4 hop counts x 7 message types x 2 x 4'})

    # -- arbitrary octets --------------------------------------------------------
    def check_octets(octets):
        nonlocal distinct
        want = sn.parse(octets)
        d = N.NPDU()
        try:
            d.decode(PDU(octets))
        except DecodingError:
            if want is not None:
                fail('decode-refuses-valid', octets, "DecodingError for a header the reference parser accepts")
            return
        except Exception as e:
            fail('decode-other-exception', octets, "raised %r" % (e,))
            return
        if want is None:
            fail('decode-accepts-forbidden', octets, "decoded a header the standard forbids or that is truncated")
            return
        distinct += 1
        if bytes(d.pduData) != octets[want[8]:] or d.npduNetMessage != want[6] or d.npduHopCount != want[5]:
            fail('decode-misreads', octets, "decoded fields differ from the reference parse")

    maxlen = 3 if tier == 'thorough' else 2
    for n in range(0, maxlen + 1):
        for t in itertools.product(range(256), repeat=n):
            evaluations += 1
            check_octets(bytes(t))
    if tier == 'quick':
        for a in (0, 1, 2):
            for b in range(256):
                for c in (0, 1, 2, 254, 255):
                    evaluations += 1
                    check_octets(bytes([a, b, c]))
    base = []
    for dadr in addr_variants():
        for sadr in srcs:
            h = N.NPDU()
            h.pduData = bytearray(b'\xaa\xbb')
            h.npduDADR, h.npduSADR, h.npduHopCount, h.npduNetMessage, h.npduVendorID = dadr, sadr, 77, rng.choice([None, 1, 0x90]), 7
            pdu = PDU()
            h.encode(pdu)
            base.append(bytes(pdu.pduData))
    for octets in base:
        for k in range(len(octets) + 1):
            evaluations += 1
            check_octets(octets[:k])
        for _ in range(60 if tier == 'quick' else 600):
            b = bytearray(octets)
            i = rng.randrange(len(b))
            b[i] = rng.choice([0, 1, 0xff, b[i] ^ (1 << rng.randrange(8)), rng.randint(0, 255)])
            evaluations += 1
            check_octets(bytes(b))
    samples.append({'octet_strings': 'exhaustive to length %d; every prefix and single-octet substitutions of %d valid frames' % (maxlen, len(base))})
    return {'evaluations': evaluations, 'distinct_nontrivial': distinct,
            'rule': "list messages with 0..20 networks, routing tables with 0..5 entries, header grid over destination/source/hop/message type/reply/priority, "
                    "octet strings exhaustive to length %d plus prefixes and substitutions of valid frames; distinct = cases accepted and compared with the reference" % maxlen,
            'samples': samples, 'failures': failures, 'exhaustive': False}
