"""
Bounded stage for C02 (labelled bounded, never counted as proved): the
list-level statements through the public API.

  * every octet string of length 0..3 (quick) / 0..3 plus 200k random longer
    ones (thorough) through TagList.decode: terminates, returns or raises
    InvalidTag only; a returned list re-encodes and decodes to the same list;
  * tag lists over class x number-boundary x length-boundary (0..70000):
    encode -> decode gives the same list and consumes every octet;
  * every open/close/leaf shape up to length 8 (quick: 7) and depth 4 through
    TagList.get_context and Any.decode against spec.balance.
"""
import itertools
import random

def run(tier, seed):
    from bacpypes.pdu import PDUData
    from bacpypes.primitivedata import Tag, TagList, OpeningTag, ClosingTag, ContextTag, ApplicationTag
    from bacpypes.constructeddata import Any
    from bacpypes.errors import InvalidTag, DecodingError
    from spec import balance as sb
    from spec import tags as st
    rng = random.Random(seed)
    failures = []
    evaluations = 0
    distinct = 0
    samples = []

    def fail(name, inp, detail):
        if not any(f['name'] == name for f in failures):
            failures.append({'name': name, 'input': repr(inp)[:300], 'detail': detail})

    def same(a, b):
        return len(a) == len(b) and all(x.tagClass == y.tagClass and x.tagNumber == y.tagNumber and x.tagLVT == y.tagLVT and bytes(x.tagData) == bytes(y.tagData) for x, y in zip(a, b))

    def check_octets(octets):
        nonlocal distinct
        tl = TagList()
        try:
            tl.decode(PDUData(octets))
        except InvalidTag:
            return
        except Exception as e:
            fail('decode-other-exception', octets, "raised %r" % (e,))
            return
        # independent parse
        pos = 0
        ref = []
        while pos < len(octets):
            r = st.parse(octets[pos:])
            if r is None:
                fail('decode-accepts-unparseable', octets, "decoder returned a list, the reference parser rejects at offset %d" % pos)
                return
            ref.append(r)
            pos += r[4]
        if [(t.tagClass, t.tagNumber, t.tagLVT, bytes(t.tagData)) for t in tl.tagList] != [(r[0], r[1], r[2], bytes(r[3])) for r in ref]:
            fail('decode-differs-from-reference', octets, "decoded tags differ from the reference parse")
        distinct += 1
        if any(t.tagNumber > 254 for t in tl.tagList):
            return
        p = PDUData()
        tl.encode(p)
        tl2 = TagList()
        try:
            tl2.decode(p)
        except Exception as e:
            fail('reencode-does-not-decode', octets, "raised %r" % (e,))
            return
        if not same(tl.tagList, tl2.tagList) or len(p.pduData) != 0:
            fail('reencode-differs', octets, "re-encoded list decodes differently")

    for n in range(0, 4):
        if n == 3 and tier == 'quick':
            # all 2**24 strings is a thorough-tier job; quick takes every first octet x a boundary grid
            grid = [0, 1, 4, 5, 6, 7, 8, 0x0e, 0x0f, 0x10, 0x7f, 0x80, 0xf0, 0xf5, 0xfd, 0xfe, 0xff]
            for a in range(256):
                for b in grid:
                    for c in grid:
                        evaluations += 1
                        check_octets(bytes([a, b, c]))
            continue
        for t in itertools.product(range(256), repeat=n):
            evaluations += 1
            check_octets(bytes(t))
    for _ in range(3000 if tier == 'quick' else 200000):
        n = rng.choice([4, 5, 6, 8, 12, 40])
        b = bytes(rng.choice([rng.randint(0, 255), 0x05, 0x0d, 0xf5, 0xfe, 0xff, 0x0e, 0x0f, 0]) for _ in range(n))
        evaluations += 1
        check_octets(b)
    samples.append({'octet_strings': 'all of length 0..2, length 3 %s, random longer' % ('on a 256x17x17 grid' if tier == 'quick' else 'exhaustive')})

    # -- lists over the cross product of boundaries ---------------------------
    lens = [0, 1, 4, 5, 253, 254, 255, 65535, 65536, 70000]
    nums = [0, 1, 14, 15, 16, 254]
    pool = []
    for cls in (0, 1):
        for num in nums:
            for ln in lens:
                if cls == 0 and num == 1:
                    continue
                pool.append(Tag(cls, num, ln, bytes(ln % 251 for _ in range(1)) * ln))
    for num in nums:
        pool.append(OpeningTag(num))
        pool.append(ClosingTag(num))
    pool.append(Tag(0, 1, 0, b''))
    pool.append(Tag(0, 1, 1, b''))
    for t in pool:
        for others in ([], [rng.choice(pool)], [rng.choice(pool), rng.choice(pool)]):
            tags = others[:1] + [t] + others[1:]
            evaluations += 1
            p = PDUData()
            TagList(list(tags)).encode(p)
            octets = bytes(p.pduData)
            want = b''.join(st.frame(x.tagClass, x.tagNumber, x.tagLVT, bytes(x.tagData)) for x in tags)
            if octets != want:
                fail('list-framing', [(x.tagClass, x.tagNumber, x.tagLVT) for x in tags], "octets differ from the standard framing")
            out = TagList()
            try:
                out.decode(p)
            except Exception as e:
                fail('list-roundtrip', [(x.tagClass, x.tagNumber, x.tagLVT) for x in tags], "raised %r" % (e,))
                continue
            if not same(out.tagList, tags) or len(p.pduData) != 0:
                fail('list-roundtrip', [(x.tagClass, x.tagNumber, x.tagLVT) for x in tags], "decoded list differs")
            distinct += 1
    samples.append({'tag_pool': len(pool), 'lengths': lens, 'numbers': nums})

    # -- nesting shapes -------------------------------------------------------
    maxlen = 7 if tier == 'quick' else 8
    # symbols: (class, number): leaf app, leaf ctx 1, ctx 2, open 1, open 2, close 1, close 2
    alphabet = [(0, 2), (1, 1), (1, 2), (2, 1), (2, 2), (3, 1), (3, 2)]
    def mk(sym):
        c, n = sym
        if c == 0:
            return Tag(0, n, 1, b'\x00')
        if c == 1:
            return ContextTag(n, b'\x07')
        return OpeningTag(n) if c == 2 else ClosingTag(n)
    shapes = 0
    for ln in range(0, maxlen + 1):
        for shape in itertools.product(range(len(alphabet)), repeat=ln):
            # prune: depth never above 4, at most one stray close
            depth = 0
            ok = True
            mx = 0
            for s in shape:
                c = alphabet[s][0]
                if c == 2:
                    depth += 1
                    mx = max(mx, depth)
                elif c == 3:
                    depth -= 1
                    if depth < -1:
                        ok = False
                        break
            if not ok or mx > 4:
                continue
            if ln >= 6 and rng.random() > (0.15 if tier == 'quick' else 0.6):
                continue
            shapes += 1
            syms = [alphabet[s] for s in shape]
            classes = [s[0] for s in syms]
            numbers = [s[1] for s in syms]
            tags = [mk(s) for s in syms]
            for context in (1, 2):
                evaluations += 1
                want = sb.get_context(classes, numbers, context)
                try:
                    got = TagList(list(tags)).get_context(context)
                    if want[0] == 'invalid':
                        fail('get_context-accepts-unbalanced', syms, "returned %r for a list that does not balance" % (got,))
                    elif want[0] == 'none' and got is not None:
                        fail('get_context', syms, "found something, reference finds nothing")
                    elif want[0] == 'tag' and got is not tags[want[1]]:
                        fail('get_context', syms, "wrong tag")
                    elif want[0] == 'group' and not (isinstance(got, TagList) and len(got.tagList) == want[2] - want[1] and all(a is b for a, b in zip(got.tagList, tags[want[1]:want[2]]))):
                        fail('get_context', (syms, context), "wrong group extracted")
                except InvalidTag:
                    if want[0] != 'invalid':
                        fail('get_context-rejects-balanced', (syms, context), "InvalidTag for a list whose reference result is %r" % (want,))
                except Exception as e:
                    fail('get_context-other-exception', syms, "raised %r" % (e,))
            evaluations += 1
            want = sb.any_extent(classes)
            a = Any()
            tl = TagList(list(tags))
            try:
                a.decode(tl)
                if want[0] == 'unbalanced':
                    fail('any-accepts-unbalanced', syms, "Any.decode accepted an unbalanced list")
                elif not (len(a.tagList.tagList) == want[1] and all(x is y for x, y in zip(a.tagList.tagList, tags[:want[1]])) and len(tl.tagList) == ln - want[1]):
                    fail('any-extent', syms, "consumed %d tags, reference %d" % (len(a.tagList.tagList), want[1]))
            except DecodingError:
                if want[0] != 'unbalanced':
                    fail('any-rejects-balanced', syms, "DecodingError for balanced content")
            except Exception as e:
                fail('any-other-exception', syms, "raised %r" % (e,))
            distinct += 1
    samples.append({'nesting_shapes': shapes, 'alphabet': alphabet, 'max_length': maxlen, 'max_depth': 4})
    return {'evaluations': evaluations, 'distinct_nontrivial': distinct,
            'rule': "octet strings: exhaustive to length 2, length 3 on a grid (quick) or exhaustive (thorough), random longer; tag lists over class x number "
                    "{0,1,14,15,16,254} x length {0,1,4,5,253,254,255,65535,65536,70000}; open/close/leaf shapes to length %d and depth 4 (lengths >= 6 "
                    "sampled); distinct = inputs that decoded / lists / shapes checked against the reference" % maxlen,
            'samples': samples, 'failures': failures, 'exhaustive': False}
