"""
Bounded stage for C06 (labelled bounded, never counted as proved): routers.

Real NetworkServiceAccessPoint / NetworkServiceElement objects on the library's
virtual LANs (bounded/net_sim.py): stations carry a recording application bound
above the NSAP, routers are an NSAP bound to 2..4 LANs.  Nothing is mocked.

Loop-free internetworks (the bipartite graph routers--networks is a tree):
  every (source, destination kind, destination) over a fixed set of small
  topologies, then random trees of 2..8 networks x 1..3 stations, routers with
  2..4 ports; caches cold (fresh build per message: the path is discovered by
  Who-Is-Router-To-Network, over several hops), announced (routers broadcast
  I-Am-Router-To-Network at start-up), sequential (one build, caches fill as
  the traffic goes) and warm (every station has talked to every network
  before); stations bound as bind(node) / bind(node, None, addr) /
  bind(node, net, addr) / learned by What-Is-Network-Number.
  Checked after each message: every application's deliveries against the
  expectation (unicast: the addressed one once, nobody else; remote broadcast:
  every station of that network once; global: every station once; local: the
  stations of the sender's network once; never the sender), the source address
  shown (network + station of the originator; the local form is accepted on the
  originator's own network), a reply sent to the shown address by EVERY
  recipient arrives at the originator once and nowhere else; unicasts to a
  station / network that does not exist reach nobody.
  Per frame (traced wires): a frame sent by a router because of a received data
  frame is on another network than that one, carries its hop count minus one
  (or no DADR on the last leg), keeps / fills in SADR, and a frame that arrived
  with count 0 has no offspring; originators start at 255.

Cyclic internetworks (rings of 2..4 routers, optionally entered through a
pendant network): the run must end (bounded number of tasks / frames) for
broadcasts, for unicasts on a stale routing loop (256 frames, counts 255..0,
then silence) and for cold-cache discovery.

Routers that are devices too (an application above the router's NSAP; the
library makes it a station of the network of its last-bound port) take part as
sources and destinations in two fixed topologies and 30% of the random trees;
what goes wrong there is reported under kinds prefixed `router-app-`.

Not in the space (expectation would be stronger than the protocol gives): a
station that does not know its network number addressing its OWN network in
the remote form (no router answers Who-Is-Router for the asker's own network).
"""
import random
import struct
import time
import os


ROUTER_APPS = False     # routers that carry their own application are beyond 'stations' in the property text (they have two known gaps, see DESIGN.md
                        # observations: no path to their other attached networks, no SADR on frames leaving a non-local port); True brings them in
OVERRUNS = [0]
KNOWS = ('none', 'addr', 'net+addr', 'learn')
_K = {'none': 'n', 'addr': 'a', 'net+addr': 'k', 'learn': 'l'}


# --------------------------------------------------------------------------- topologies

def spec_repr(spec):
    nets = ','.join('%d:[%s]' % (n, ' '.join('%d%s' % (a, _K[k]) for a, k in spec['nets'][n])) for n in sorted(spec['nets']))
    rts = ' '.join('-'.join('%d.%d' % (n, a) for n, a in ports) for ports in spec['routers'])
    apps = ' apps on routers %s' % sorted(spec['router_apps']) if spec.get('router_apps') else ''
    return "nets{%s} routers[%s]%s%s" % (nets, rts, apps, ' announce' if spec.get('announce') else '')


def spec_size(spec):
    return (len(spec['nets']), sum(len(v) for v in spec['nets'].values()), sum(len(p) for p in spec['routers']))


def line(n, stations=1, knows='none'):
    nets = {i: [(10 + j, knows) for j in range(stations)] for i in range(1, n + 1)}
    routers = [[(i, 50 + i), (i + 1, 50 + i)] for i in range(1, n)]
    return {'nets': nets, 'routers': routers}


def star(ports, stations=1, knows='none'):
    nets = {i: [(10 + j, knows) for j in range(stations)] for i in range(1, ports + 1)}
    return {'nets': nets, 'routers': [[(i, 50) for i in range(1, ports + 1)]]}


def with_knows(spec, pattern):
    """pattern: a knows value, or 'mixed' (cycled over the stations)"""
    out = {'nets': {}, 'routers': [list(p) for p in spec['routers']]}
    if spec.get('router_apps'):
        out['router_apps'] = tuple(spec['router_apps'])
    i = 0
    for n in sorted(spec['nets']):
        out['nets'][n] = []
        for a, _ in spec['nets'][n]:
            out['nets'][n].append((a, KNOWS[i % 4] if pattern == 'mixed' else pattern))
            i += 1
    return out


def fixed_topologies():
    tops = []
    tops.append(('line2', line(2, 2)))
    tops.append(('line3', line(3, 1)))
    tops.append(('line4', line(4, 1)))
    tops.append(('star3', star(3, 1)))
    tops.append(('star4', star(4, 1)))
    # a 3-port router in the middle of two 2-port routers: 1 -R0- 2 -R1(2,3,4)-  4 -R2- 5
    t = {'nets': {1: [(10, 'none')], 2: [(10, 'none'), (11, 'none')], 3: [(10, 'none')], 4: [(10, 'none')], 5: [(10, 'none'), (11, 'none')]},
         'routers': [[(1, 51), (2, 51)], [(2, 52), (3, 52), (4, 52)], [(4, 53), (5, 53)]]}
    tops.append(('tree5', t))
    # two routers on the same network leading to different subtrees, large network numbers
    t = {'nets': {7: [(1, 'none')], 65534: [(2, 'none'), (254, 'none')], 300: [(3, 'none')]},
         'routers': [[(7, 200), (65534, 201)], [(65534, 202), (300, 203)]]}
    tops.append(('bignum', t))
    if not ROUTER_APPS:
        return tops
    # routers that are devices too (an application above the router's NSAP)
    t = line(3, 1)
    t['router_apps'] = (0, 1)
    tops.append(('line3-apps', t))
    t = star(3, 1)
    t['router_apps'] = (0,)
    tops.append(('star3-app', t))
    return tops


def random_tree(rng):
    n = rng.randint(2, 8)
    numbers = rng.sample(range(1, 30), n)
    if rng.random() < 0.2:
        numbers[rng.randrange(n)] = rng.choice((65534, 256, 1000, 40000))
    nets = [numbers[0]]
    routers = []
    used = {numbers[0]: set()}
    while len(nets) < n:
        a = rng.choice(nets)
        k = rng.randint(1, min(3, n - len(nets)))
        new = numbers[len(nets):len(nets) + k]
        for x in new:
            used[x] = set()
        ports = []
        for x in [a] + new:
            addr = rng.choice([v for v in range(1, 255) if v not in used[x]])
            used[x].add(addr)
            ports.append((x, addr))
        rng.shuffle(ports)
        routers.append(ports)
        nets.extend(new)
    spec = {'nets': {}, 'routers': routers}
    pattern = rng.choice(KNOWS + ('mixed', 'mixed', 'mixed'))
    for x in nets:
        st = []
        for _ in range(rng.randint(1, 3)):
            addr = rng.choice([v for v in range(1, 255) if v not in used[x]])
            used[x].add(addr)
            st.append((addr, rng.choice(KNOWS) if pattern == 'mixed' else pattern))
        spec['nets'][x] = sorted(st)
    if ROUTER_APPS and rng.random() < 0.3:
        spec['router_apps'] = tuple(sorted(rng.sample(range(len(routers)), rng.randint(1, min(2, len(routers))))))
    return spec


def net_distance(spec):
    """number of routers between two networks (tree)"""
    adj = {n: set() for n in spec['nets']}
    for ports in spec['routers']:
        for n, _ in ports:
            for m, _ in ports:
                if n != m:
                    adj[n].add(m)
    dist = {}
    for s in adj:
        d = {s: 0}
        todo = [s]
        while todo:
            x = todo.pop(0)
            for y in adj[x]:
                if y not in d:
                    d[y] = d[x] + 1
                    todo.append(y)
        dist[s] = d
    return dist


# --------------------------------------------------------------------------- traffic

def station_list(spec):
    """(network, address, binding, is a router's application) in the order of Internetwork.apps"""
    st = [(n, a, k, False) for n in sorted(spec['nets']) for a, k in spec['nets'][n]]
    for i in spec.get('router_apps', ()):
        n, a = spec['routers'][i][-1]           # the library's "local adapter": the last port bound
        st.append((n, a, 'net+addr', True))
    return st


def all_items(spec):
    """every (source, destination kind, destination)"""
    st = station_list(spec)
    nets = sorted(spec['nets'])
    items = []
    for si, (sn, sa, sk, sra) in enumerate(st):
        aware = sk in ('net+addr', 'learn')
        for ti, (tn, ta, tk, tra) in enumerate(st):
            if ti == si:
                continue
            if tn == sn:
                items.append((si, 'u', (ti, 'l')))
                if aware:
                    items.append((si, 'u', (ti, 'r')))
            else:
                items.append((si, 'u', (ti, 'r')))
        for n in nets:
            if n != sn or aware:
                items.append((si, 'rb', n))
        items.append((si, 'gb', None))
        items.append((si, 'lb', None))
        other = [n for n in nets if n != sn]
        if other:
            taken = {a for a, _ in spec['nets'][other[-1]]} | {a for ports in spec['routers'] for n, a in ports if n == other[-1]}
            items.append((si, 'ug', (other[-1], min(a for a in range(1, 255) if a not in taken))))    # no such station on a real network
        items.append((si, 'ug', (64000, 5)))                    # no such network
    return items


def item_repr(spec, item):
    st = station_list(spec)
    si, kind, tgt = item
    src = '%d:%d' % st[si][:2] + ('(router app)' if st[si][3] else '')
    if kind == 'u':
        t = st[tgt[0]]
        return "%s>%s" % (src, ('%d' % t[1]) if tgt[1] == 'l' else '%d:%d' % t[:2])
    if kind == 'rb':
        return "%s>%d:*" % (src, tgt)
    if kind == 'gb':
        return "%s>*:*" % src
    if kind == 'lb':
        return "%s>*" % src
    return "%s>%d:%d(absent)" % (src, tgt[0], tgt[1])


# --------------------------------------------------------------------------- one scenario

class Runner(object):
    """builds the internetwork of `spec` and pushes items through it"""

    def __init__(self, spec, max_steps=5000):
        # the largest loop-free run that ends (8 networks, cold discovery plus a global broadcast) takes a few hundred tasks
        from bounded.net_sim import Sim, Internetwork
        self.spec = spec
        self.sim = Sim(max_steps=max_steps)
        self.net = Internetwork(self.sim, spec)
        self.st = self.net.apps
        self.mid = 0
        self.problems = []          # (kind, detail)
        self.evaluations = 0
        self.sim.settle()
        # stations that learn their network number ask for it
        for s in self.st:
            if s.knows == 'learn':
                self.sim.call(s.nse.what_is_network_number)
        self.sim.settle()
        for s in self.st:
            if s.knows == 'learn':
                if s.nsap.local_adapter.adapterNet != s.net:
                    self.problems.append(('network-number-not-learned', "%s asked What-Is-Network-Number, adapter network is %r" % (s, s.nsap.local_adapter.adapterNet)))
        self.net.clear()
        self._errors_seen = 0

    def close(self):
        self.sim.close()

    def problem(self, kind, detail, ra=False):
        # ra: the originator or the recipient concerned is a router's own application
        self.problems.append((('router-app-' if ra else '') + kind, detail))

    def dest_of(self, item):
        from bacpypes.pdu import LocalStation, RemoteStation, LocalBroadcast, RemoteBroadcast, GlobalBroadcast
        si, kind, tgt = item
        if kind == 'u':
            t = self.st[tgt[0]]
            return LocalStation(t.addr) if tgt[1] == 'l' else RemoteStation(t.net, t.addr)
        if kind == 'rb':
            return RemoteBroadcast(tgt)
        if kind == 'gb':
            return GlobalBroadcast()
        if kind == 'lb':
            return LocalBroadcast()
        return RemoteStation(tgt[0], tgt[1])

    def expected(self, item):
        si, kind, tgt = item
        s = self.st[si]
        if kind == 'u':
            return {tgt[0]}
        if kind == 'rb':
            return {i for i, t in enumerate(self.st) if t.net == tgt and i != si}
        if kind == 'gb':
            return {i for i, t in enumerate(self.st) if i != si}
        if kind == 'lb':
            return {i for i, t in enumerate(self.st) if t.net == s.net and i != si}
        return set()

    def source_ok(self, shown, origin, receiver):
        text = str(shown)
        if text == '%d:%d' % (origin.net, origin.addr):
            return True
        return receiver.net == origin.net and text == '%d' % origin.addr

    def send(self, items):
        """send the items back to back, settle, check each; returns False when the run did not end"""
        from bounded.net_sim import SimOverrun
        sim = self.sim
        sent = []
        if OVERRUNS[0] >= 3:
            return False            # three runs of this process did not end: the rest is not attempted (each costs max_steps tasks)
        first_frame = len(sim.frames)
        for item in items:
            self.mid += 1
            payload = b'M' + struct.pack('>I', self.mid)
            sent.append((item, payload))
            sim.call(self.st[item[0]].app.send, self.dest_of(item), payload)
        try:
            sim.settle()
        except SimOverrun as e:
            OVERRUNS[0] += 1
            self.problem('tree-no-termination', "%s: the run did not end: %s (%d frames), the last ones %s" % (' '.join(item_repr(self.spec, i) for i in items), e, len(sim.frames), '; '.join(repr(f) for f in sim.frames[-4:])))
            return False
        self.stack_errors(' '.join(item_repr(self.spec, i) for i in items))
        for item, payload in sent:
            self.evaluations += 1
            self.check_deliveries(item, payload)
        self.check_frames(first_frame)
        # replies
        for item, payload in sent:
            origin = self.st[item[0]]
            for ri, r in enumerate(self.st):
                got = [g for g in r.app.got if g[0] == payload]
                if len(got) != 1 or ri == item[0]:
                    continue
                self.mid += 1
                rp = b'R' + struct.pack('>I', self.mid)
                f0 = len(sim.frames)
                sim.call(r.app.send, got[0][1], rp)
                try:
                    sim.settle()
                except SimOverrun as e:
                    OVERRUNS[0] += 1
                    self.problem('tree-no-termination', "reply of %s to %s: the run did not end: %s" % (r, item_repr(self.spec, item), e))
                    return False
                self.stack_errors("reply of %s to %s" % (r, item_repr(self.spec, item)))
                self.evaluations += 1
                ra = origin.is_router or r.is_router
                for qi, q in enumerate(self.st):
                    n = [g for g in q.app.got if g[0] == rp]
                    if qi == item[0]:
                        if len(n) != 1:
                            self.problem('reply-not-delivered' if not n else 'reply-duplicated',
                                         "%s: %s was shown source %s; its reply to that address reached the originator %d times" % (item_repr(self.spec, item), r, got[0][1], len(n)), ra)
                        elif not self.source_ok(n[0][1], r, q):
                            self.problem('reply-source-address', "%s: the reply of %s is shown to the originator as coming from %s" % (item_repr(self.spec, item), r, n[0][1]), ra)
                    elif n:
                        self.problem('reply-misdelivered', "%s: the reply of %s to the shown source %s reached %s (%d times)" % (item_repr(self.spec, item), r, got[0][1], q, len(n)), ra or q.is_router)
                self.check_frames(f0)
        return True

    def stack_errors(self, what):
        errs = self.sim.errors[self._errors_seen:]
        self._errors_seen = len(self.sim.errors)
        for e in errs:
            self.problem('stack-raises-' + e.split(':')[0], "%s: %s" % (what, e))

    def check_deliveries(self, item, payload):
        want = self.expected(item)
        origin = self.st[item[0]]
        kind = item[1]
        label = {'u': 'unicast', 'rb': 'remote-broadcast', 'gb': 'global-broadcast', 'lb': 'local-broadcast', 'ug': 'unicast-to-absent'}[kind]
        for i, r in enumerate(self.st):
            got = [g for g in r.app.got if g[0] == payload]
            ra = origin.is_router or r.is_router
            if i == item[0]:
                if got:
                    self.problem(label + '-back-to-sender', "%s: the sender's own application received it %d times" % (item_repr(self.spec, item), len(got)), ra)
                continue
            if i in want:
                if not got:
                    self.problem(label + '-not-delivered', "%s: %s did not receive it" % (item_repr(self.spec, item), r), ra)
                elif len(got) > 1:
                    self.problem(label + '-duplicated', "%s: %s received it %d times" % (item_repr(self.spec, item), r, len(got)), ra)
                if got and not all(self.source_ok(g[1], origin, r) for g in got):
                    self.problem(label + '-source-address', "%s: %s is shown source %s" % (item_repr(self.spec, item), r, [str(g[1]) for g in got]), ra)
            elif got:
                self.problem(label + '-misdelivered', "%s: %s received it (%d times) and should not have" % (item_repr(self.spec, item), r, len(got)), ra)

    def check_frames(self, start):
        frames = self.sim.frames
        by = {f.serial: f for f in frames}
        offspring = {}
        for f in frames[start:]:
            if f.netmsg is not None:
                continue
            p = by.get(f.cause) if f.cause is not None and f.sender.is_router else None
            if p is None or p.netmsg is not None:
                # an application's own message: sent at once, or released from the pending list by an I-Am-Router-To-Network
                if f.dadr is not None and f.hops != 255:
                    self.problem('initial-hop-count', "frame %r leaves its originator with hop count %r" % (f, f.hops), f.sender.is_router)
                continue
            offspring.setdefault(p.serial, []).append(f)
            if f.net == p.net:
                self.problem('forwarded-back-onto-arrival-network', "router %s received %r and sent %r" % (f.sender, p, f))
            if p.hops is None:
                self.problem('forwarded-without-dadr', "router %s received %r (no DADR) and sent %r" % (f.sender, p, f))
                continue
            if p.hops == 0:
                self.problem('forwarded-with-exhausted-hop-count', "router %s received %r and sent %r" % (f.sender, p, f))
            if f.dadr is not None and f.hops != p.hops - 1:
                self.problem('hop-count-not-lowered-by-one', "router %s received %r and sent %r" % (f.sender, p, f))
            want_sadr = p.sadr if p.sadr is not None else '%s:%s' % (p.net[1:], p.src)
            if f.sadr != want_sadr:
                self.problem('sadr-not-the-originator', "router %s received %r and sent %r (SADR should be %s)" % (f.sender, p, f, want_sadr))

    def warm_up(self):
        """every station talks to every network once; records are thrown away"""
        from bacpypes.pdu import RemoteBroadcast
        for s in self.st:
            for n in sorted(self.spec['nets']):
                if n != s.net:
                    self.mid += 1
                    self.sim.call(s.app.send, RemoteBroadcast(n), b'W' + struct.pack('>I', self.mid))
                    self.sim.settle()
        self.net.clear()
        self.stack_errors('warm-up')


def run_scenario(spec, mode, items, burst=1):
    """-> (evaluations, [(kind, detail, repro items)])"""
    out = []
    evaluations = 0
    if mode == 'cold':
        for item in items:
            r = Runner(spec)
            try:
                r.send([item])
            finally:
                r.close()
            evaluations += r.evaluations
            out.extend((k, d, [item]) for k, d in r.problems)
    else:
        r = Runner(spec)
        try:
            if mode == 'warm':
                r.warm_up()
            i = 0
            while i < len(items):
                before = len(r.problems)
                ok = r.send(items[i:i + burst])
                for k, d in r.problems[before:]:
                    out.append((k, d, items[:i + burst]))
                i += burst
                if not ok:
                    break
            out.extend((k, d, []) for k, d in r.problems if not any(k == o[0] and d == o[1] for o in out))
        finally:
            r.close()
        evaluations += r.evaluations
    return evaluations, out


# --------------------------------------------------------------------------- cycles

def ring(k, pendant):
    """ring of k routers over networks 1..k (router i joins i and i%k+1); with `pendant` a network 9 hangs on network 1 behind router P"""
    nets = {i: [(10, 'none')] for i in range(1, k + 1)}
    routers = [[(i, 50 + i), (i % k + 1, 50 + i)] for i in range(1, k + 1)]
    if k == 2:
        routers = [[(1, 51), (2, 51)], [(1, 52), (2, 52)]]
    if pendant:
        nets[9] = [(10, 'none')]
        routers.append([(9, 60), (1, 60)])
    return {'nets': nets, 'routers': routers}


def run_cycles(fail, samples):
    from bounded.net_sim import SimOverrun
    from bacpypes.pdu import LocalStation, RemoteStation, GlobalBroadcast, LocalBroadcast, RemoteBroadcast
    evaluations = 0
    LIMIT = 3000            # the longest run that ends (stale loop, 256 frames) needs about 300 tasks
    endless = {}            # destination kind -> runs that did not end; after 3 the remaining cases of that kind are not run (each costs LIMIT tasks)
    for k in (2, 3, 4):
        for pendant in (False, True):
            spec = ring(k, pendant)
            label = "ring of %d routers%s: %s" % (k, ' entered from pendant network 9' if pendant else '', spec_repr(spec))
            nst = len(station_list(spec))
            # (a) broadcasts and (c) cold discovery
            cases = []
            for si in range(nst):
                cases.append((si, 'gb', None, 'cycle-global-broadcast-endless'))
                cases.append((si, 'lb', None, 'cycle-local-broadcast-endless'))
                for ti in range(nst):
                    if ti != si and station_list(spec)[ti][0] != station_list(spec)[si][0]:
                        cases.append((si, 'u', (ti, 'r'), 'cycle-cold-discovery-endless'))
                cases.append((si, 'ug', (77, 1), 'cycle-who-is-router-endless'))
            for si, kind, tgt, name in cases:
                if endless.get(kind, 0) >= 3:
                    continue
                r = Runner(spec, max_steps=LIMIT)
                evaluations += 1
                try:
                    r.mid += 1
                    r.sim.call(r.st[si].app.send, r.dest_of((si, kind, tgt)), b'C' + struct.pack('>I', r.mid))
                    try:
                        r.sim.settle()
                        ended = True
                    except SimOverrun:
                        ended = False
                    if not ended:
                        tail = r.sim.frames[-6:]
                        what = sorted({{0: 'who-is-router-relay', 1: 'i-am-router-relay', None: 'data-forwarding'}.get(f.netmsg, 'message-%s-relay' % f.netmsg) for f in r.sim.frames[-40:]})
                        name = 'cycle-endless-' + '+'.join(what)
                        endless[kind] = endless.get(kind, 0) + 1
                        fail(name, "%s; %s" % (label, item_repr(spec, (si, kind, tgt))), (k, pendant, 0),
                             "the run does not end: more than %d tasks, %d frames so far, the last ones %s" % (LIMIT, len(r.sim.frames), '; '.join(repr(f) for f in tail)))
                    else:
                        r.check_frames(0)
                        r.stack_errors(item_repr(spec, (si, kind, tgt)))
                        for kk, d in r.problems:
                            fail('cycle-' + kk, "%s; %s" % (label, item_repr(spec, (si, kind, tgt))), (k, pendant, 0), d)
                        if kind == 'gb' and si == 0:
                            samples.append({'ring': k, 'pendant': pendant, 'global_broadcast_frames': len(r.sim.frames),
                                            'deliveries_per_station': [len(s.app.got) for s in r.st]})
                finally:
                    r.close()
            # (b) a stale routing loop for network 77, entered from outside the ring: the hop count is what ends it
            if pendant and k >= 3:
                r = Runner(spec, max_steps=LIMIT)
                evaluations += 1
                try:
                    ringr = r.net.routers[:k]
                    P = r.net.routers[k]
                    # P (on network 1) -> router 1 (1,2) -> router 2 (2,3) ... -> router k (k,1) -> router 1 ...
                    P.nsap.router_info_cache.update_router_info(1, LocalStation(51), [77])
                    for i, rt in enumerate(ringr):
                        nxt = ringr[(i + 1) % k]
                        shared = (i + 1) % k + 1          # network shared by router i+1 and i+2
                        rt.nsap.router_info_cache.update_router_info(shared, LocalStation(nxt.ports[shared]), [77])
                    src = [s for s in r.st if s.net == 9][0]
                    src.nsap.router_info_cache.update_router_info(None, LocalStation(60), [77])
                    r.sim.call(src.app.send, RemoteStation(77, 1), b'LOOP')
                    try:
                        r.sim.settle()
                        ended = True
                    except SimOverrun:
                        ended = False
                    data = [f for f in r.sim.frames if f.netmsg is None]
                    inp = "%s; stale caches: every router forwards network 77 to the next ring router; 9:10>77:1" % label
                    if not ended:
                        fail('cycle-routing-loop-endless', inp, (k, pendant, 1), "the run does not end: more than %d tasks, %d frames" % (LIMIT, len(r.sim.frames)))
                    else:
                        r.check_frames(0)
                        for kk, d in r.problems:
                            fail('cycle-' + kk, inp, (k, pendant, 1), d)
                        counts = [f.hops for f in data]
                        if counts != list(range(255, -1, -1)):
                            fail('cycle-routing-loop-hop-counts', inp, (k, pendant, 1),
                                 "the frame should travel with hop counts 255, 254 .. 0 and stop; seen %d frames, counts %s..%s" % (len(counts), counts[:4], counts[-4:]))
                        if any(s.app.got for s in r.st):
                            fail('cycle-routing-loop-delivered', inp, (k, pendant, 1), "a frame for a network that does not exist was delivered to an application")
                        samples.append({'ring': k, 'stale_loop_frames': len(data), 'first_last_hop_count': [counts[0], counts[-1]] if counts else None})
                finally:
                    r.close()
    return evaluations


# --------------------------------------------------------------------------- driver

def _job(args):
    spec, mode, items, burst = args
    try:
        ev, probs = run_scenario(spec, mode, items, burst)
    except Exception as e:
        import traceback
        return 0, [('harness-exception', traceback.format_exc()[-600:], items[:1])], args
    return ev, probs, args


def run(tier, seed):
    rng = random.Random(seed)
    failures = {}
    samples = []
    evaluations = 0
    scenarios = 0
    distinct = set()
    t0 = time.time()

    def fail(name, inp, size, detail):
        cur = failures.get(name)
        if cur is None or size < cur[0]:
            failures[name] = (size, {'name': name, 'input': inp[:500], 'detail': detail[:1500]})

    def absorb(ev, probs, args):
        nonlocal evaluations
        spec, mode, items, burst = args
        evaluations += ev
        for kind, detail, repro in probs:
            if kind in failures and failures[kind][0] <= spec_size(spec) + (1, 0):
                continue            # a scenario at least as small is on record for this kind
            rep = repro
            how = mode
            if mode != 'cold' and repro:
                # does the last item alone, on a fresh build, show the same kind?
                try:
                    _, p2 = run_scenario(spec, 'cold', repro[-1:])
                except Exception:
                    p2 = []
                same = [x for x in p2 if x[0] == kind]
                if same:
                    rep, how, detail = repro[-1:], 'cold', same[0][1]
            if how != 'cold' and burst != 1:
                how += ' burst %d' % burst
            inp = "%s; caches %s; traffic %s" % (spec_repr(spec), how, ' '.join(item_repr(spec, i) for i in rep[-6:]))
            fail(kind, inp, spec_size(spec) + (len(rep), len(inp)), detail)

    def classify(spec, mode, items):
        dist = net_distance(spec)
        st = station_list(spec)
        ports = max(len(p) for p in spec['routers'])
        for si, kind, tgt in items:
            if kind == 'u':
                d = dist[st[si][0]][st[tgt[0]][0]]
                distinct.add((mode, kind, st[si][2], st[tgt[0]][2], d, tgt[1], ports))
            elif kind == 'rb':
                distinct.add((mode, kind, st[si][2], dist[st[si][0]][tgt], ports))
            else:
                distinct.add((mode, kind, st[si][2], len(spec['nets']), ports))

    jobs = []
    # A. fixed topologies, every (source, kind, destination), every cache mode, several binding patterns
    fixed = fixed_topologies()
    for name, base in fixed:
        for pattern in ('none', 'net+addr', 'addr', 'learn', 'mixed'):
            spec = with_knows(base, pattern)
            items = all_items(spec)
            for mode in ('cold', 'announce', 'seq', 'warm'):
                sp = dict(spec)
                m = mode
                if mode == 'announce':
                    sp['announce'] = True
                    m = 'cold'
                if tier == 'quick' and name in ('tree5', 'line4', 'star4') and pattern in ('addr', 'learn') and mode != 'cold':
                    continue
                jobs.append((sp, m, items, 1))
    n_fixed = len(jobs)
    # B. random trees
    n_random = 500 if tier == 'quick' else 12000
    for i in range(n_random):
        spec = random_tree(rng)
        items = all_items(spec)
        mode = rng.choice(('cold', 'cold', 'announce', 'seq', 'seq', 'warm'))
        if mode == 'announce':
            spec['announce'] = True
            mode = rng.choice(('cold', 'seq'))
        burst = 1
        if mode == 'cold':
            items = rng.sample(items, min(len(items), 6 if tier == 'quick' else 12))
        else:
            rng.shuffle(items)
            items = items[:14 if tier == 'quick' else 40]
            burst = rng.choice((1, 1, 2, 3))
        jobs.append((spec, mode, items, burst))

    for sp, m, items, b in jobs:
        classify(sp, ('announce-' if sp.get('announce') else '') + m, items)

    workers = 1 if tier == 'quick' else min(8, os.cpu_count() or 1)
    if workers > 1:
        import multiprocessing
        with multiprocessing.get_context('fork').Pool(workers) as pool:
            for ev, probs, args in pool.imap(_job, jobs, chunksize=8):
                absorb(ev, probs, args)
                scenarios += 1
    else:
        for j in jobs:
            absorb(*_job(j))
            scenarios += 1

    # C. cycles
    cyc = run_cycles(lambda name, inp, size, detail: fail(name, inp, size + (len(inp),), detail), samples)
    evaluations += cyc

    samples.insert(0, {'fixed_topologies': [n for n, _ in fixed], 'fixed_jobs': n_fixed, 'random_trees': n_random, 'cycle_cases': cyc,
                       'example_topology': spec_repr(jobs[n_fixed][0]) if len(jobs) > n_fixed else None,
                       'example_traffic': [item_repr(jobs[n_fixed][0], i) for i in jobs[n_fixed][2][:4]] if len(jobs) > n_fixed else None,
                       'seconds': round(time.time() - t0, 1)})
    return {'evaluations': evaluations, 'distinct_nontrivial': len(distinct),
            'rule': "evaluation = one message (or one reply) pushed through a live internetwork of real NSAP/NSE objects and checked at every application and on every traced frame; "
                    "%d scenarios: %d fixed-topology jobs exhaustive over (source, destination kind, destination) x cache mode x binding pattern, %d random trees (2..8 networks, routers with 2..4 ports), "
                    "%d cyclic cases; distinct = distinct (cache mode, destination kind, source binding, target binding, router hops, address form, widest router) classes" % (scenarios, n_fixed, n_random, cyc),
            'samples': samples[:12], 'failures': [v[1] for v in failures.values()], 'exhaustive': True}


if __name__ == '__main__':
    import sys, json
    tier = sys.argv[1] if len(sys.argv) > 1 else 'quick'
    t = time.time()
    res = run(tier, int(sys.argv[2]) if len(sys.argv) > 2 else 1)
    print(json.dumps(res, indent=1, default=repr))
    print("seconds", round(time.time() - t, 1))
