"""
Bounded stage for C20 (labelled bounded, never counted as proved).

  * the Gregorian model used in the proof stage (spec.schedule.days_in_month)
    against calendar.monthrange for every month of 1900..2154 (exhaustive);
  * the three matchers and date_in_calendar_entry on every calendar date of
    1900..2154 (quick: every date of leap/non-leap/century years + every 7th
    day elsewhere) against an oracle built on the datetime module, over every
    pattern class (any/odd/even month, last/odd/even day, week-of-month 1..9,
    day-of-week, open-ended and closed ranges);
  * random schedules built from the real classes (0..4 exceptions of 0..4
    time values with date, date-range, week-and-day periods, 0..4 weekly
    entries) evaluated with LocalScheduleInterpreter.eval at every minute of
    sampled days against the direct interpreter spec.schedule.value_at, with
    the stability clause checked minute by minute up to the reported transition;
  * a timer-driven run over virtual time across entry into and exit from the
    effective period: the schedule keeps running and shows the right value.
"""
import calendar
import datetime
import random
import logging

def run(tier, seed):
    from spec import schedule as ss
    import bacpypes.local.schedule as LS
    from bacpypes.primitivedata import Null, Real, Date, Time
    from bacpypes.constructeddata import ArrayOf
    from bacpypes.basetypes import DailySchedule, DateRange, TimeValue, SpecialEvent, SpecialEventPeriod, CalendarEntry, WeekNDay
    rng = random.Random(seed)
    failures = []
    evaluations = 0
    distinct = 0
    samples = []

    def fail(name, inp, detail):
        if not any(f['name'] == name for f in failures):
            failures.append({'name': name, 'input': repr(inp)[:400], 'detail': detail})

    # -- the calendar model -------------------------------------------------------
    for y in range(1900, 2155):
        for m in range(1, 13):
            evaluations += 1
            if calendar.monthrange(y, m)[1] != ss.days_in_month(y, m):
                fail('monthrange-model', (y, m), "calendar.monthrange says %d days, the model %d" % (calendar.monthrange(y, m)[1], ss.days_in_month(y, m)))

    # -- matchers over the calendar -------------------------------------------------
    def oracle_date(dt, pat):
        yp, mp, dp, wp = pat
        last = (dt.replace(day=28) + datetime.timedelta(days=4)).replace(day=1) - datetime.timedelta(days=1)
        return ((yp == 255 or yp == dt.year - 1900)
                and (mp == 255 or (mp == 13 and dt.month % 2 == 1) or (mp == 14 and dt.month % 2 == 0) or mp == dt.month)
                and (dp == 255 or (dp == 32 and dt.day == last.day) or (dp == 33 and dt.day % 2 == 1) or (dp == 34 and dt.day % 2 == 0) or dp == dt.day)
                and (wp == 255 or wp == dt.isoweekday()))
    def oracle_weeknday(dt, mp, wk, wp):
        last = ((dt.replace(day=28) + datetime.timedelta(days=4)).replace(day=1) - datetime.timedelta(days=1)).day
        if not (mp == 255 or (mp == 13 and dt.month % 2 == 1) or (mp == 14 and dt.month % 2 == 0) or mp == dt.month):
            return False
        if wk != 255:
            if wk <= 5:
                if (dt.day - 1) // 7 + 1 != wk:
                    return False
            else:
                from_end = last - dt.day      # 0 for the last day
                if from_end // 7 + 6 != wk:
                    return False
        return wp == 255 or wp == dt.isoweekday()
    date_patterns = [(255, 255, 255, 255), (255, 13, 255, 255), (255, 14, 255, 255), (255, 255, 32, 255), (255, 255, 33, 255), (255, 255, 34, 255),
                     (255, 2, 29, 255), (255, 255, 31, 255), (100, 255, 255, 255), (255, 255, 255, 1), (255, 255, 255, 7), (255, 2, 32, 255),
                     (120, 2, 32, 7), (255, 14, 34, 3)]
    wnd_patterns = [(255, wk, 255) for wk in list(range(1, 10)) + [255]] + [(13, 6, 5), (14, 1, 1), (2, 5, 255), (2, 9, 255), (255, 7, 7), (255, 8, 3)]
    class R(object):
        pass
    ranges = []
    for (s, e) in (((255, 255, 255, 255), (255, 255, 255, 255)), ((100, 3, 15, 255), (255, 255, 255, 255)), ((255, 255, 255, 255), (100, 3, 15, 255)),
                   ((100, 2, 28, 255), (100, 3, 1, 255)), ((99, 12, 31, 255), (100, 1, 1, 255)), ((0, 1, 1, 255), (254, 12, 31, 255)),
                   ((100, 3, 15, 5), (100, 3, 15, 2))):
        r = R()
        r.startDate, r.endDate = s, e
        ranges.append(r)
    d = datetime.date(1900, 1, 1)
    end = datetime.date(2154, 12, 31)
    full_years = {1900, 1904, 1999, 2000, 2001, 2023, 2024, 2100, 2154}
    while d <= end:
        if tier == 'thorough' or d.year in full_years or d.toordinal() % 7 == 0 or d.day >= 28 or d.day <= 2:
            date = (d.year - 1900, d.month, d.day, d.isoweekday())
            for pat in date_patterns:
                evaluations += 1
                if LS.match_date(date, pat) != oracle_date(d, pat):
                    fail('match_date', (date, pat), "match_date says %r" % (LS.match_date(date, pat),))
            for pat in wnd_patterns:
                evaluations += 1
                if LS.match_weeknday(date, bytes(pat)) != oracle_weeknday(d, *pat):
                    fail('match_weeknday', (date, pat), "match_weeknday says %r" % (LS.match_weeknday(date, bytes(pat)),))
            for r in ranges:
                evaluations += 1
                lo = None if r.startDate[:3] == (255, 255, 255) else datetime.date(r.startDate[0] + 1900, r.startDate[1], r.startDate[2])
                hi = None if r.endDate[:3] == (255, 255, 255) else datetime.date(r.endDate[0] + 1900, r.endDate[1], r.endDate[2])
                want = (lo is None or lo <= d) and (hi is None or d <= hi)
                if LS.match_date_range(date, r) != want:
                    fail('match_date_range', (date, r.startDate, r.endDate), "match_date_range says %r" % (LS.match_date_range(date, r),))
            distinct += 1
        d += datetime.timedelta(days=1)
    samples.append({'matchers': '%d date patterns, %d week-n-day patterns, %d ranges over the calendar 1900..2154' % (len(date_patterns), len(wnd_patterns), len(ranges))})

    # -- random schedules against the direct interpreter -------------------------------------------
    logging.disable(logging.CRITICAL)
    try:
        def rand_times(n):
            ts = sorted(set((rng.randint(0, 23), rng.choice([0, 15, 30, 59]), 0, 0) for _ in range(n)))
            return ts
        def rand_value():
            return Null() if rng.random() < 0.3 else Real(float(rng.randint(1, 9)))
        def rand_period():
            k = rng.choice(['date', 'range', 'weeknday'])
            if k == 'date':
                return CalendarEntry(date=rng.choice([(255, 255, 255, 255), (255, 13, 255, 255), (255, 255, 33, 255), (255, 255, 255, rng.randint(1, 7)), (124, 3, rng.randint(1, 28), 255)]))
            if k == 'range':
                return CalendarEntry(dateRange=DateRange(startDate=rng.choice([(255, 255, 255, 255), (124, 3, 5, 255)]), endDate=rng.choice([(255, 255, 255, 255), (124, 3, 20, 255)])))
            return CalendarEntry(weekNDay=bytes([rng.choice([255, 3, 13, 14]), rng.choice([255, 1, 2, 5, 6, 9]), rng.choice([255, 1, 5, 7])]))
        class Holder(object):
            pass
        nsched = 40 if tier == 'quick' else 400
        for si in range(nsched):
            nexc = rng.randint(0, 4)
            prios = rng.sample(range(1, 17), nexc)
            exc = [SpecialEvent(period=SpecialEventPeriod(calendarEntry=rand_period()),
                                listOfTimeValues=[TimeValue(time=t, value=rand_value()) for t in rand_times(rng.randint(0, 4))],
                                eventPriority=p) for p in prios]
            days = [DailySchedule(daySchedule=[TimeValue(time=t, value=rand_value()) for t in rand_times(rng.randint(0, 4))]) for _ in range(7)]
            cfg = Holder()
            cfg.effectivePeriod = DateRange(startDate=rng.choice([(255, 255, 255, 255), (124, 3, 10, 255)]), endDate=rng.choice([(255, 255, 255, 255), (124, 3, 25, 255)]))
            cfg.exceptionSchedule = exc
            cfg.weeklySchedule = ArrayOf(DailySchedule)(days)
            cfg.scheduleDefault = Real(0.0)
            cfg._app = None
            interp = object.__new__(LS.LocalScheduleInterpreter)
            interp.sched_obj = cfg
            for _ in range(3 if tier == 'quick' else 10):
                dd = datetime.date(2024, 3, rng.randint(1, 31))
                date = (dd.year - 1900, dd.month, dd.day, dd.isoweekday())
                in_period = ss.match_date_range(date, cfg.effectivePeriod.startDate, cfg.effectivePeriod.endDate)
                sexc = [(e.eventPriority, LS.date_in_calendar_entry(date, e.period.calendarEntry),
                         [(tuple(tv.time), None if isinstance(tv.value, Null) else tv.value) for tv in e.listOfTimeValues]) for e in exc]
                daily = [(tuple(tv.time), None if isinstance(tv.value, Null) else tv.value) for tv in days[dd.isoweekday() - 1].daySchedule]
                stable_until = None
                stable_value = None
                for minute in range(0, 24 * 60, 1 if tier == 'thorough' else 5):
                    t = (minute // 60, minute % 60, 0, 0)
                    evaluations += 1
                    want = ss.value_at(in_period, sexc, daily, cfg.scheduleDefault, t)
                    try:
                        got = interp.eval(date, t)
                    except Exception as e:
                        fail('eval-raises', (si, date, t), "raised %r" % (e,))
                        break
                    if want[0] == 'none':
                        if got is not None:
                            fail('eval-outside-period', (si, date, t), "returned %r outside the effective period" % (got,))
                        continue
                    if got is None or got[0] is not want[1]:
                        fail('eval-value', (si, date, t), "eval gives %r, the standard's interpretation %r" % (got and getattr(got[0], 'value', got[0]), getattr(want[1], 'value', want[1])))
                        break
                    if not (t < tuple(got[1]) <= (24, 0, 0, 0)):
                        fail('eval-transition-order', (si, date, t), "next transition %r is not after %r" % (got[1], t))
                        break
                    if stable_until is not None and t < stable_until and got[0] is not stable_value:
                        fail('eval-stale', (si, date, t), "the value changed at %r although the transition reported earlier was %r" % (t, stable_until))
                        break
                    stable_until, stable_value = tuple(got[1]), got[0]
                else:
                    distinct += 1
        samples.append({'schedules': '%d random schedules x days of March 2024, every %s minute' % (nsched, 'single' if tier == 'thorough' else 'fifth')})

        # -- timer-driven run across the edges of the effective period ---------------------------
        _timer_run(fail, LS, tier)
        evaluations += 1
    finally:
        logging.disable(logging.NOTSET)
    return {'evaluations': evaluations, 'distinct_nontrivial': distinct,
            'rule': "calendar model exhaustive; matchers over sampled (quick) or all (thorough) dates 1900..2154 x pattern classes vs a datetime oracle; random "
                    "schedules evaluated minute by minute vs the direct interpreter with the stability clause; timer-driven multi-day run across the effective "
                    "period; distinct = dates / schedule-days fully checked", 'samples': samples, 'failures': failures, 'exhaustive': False}

def _timer_run(fail, LS, tier):
    """virtual time: 3 days before the effective period, through it, and 3 days after"""
    import itertools
    import time as _t
    import bacpypes.task as T
    import bacpypes.core as core
    from bacpypes.primitivedata import Null, Real, Date, Time
    from bacpypes.constructeddata import ArrayOf
    from bacpypes.basetypes import DailySchedule, DateRange, TimeValue
    import bacpypes.primitivedata as PD
    class Clock(object):
        now = 0.0
    orig = (T._time, T._task_manager, T.TaskManager.get_time, _t.time)
    m = object.__new__(T.TaskManager)
    m.tasks, m.trigger, m.counter = [], None, itertools.count()
    T._task_manager = m
    T._time = lambda: Clock.now
    T.TaskManager.get_time = lambda self: Clock.now
    saved_singleton = T.TaskManager._singleton_instance
    T.TaskManager._singleton_instance = m          # Date().now() / Time().now() ask the singleton for the time
    saved_deferred = list(core.deferredFns)
    try:
        start = _t.mktime((2024, 3, 7, 0, 0, 0, 0, 0, -1))
        Clock.now = start
        so = LS.LocalScheduleObject(
            objectIdentifier=('schedule', 1), objectName='s', presentValue=Real(-1.0),
            effectivePeriod=DateRange(startDate=(124, 3, 10, 255), endDate=(124, 3, 12, 255)),
            weeklySchedule=ArrayOf(DailySchedule)([DailySchedule(daySchedule=[TimeValue(time=(8, 0, 0, 0), value=Real(8.0)), TimeValue(time=(17, 0, 0, 0), value=Null())])] * 7),
            scheduleDefault=Real(0.0))
        del core.deferredFns[:]
        try:
            so._task.process_task()
        except Exception as e:
            fail('timer-run-raises', 'start', "the interpreter task raised %r when started three days before the effective period" % (e,))
            return
        seen = {}
        for hour in range(0, 24 * 9):
            target = start + hour * 3600 + 1
            while m.tasks and m.tasks[0][0] <= target:
                Clock.now = m.tasks[0][0]
                task, _ = m.get_next_task()
                if task is None:
                    break
                try:
                    m.process_task(task)
                except Exception as e:
                    fail('timer-run-raises', hour, "the interpreter task raised %r at hour %d" % (e, hour))
                    return
            Clock.now = target
            lt = _t.localtime(target)
            in_period = (lt.tm_mon, lt.tm_mday) >= (3, 10) and (lt.tm_mon, lt.tm_mday) <= (3, 12)
            if in_period:
                want = 8.0 if 8 <= lt.tm_hour < 17 else 0.0
                if so.presentValue.value != want:
                    fail('timer-run-value', (lt.tm_mday, lt.tm_hour), "day %d hour %d inside the effective period: present value %r, the calendar dictates %r" % (lt.tm_mday, lt.tm_hour, so.presentValue.value, want))
                    return
            if not m.tasks:
                fail('timer-run-stopped', (lt.tm_mday, lt.tm_hour), "the schedule's timer is no longer armed on day %d hour %d" % (lt.tm_mday, lt.tm_hour))
                return
    finally:
        T._time, T._task_manager, T.TaskManager.get_time = orig[0], orig[1], orig[2]
        T.TaskManager._singleton_instance = saved_singleton
        core.deferredFns[:] = saved_deferred
