"""
C19 decided as *executable contracts checked exhaustively over the property's
own bound* (labelled bounded; see DESIGN: the nested-dict cache with identity-
compared records is outside the encoded subset for an unbounded proof).

Contracts (abstract view  path: (attached net, destination net) -> router
address | none;  representation invariant: the two indexes agree):

  Inv    path_info[(s,d)] is r  <=>  routers[s][r.address] is r  and  d in r.dnets
  get_router_info(s,d)            result.address == path(s,d) or None; nothing changes
  update_router_info(s,a,D)       path' == path[(s,d) := a for d in D], rest unchanged
  delete_router_info(s,address=a) path' == path minus every (s,d) that mapped to a
  delete_router_info(s,dnets=D)   path' == path minus (s,d) for d in D
  delete_router_info(s,a,D)       path' == path minus (s,d) for d in D that mapped to a
  update_source_network(o,n)      pairs of o become pairs of n (n not yet present), rest unchanged
  each keeps Inv and raises nothing (RuntimeError iff neither address nor dnets given)

Explored: every operation sequence up to length L (quick 4, thorough 5) over
2 attached networks x 3 routers x 4 destinations (destination sets of size
1..2), states de-duplicated by their abstract view + invariant status, plus
random sequences of length 300; the same histories are also driven through
real network-layer messages into a NetworkServiceAccessPoint/Element.
"""
import itertools
import random

SNETS = (1, 2)
DNETS = (10, 20, 30, 40)

def run(tier, seed):
    from bacpypes.netservice import RouterInfoCache
    from bacpypes.pdu import LocalStation
    rng = random.Random(seed)
    failures = []
    known = []
    evaluations = 0
    samples = []
    routers = [LocalStation(i) for i in (1, 2, 3)]

    def fail(name, inp, detail, kf=None):
        d = {'name': name, 'input': repr(inp)[:500], 'detail': detail}
        if kf:
            d['known_finding'] = kf
        if not any(f['name'] == name and f.get('known_finding') == kf for f in failures):
            failures.append(d)

    def view(c):
        """abstract view via the public lookup, plus the invariant"""
        path = {}
        for s in SNETS + (3,):
            for d in DNETS:
                ri = c.get_router_info(s, d)
                if ri is not None:
                    path[(s, d)] = ri.address.addrAddr[0]
        return path

    def inv(c):
        """the two indexes agree, nothing dangling in either direction"""
        for (s, d), ri in c.path_info.items():
            if c.routers.get(s, {}).get(ri.address) is not ri:
                return "path (%r,%r) leads to a record that is not the router table's record for %s" % (s, d, ri.address)
            if d not in ri.dnets:
                return "path (%r,%r) leads to a router that is not credited with %r" % (s, d, d)
        for s, table in c.routers.items():
            for a, ri in table.items():
                if ri.address != a:
                    return "router table key %s holds the record of %s" % (a, ri.address)
                for d in ri.dnets:
                    if c.path_info.get((s, d)) is not ri:
                        return "router %s is credited with %r on net %r but the lookup does not lead to it" % (a, d, s)
                if not ri.dnets:
                    return "router %s kept with no destinations" % (a,)
        return None

    dsets = [[d] for d in DNETS] + [[10, 20], [30, 40], [20, 30]]
    ops = []
    for s in SNETS:
        for ri, r in enumerate(routers):
            for D in dsets:
                ops.append(('learn', s, ri, tuple(D)))
            ops.append(('forget_router', s, ri, None))
            for D in ([10], [20, 30]):
                ops.append(('forget_router_dnets', s, ri, tuple(D)))
        for D in dsets[:4] + [[10, 20]]:
            ops.append(('forget_dnets', s, None, tuple(D)))
    ops.append(('renumber', 1, None, 3))
    ops.append(('renumber', 2, None, 3))
    ops.append(('renumber', 3, None, 1))

    def apply_model(path, op):
        kind, s, ri, arg = op
        path = dict(path)
        if kind == 'learn':
            for d in arg:
                path[(s, d)] = routers[ri].addrAddr[0]
        elif kind == 'forget_router':
            for k in [k for k, v in path.items() if k[0] == s and v == routers[ri].addrAddr[0]]:
                del path[k]
        elif kind == 'forget_router_dnets':
            for d in arg:
                if path.get((s, d)) == routers[ri].addrAddr[0]:
                    del path[(s, d)]
        elif kind == 'forget_dnets':
            for d in arg:
                path.pop((s, d), None)
        elif kind == 'renumber':
            new = arg
            if any(k[0] == new for k in path):
                return None         # renumbering onto a network that already has routers: outside the contract's precondition
            for k in [k for k in path if k[0] == s]:
                path[(new, k[1])] = path.pop(k)
        return path

    def apply_real(c, op):
        kind, s, ri, arg = op
        if kind == 'learn':
            c.update_router_info(s, routers[ri], list(arg))
        elif kind == 'forget_router':
            c.delete_router_info(s, address=routers[ri])
        elif kind == 'forget_router_dnets':
            c.delete_router_info(s, routers[ri], list(arg))
        elif kind == 'forget_dnets':
            c.delete_router_info(s, dnets=list(arg))
        else:
            c.update_source_network(s, arg)

    def classify(op, exc, before_path):
        """known findings (genuine defects recorded, not repaired) by the call that fails"""
        kind, s, ri, arg = op
        return None

    def run_seq(seq):
        nonlocal evaluations
        c = RouterInfoCache()
        model = {}
        for i, op in enumerate(seq):
            evaluations += 1
            want = apply_model(model, op)
            if want is None:
                return None          # precondition of renumber not met: history not continued
            try:
                apply_real(c, op)
            except Exception as e:
                fail('%s-raises-%s' % (op[0], type(e).__name__), seq[:i + 1], "%s raised %r" % (op[0], e), classify(op, e, model))
                return None
            bad = inv(c)
            if bad:
                fail('invariant-after-' + op[0], seq[:i + 1], bad, classify(op, None, model))
                return None
            got = view(c)
            if got != want:
                fail('abstract-view-after-' + op[0], seq[:i + 1], "lookups give %r, the history implies %r" % (sorted(got.items()), sorted(want.items())), classify(op, None, model))
                return None
            model = want
        return (tuple(sorted(model.items())),)

    L = 4 if tier == 'quick' else 5
    # breadth-first over abstract states: every operation from every reachable state, depth L
    frontier = {(): ()}
    seen = {()}
    states = 1
    for depth in range(L):
        nxt = {}
        for key, seq in frontier.items():
            for op in ops:
                r = run_seq(list(seq) + [op])
                if r is None:
                    continue
                if r[0] not in seen:
                    seen.add(r[0])
                    nxt[r[0]] = tuple(seq) + (op,)
        states += len(nxt)
        frontier = nxt
        if not frontier:
            break
    for _ in range(40 if tier == 'quick' else 400):
        run_seq([rng.choice(ops) for _ in range(300)])
    samples.append({'operations': len(ops), 'depth': L, 'distinct_abstract_states': states, 'example_ops': [list(map(str, o)) for o in ops[:3]]})

    # -- the same kind of history through real network-layer messages ---------------------------
    try:
        _messages(rng, tier, fail, routers)
    except Exception as e:
        fail('message-driver', '', "raised %r" % (e,))

    return {'evaluations': evaluations, 'distinct_nontrivial': states,
            'rule': "breadth-first over operation sequences up to length %d from the empty cache (every one of %d operations from every distinct abstract state), "
                    "random sequences of length 300; after each operation the representation invariant and the abstract view (through get_router_info) are compared "
                    "with the model; distinct = distinct abstract states reached" % (L, len(ops)),
            'samples': samples, 'failures': failures, 'exhaustive': True}

def _messages(rng, tier, fail, routers):
    """I-Am-Router-To-Network announcements and routed traffic into a real node"""
    from bacpypes.netservice import NetworkServiceAccessPoint, NetworkServiceElement
    from bacpypes.comm import bind, Server
    from bacpypes.npdu import IAmRouterToNetwork, NPDU
    from bacpypes.pdu import PDU, LocalStation, RemoteStation
    import bacpypes.task as T
    import itertools as _it
    if T._task_manager is None:
        m = object.__new__(T.TaskManager)
        m.tasks, m.trigger, m.counter = [], None, _it.count()
        T._task_manager = m
    class Wire(Server):
        def __init__(self):
            Server.__init__(self)
            self.sent = []
        def indication(self, pdu):
            self.sent.append(pdu)
    for trial in range(30 if tier == 'quick' else 300):
        nsap = NetworkServiceAccessPoint()
        nse = NetworkServiceElement()
        bind(nse, nsap)
        wire = Wire()
        nsap.bind(wire, 1, LocalStation(99))
        model = {}
        for step in range(12):
            r = rng.choice(routers)
            D = rng.sample([10, 20, 30, 40], rng.randint(1, 2))
            msg = IAmRouterToNetwork(list(D))
            npdu = NPDU()
            msg.encode(npdu)
            pdu = PDU()
            npdu.encode(pdu)
            pdu.pduSource = r
            pdu.pduDestination = LocalStation(99)
            nsap.adapters[1].confirmation(pdu)
            for d in D:
                model[d] = r.addrAddr[0]
            for d in (10, 20, 30, 40):
                ri = nsap.router_info_cache.get_router_info(1, d)
                got = None if ri is None else ri.address.addrAddr[0]
                if got != model.get(d):
                    fail('announcements', (trial, step), "after I-Am-Router announcements the next hop to %d is %r, newest announcement says %r" % (d, got, model.get(d)))
                    return

    # -- traffic follows the current knowledge, also after the attached network is renumbered -------
    from bacpypes.npdu import NetworkNumberIs
    from bacpypes.apdu import WhoIsRequest
    for start_net, numbers in ((None, (5, 6)), (7, (8,)), (3, ())):
        nsap = NetworkServiceAccessPoint()
        nse = NetworkServiceElement()
        bind(nse, nsap)
        wire = Wire()
        nsap.bind(wire, start_net, LocalStation(99))
        def feed(msg, src, broadcast=False):
            from bacpypes.pdu import LocalBroadcast
            npdu = NPDU()
            msg.encode(npdu)
            pdu = PDU()
            npdu.encode(pdu)
            pdu.pduSource = src
            pdu.pduDestination = LocalBroadcast() if broadcast else LocalStation(99)
            list(nsap.adapters.values())[0].confirmation(pdu)
        feed(IAmRouterToNetwork([10, 20]), routers[0])
        feed(IAmRouterToNetwork([30]), routers[1])
        steps = [None] + list(numbers)
        for n in steps:
            if n is not None:
                feed(NetworkNumberIs(n, 1), routers[2], broadcast=True)
                if start_net is None and list(nsap.adapters) != [n]:
                    fail('renumber-ignored', (start_net, n), "Network-Number-Is %r did not renumber the attached network (adapters %r)" % (n, list(nsap.adapters)))
                    return
            for d, want in ((10, routers[0]), (30, routers[1]), (20, routers[0])):
                req = WhoIsRequest()
                req.pduDestination = RemoteStation(d, 4)
                before = len(wire.sent)
                try:
                    nsap.indication(req)
                except Exception as e:
                    fail('traffic-raises', (start_net, n, d), "sending to network %d after %r raised %r" % (d, 'renumbering to %r' % n if n is not None else 'learning', e))
                    return
                out = wire.sent[before:]
                if len(out) != 1 or out[0].pduDestination != want:
                    fail('traffic-next-hop', (start_net, n, d), "frame for network %d went to %r, the current knowledge says router %s" % (d, [str(x.pduDestination) for x in out], want))
                    return
