"""
C04 bounded stage: two real application-layer stacks (StateMachineAccessPoint,
DeviceInfoCache, real TaskManager on a virtual clock) joined by a wire that
drops, duplicates and delays frames (bounded/ssm_sim.py).

Checked on every run: every submitted confirmed request is confirmed exactly
once (ack / error / reject / abort), within the bound computed from timeouts,
retries and segment counts; a non-abort outcome is backed by a delivered reply;
at quiescence no client or server transaction, no scheduled task and no device
information reference is left; the requesting stack sends nothing for the
request after the outcome; nothing raises out of a delivery or a timer.
"""
import random

from bounded import ssm_sim as S


def bases(tier):
    """representative transactions: (label, scenario)"""
    out = []
    seg = 50 - 6
    for retries in (0, 1, 3):
        r = dict(retries=retries)
        for resp in (('simple',), ('complex', 10), ('error',), ('reject',), ('abort',), ('never',)):
            out.append(S.two_node(dict(maxApdu=50, **r), dict(maxApdu=50, **r), n=10, resp=resp))
        out.append(S.two_node(dict(maxApdu=50, **r), dict(maxApdu=50, **r), n=10, resp=('complex', 2 * seg + 1)))
        out.append(S.two_node(dict(maxApdu=50, **r), dict(maxApdu=50, **r), n=2 * seg + 1, resp=('simple',)))
        out.append(S.two_node(dict(maxApdu=50, **r), dict(maxApdu=50, **r), n=10, resp=('simple',), delay=1.0))
        out.append(S.two_node(dict(maxApdu=50, **r), dict(maxApdu=50, **r), n=10, resp=('complex', 100), delay=4.0))
        for w1, w2 in ((1, 1), (2, 2), (4, 8), (8, 4)):
            out.append(S.two_node(dict(maxApdu=50, win=w1, **r), dict(maxApdu=50, win=w2, **r), n=4 * seg + 2, resp=('complex', 4 * seg + 2)))
    # the application uses the same invoke ID again right after the first transaction: stale frames of the first meet the second
    for n, rn in ((10, 100), (100, 10)):
        scn = S.two_node(dict(maxApdu=50, retries=1), dict(maxApdu=50, retries=1), n=n, resp=('complex', rn))
        scn['reqs'][0]['inv'] = 7
        scn['reqs'].append(dict(t=0.3, c=1, s=2, n=10, inv=7, resp=('complex', 10), delay=1.0))
        out.append(scn)
    if tier != 'quick':
        for retries in (2,):
            for w1, w2 in ((3, 5), (7, 1)):
                out.append(S.two_node(dict(maxApdu=128, win=w1, retries=retries), dict(maxApdu=128, win=w2, retries=retries), n=700, resp=('complex', 900)))
    return out


def sweep(tier):
    """fault-free: sizes around every boundary x segmentation settings x with / without device information"""
    out = []
    maxes = (50, 128) if tier == 'quick' else S.MAXAPDU
    for m in maxes:
        sizes = S.seg_boundaries(m, 6) + S.seg_boundaries(m, 5)
        sizes = sorted(set(sizes))
        for know in (True, False):
            for n in sizes:
                for rn in (('simple',), ('complex', sizes[len(sizes) // 2]), ('complex', sizes[-1])):
                    out.append(S.two_node(dict(maxApdu=m), dict(maxApdu=m), n=n, resp=rn, know=know))
                out.append(S.two_node(dict(maxApdu=m), dict(maxApdu=m), n=10, resp=('complex', n), know=know))
        for s1 in S.SEGS:
            for s2 in S.SEGS:
                for know in (True, False):
                    for n, rn in ((10, 10), (3 * m, 10), (10, 3 * m), (3 * m, 3 * m)):
                        for ms in (None, 2, 64):
                            out.append(S.two_node(dict(maxApdu=m, seg=s1, maxSegs=ms), dict(maxApdu=m, seg=s2, maxSegs=ms), n=n, resp=('complex', rn), know=know))
    for w1 in range(1, 9):
        for w2 in range(1, 9):
            out.append(S.two_node(dict(maxApdu=50, win=w1), dict(maxApdu=50, win=w2), n=9 * 44 + 3, resp=('complex', 9 * 45 + 3)))
    return out


def scenarios(tier, seed):
    rng = random.Random(seed)
    items = []
    B = bases(tier)
    for scn in sweep(tier):
        items.append(('c04', scn, None))
    for scn in B:
        ff = S.fault_free_frames(scn)
        nf = len(ff.frames)
        items.append(('c04', scn, None))
        for kind, faults in S.single_faults(nf, delays=(0.0025, 2.0, 7.0)):
            items.append(('c04', S.with_faults(scn, faults), None))
        for i in range(nf):
            items.append(('c04', S.with_faults(scn, {i: [('dup', 0.5)]}), None))
        for k in range(nf + 1):
            items.append(('c04', S.with_faults(scn, silence=(k, None)), None))
            items.append(('c04', S.with_faults(scn, silence=(k, 2)), None))
            items.append(('c04', S.with_faults(scn, silence=(k, 1)), None))
        if tier != 'quick':
            singles = [f for _, f in S.single_faults(nf, delays=(0.0025, 2.0))]
            for i in range(len(singles)):
                for j in range(i + 1, len(singles)):
                    a, b = singles[i], singles[j]
                    if list(a)[0] == list(b)[0]:
                        continue
                    f = dict(a)
                    f.update(b)
                    items.append(('c04', S.with_faults(scn, f), None))
    nrand = 1200 if tier == 'quick' else 20000
    for _ in range(nrand):
        scn = rng.choice(B)
        m = rng.choice((50, 50, 128))
        scn = S.two_node(dict(maxApdu=m, win=rng.randint(1, 8), retries=rng.randint(0, 3), seg=rng.choice(S.SEGS[2:] + S.SEGS)),
                         dict(maxApdu=m, win=rng.randint(1, 8), retries=rng.randint(0, 3), seg=rng.choice(S.SEGS[2:] + S.SEGS)),
                         n=rng.choice((0, 10, m - 6, m - 5, 2 * m, 5 * m)), know=rng.random() < 0.7,
                         resp=rng.choice((('simple',), ('complex', 10), ('complex', 3 * m), ('complex', 6 * m), ('error',), ('never',))),
                         delay=rng.choice((0, 0, 0.5, 2.9, 3.5)))
        scn = S.with_faults(scn, S.random_faults(rng, 30, rng.randint(1, 8)))
        if rng.random() < 0.2:
            scn['silence'] = (rng.randint(0, 30), rng.choice((None, 1, 2)))
        items.append(('c04', scn, None))
    return items


def run(tier, seed):
    col = S.Collector()
    items = scenarios(tier, seed)
    S.run_items(col, items, workers=1 if tier == 'quick' else 8)
    samples = [S.describe(items[i][1]) for i in (0, len(items) // 2, len(items) - 1)]
    return {'evaluations': col.evaluations, 'distinct_nontrivial': len(col.shapes),
            'rule': "two real stacks on a virtual clock and a faulty wire: fault-free sweep of sizes around every segmentation boundary x 16 segmentation "
                    "settings x with/without device information x windows 1..8; for each representative transaction every single fault (drop, duplicate, "
                    "delay short/long) at every frame index and total silence (both directions / one direction) from every frame index on%s; random multi-fault "
                    "scenarios; distinct = distinct (frame count, outcomes, indications, fault kinds) shapes" % ('' if tier == 'quick' else '; all pairs of two faults'),
            'samples': samples, 'failures': col.failures(), 'exhaustive': False}


if __name__ == '__main__':
    import sys, time, json
    t = time.time()
    r = run(sys.argv[1] if len(sys.argv) > 1 else 'quick', 1)
    print(json.dumps({k: v for k, v in r.items() if k != 'failures'}, indent=1)[:1500])
    for f in r['failures']:
        print('-', f['name'], '|', f['input'], '|', f['detail'][:1500])
    print('%.1f s' % (time.time() - t))
