"""
C12 bounded stage: two real stacks with every pairing of capabilities on the
wire of bounded/ssm_sim.py (mostly fault-free: the property is about what is
put on the wire).

Checked on every frame: its octet length is at most the maximum APDU length
its receiver announced - for responses the max-APDU code of the request being
answered, for requests the device information the sender was given (I-Am);
a complex ack is segmented only if the request has segmented-response-accepted
set and into at most the request's max-segments; a request is segmented only
toward a peer announced to receive segments and into at most its
max-segments; every window field is within 1..127 and a segment ack never
grants more than the sender of the segments proposed, nor does a sender put
more segments in a row on the wire than the last ack granted.  A message that
cannot be sent within the limits ends in an abort for the requester; exactly
one outcome per request.
"""
import random

from bounded import ssm_sim as S


def around(m1, m2):
    """lengths around every boundary that either maximum produces"""
    out = set([0, 1])
    for m in (m1, m2):
        for h in (3, 4, 5, 6):
            for k in (-1, 0, 1):
                out.add(m - h + k)
        out.add(2 * (m - 6))
        out.add(2 * (m - 5) + 1)
    return sorted(x for x in out if x >= 0)


def scenarios(tier, seed):
    rng = random.Random(seed)
    q = tier == 'quick'
    items = []
    maxes = (50, 128, 480, 1476) if q else S.MAXAPDU
    # capability pairs x lengths around the boundaries, request and response direction
    for m1 in maxes:
        for m2 in maxes:
            for s1 in S.SEGS:
                for s2 in S.SEGS:
                    for know in (True, False):
                        sizes = around(m1, m2)
                        if q:
                            sizes = rng.sample(sizes, 6) + [max(m1, m2) + 1]
                        for n in sizes:
                            items.append(S.two_node(dict(maxApdu=m1, seg=s1), dict(maxApdu=m2, seg=s2), n=n, resp=('simple',), know=know))
                            items.append(S.two_node(dict(maxApdu=m1, seg=s1), dict(maxApdu=m2, seg=s2), n=5, resp=('complex', n), know=know))
    # max-segments of either side x number of segments needed
    msv = (None, 2, 4, 8, 16, 32, 64, 65)
    for ms1 in msv:
        for ms2 in msv:
            for nseg in (2, 3, 4, 5, 8, 9, 16, 17, 33, 64, 65, 66):
                if q and nseg in (16, 17, 33) and (ms1, ms2) not in ((16, 16), (32, 32), (None, None)):
                    continue
                items.append(S.two_node(dict(maxApdu=50, maxSegs=ms1), dict(maxApdu=50, maxSegs=ms2), n=nseg * 44 - 3, resp=('simple',)))
                items.append(S.two_node(dict(maxApdu=50, maxSegs=ms1), dict(maxApdu=50, maxSegs=ms2), n=5, resp=('complex', nseg * 45 - 3)))
    # windows
    wins = (1, 2, 3, 4, 8, 16, 64, 127) if q else tuple(range(1, 9)) + (16, 32, 64, 100, 126, 127)
    for w1 in wins:
        for w2 in wins:
            items.append(S.two_node(dict(maxApdu=50, win=w1, maxSegs=None), dict(maxApdu=50, win=w2, maxSegs=None), n=130 * 44, resp=('complex', 130 * 45)))
    # the requester was told something else than what the peer is (stale or partial information)
    for m in (50, 128, 480):
        for told in ({'maxApdu': 1476}, {'maxApdu': 50}, {'seg': 'noSegmentation'}, {'seg': 'segmentedBoth'}, {'seg': 'segmentedTransmit'}, {'maxSegs': 2}):
            for s2 in S.SEGS:
                for n in (10, m - 6, m - 3, 3 * m):
                    scn = S.two_node(dict(maxApdu=m), dict(maxApdu=m, seg=s2), n=n, resp=('complex', n))
                    scn['know'] = {(1, 2): told, (2, 1): True}
                    items.append(scn)
    # the server holds device information about the requester that differs from the request header
    for m in (50, 128, 480):
        # (not: a record claiming a LARGER max APDU than the request header -- a peer announces one capability; contradictory announcements
        #  are outside the property's quantifier 'all pairs of local and peer capabilities', and the library then deliberately trusts the I-Am)
        for told in ({'maxApdu': 50}, {'seg': 'noSegmentation'}, {'seg': 'segmentedTransmit'}):
            for s1 in S.SEGS:
                for n in (10, m - 5, m - 2, 3 * m):
                    scn = S.two_node(dict(maxApdu=m, seg=s1), dict(maxApdu=m), n=5, resp=('complex', n))
                    scn['know'] = {(1, 2): True, (2, 1): told}
                    items.append(scn)
    # forged first segments / acks with window values outside 1..127, and inside
    # (windows 0 and 128..255 would need a non-conforming peer: the property quantifies over peer windows 1..127)
    for w in (1, 2, 5, 127):
        for own in (1, 2, 8):
            data = S.payload(44, 77)
            # a segmented request from station 9 (header: segmented, more follows, accepts segmented responses; max-segs 0, max-resp 0)
            scn = dict(nodes={2: S.cfg(maxApdu=50, win=own)}, reqs=[], inject=[(0.0, 2, 9, bytes([0x0E, 0x00, 3, 0, w, 12]) + data)])
            items.append(scn)
            # a segmented complex ack from the genuine peer (which itself never answers) proposing window w
            scn = dict(nodes={1: S.cfg(maxApdu=50, win=own)}, know={(1, 2): True}, reqs=[dict(t=0.0, c=1, s=2, n=5, inv=None, resp=('never',))],
                       inject=[(0.5, 1, 2, bytes([0x3C, 1, 0, w, 0]) + data)])
            items.append(scn)
            # segment acks granting window w to a sender in the middle of a segmented request / response
            scn = S.two_node(dict(maxApdu=50, win=own, maxSegs=None), dict(maxApdu=50, win=own, maxSegs=None), n=20 * 44, resp=('simple',))
            scn['faults'] = {1: [('drop',)]}
            scn['inject'] = [(0.0015, 1, 2, bytes([0x41, 1, 0, w]))]
            items.append(scn)
    # random capability pairs with random faults
    for _ in range(800 if q else 12000):
        m1, m2 = rng.choice(S.MAXAPDU[:4]), rng.choice(S.MAXAPDU[:4])
        scn = S.two_node(dict(maxApdu=m1, seg=rng.choice(S.SEGS), maxSegs=rng.choice(msv), win=rng.randint(1, 8), retries=rng.randint(0, 3)),
                         dict(maxApdu=m2, seg=rng.choice(S.SEGS), maxSegs=rng.choice(msv), win=rng.randint(1, 8), retries=rng.randint(0, 3)),
                         n=rng.choice(around(m1, m2) + [3 * m2, 5 * m2]), resp=('complex', rng.choice(around(m1, m2) + [3 * m1, 5 * m1])), know=rng.random() < 0.7)
        if rng.random() < 0.5:
            scn['faults'] = S.random_faults(rng, 12, rng.randint(1, 4))
        items.append(scn)
    return [('c12', scn, None) for scn in items]


def run(tier, seed):
    col = S.Collector()
    items = scenarios(tier, seed)
    S.run_items(col, items, workers=1 if tier == 'quick' else 8)
    samples = [S.describe(items[i][1]) for i in (0, len(items) // 2, len(items) - 1)]
    return {'evaluations': col.evaluations, 'distinct_nontrivial': len(col.shapes),
            'rule': "two real stacks: max APDU pairs from %s x 4x4 segmentation settings x with/without device information x request and response lengths around every "
                    "boundary either maximum produces; max-segments {unspecified,2,..,64,>64} on both sides x 2..66 segments needed; windows up to 127 on both sides with 130 segments; "
                    "device information that differs from what the peer is / from the request header; injected first segments and segment acks with windows 1,2,5,127 (peer windows outside 1..127 and device information contradicting the request header are outside the property's quantifier); "
                    "random capability pairs with random faults; distinct = distinct run shapes" % (list(S.MAXAPDU if tier != 'quick' else (50, 128, 480, 1476)),),
            'samples': samples, 'failures': col.failures(), 'exhaustive': False}


if __name__ == '__main__':
    import sys, time, json
    t = time.time()
    r = run(sys.argv[1] if len(sys.argv) > 1 else 'quick', 1)
    print(json.dumps({k: v for k, v in r.items() if k != 'failures'}, indent=1)[:1200])
    for f in r['failures']:
        print('-', f['name'], '|', f['input'], '|', f['detail'][:2500])
    print('%.1f s' % (time.time() - t))
