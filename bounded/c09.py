"""
Bounded stage for C09 (labelled bounded, never counted as proved): tables
beyond the proof stage's structural bound, the function registry, history
dependence of the decoders, and arbitrary datagrams.

  * BDT / FDT tables of 0..40 entries with boundary addresses, masks (all 33
    prefix lengths incl. /0), ports, TTLs and remaining times: two-stage
    encode -> decode, repeated on the same classes (decoders must not share
    state between frames);
  * payload lengths 0..1497 for the NPDU-carrying functions;
  * every function code 0..255 through the registry: known codes decode, the
    frame length is checked first;
  * all octet strings of length 0..4 (grid at length 4 in quick) and mutated
    valid frames through BVLPDU.decode: DecodingError or a header that agrees
    with the reference parser.
"""
import itertools
import random

def run(tier, seed):
    from bacpypes.pdu import PDU, Address
    from bacpypes.errors import DecodingError
    import bacpypes.bvll as B
    from spec import bvll as sv
    rng = random.Random(seed)
    failures = []
    evaluations = 0
    distinct = 0
    samples = []

    def fail(name, inp, detail):
        if not any(f['name'] == name for f in failures):
            failures.append({'name': name, 'input': repr(inp)[:300], 'detail': detail})

    def wire(m):
        b = B.BVLPDU()
        m.encode(b)
        p = PDU()
        b.encode(p)
        return bytes(p.pduData)

    def unwire(octets):
        b = B.BVLPDU()
        b.decode(PDU(octets))
        m = B.bvl_pdu_types[b.bvlciFunction]()
        m.decode(b)
        return m

    ips = ['0.0.0.0', '255.255.255.255', '1.2.3.4', '10.0.0.255', '192.168.1.1', '127.0.0.1', '128.0.0.0']
    ports = [0, 1, 47808, 47823, 65535]
    masks = [((0xFFFFFFFF << (32 - k)) & 0xFFFFFFFF) for k in range(33)]

    def rand_addr(mask=True):
        a = Address((rng.choice(ips + ['%d.%d.%d.%d' % tuple(rng.randint(0, 255) for _ in range(4))]), rng.choice(ports + [rng.randint(0, 65535)])))
        if mask:
            a.addrMask = rng.choice(masks)
        return a

    def check_frame(octets, function, body, what):
        if octets != sv.frame(function, body):
            fail(what + '-layout', octets[:40], "octets differ from the Annex J layout")
        if octets[2] * 256 + octets[3] != len(octets):
            fail(what + '-length', octets[:40], "length field %d, frame has %d octets" % (octets[2] * 256 + octets[3], len(octets)))

    # -- tables ----------------------------------------------------------------
    for n in list(range(0, 41)):
        for rep in range(2 if tier == 'quick' else 6):
            table = [rand_addr() for _ in range(n)]
            if n and rep == 0:
                table[0].addrMask = 0          # the /0 boundary
            for cls, fn in ((B.WriteBroadcastDistributionTable, 1), (B.ReadBroadcastDistributionTableAck, 3)):
                evaluations += 1
                try:
                    octets = wire(cls(list(table)))
                    check_frame(octets, fn, sv.bdt([(a.addrAddr, a.addrMask) for a in table]), 'bdt')
                    m = unwire(octets)
                    if len(m.bvlciBDT) != n or any(a.addrAddr != b.addrAddr or a.addrMask != b.addrMask for a, b in zip(m.bvlciBDT, table)):
                        fail('bdt-roundtrip', (cls.__name__, n), "decoded table differs (got %d entries)" % len(m.bvlciBDT))
                    distinct += 1
                except Exception as e:
                    fail('bdt-exception', (cls.__name__, n), "raised %r" % (e,))
            fdt = []
            for _ in range(n):
                e = B.FDTEntry()
                e.fdAddress = rand_addr(False)
                e.fdTTL = rng.choice([0, 1, 30, 65535, rng.randint(0, 65535)])
                e.fdRemain = rng.choice([0, 1, 65535, rng.randint(0, 65535)])
                fdt.append(e)
            evaluations += 1
            try:
                octets = wire(B.ReadForeignDeviceTableAck(list(fdt)))
                check_frame(octets, 7, sv.fdt([(e.fdAddress.addrAddr, e.fdTTL, e.fdRemain) for e in fdt]), 'fdt')
                m = unwire(octets)
                if len(m.bvlciFDT) != n or any(a.fdAddress.addrAddr != b.fdAddress.addrAddr or a.fdTTL != b.fdTTL or a.fdRemain != b.fdRemain for a, b in zip(m.bvlciFDT, fdt)):
                    fail('fdt-roundtrip', n, "decoded table differs (got %d entries)" % len(m.bvlciFDT))
                distinct += 1
            except Exception as e:
                fail('fdt-exception', n, "raised %r" % (e,))
    samples.append({'tables': 'BDT/FDT with 0..40 entries, masks of all 33 prefix lengths, boundary ports and times; decoded repeatedly in one process'})

    # -- payload lengths ---------------------------------------------------------
    lens = list(range(0, 1498)) if tier == 'thorough' else [0, 1, 2, 5, 250, 251, 252, 255, 256, 1000, 1493, 1494, 1495, 1496, 1497]
    for ln in lens:
        data = bytes(rng.randint(0, 255) for _ in range(ln))
        for cls, fn in ((B.DistributeBroadcastToNetwork, 9), (B.OriginalUnicastNPDU, 10), (B.OriginalBroadcastNPDU, 11)):
            evaluations += 1
            try:
                octets = wire(cls(data))
                check_frame(octets, fn, data, 'npdu-carrier')
                if bytes(unwire(octets).pduData) != data:
                    fail('npdu-carrier-roundtrip', (cls.__name__, ln), "payload differs")
                distinct += 1
            except Exception as e:
                fail('npdu-carrier-exception', (cls.__name__, ln), "raised %r" % (e,))
        evaluations += 1
        a = rand_addr(False)
        try:
            octets = wire(B.ForwardedNPDU(a, data))
            check_frame(octets, 4, a.addrAddr + data, 'forwarded')
            m = unwire(octets)
            if bytes(m.pduData) != data or m.bvlciAddress.addrAddr != a.addrAddr:
                fail('forwarded-roundtrip', ln, "address or payload differs")
            distinct += 1
        except Exception as e:
            fail('forwarded-exception', ln, "raised %r" % (e,))
    for v in (0, 1, 0x30, 0xFFFF):
        for cls, fn, attr, body in ((B.Result, 0, 'bvlciResultCode', sv.result), (B.RegisterForeignDevice, 5, 'bvlciTimeToLive', sv.register_foreign_device)):
            evaluations += 1
            octets = wire(cls(v))
            check_frame(octets, fn, body(v), cls.__name__)
            if getattr(unwire(octets), attr) != v:
                fail('short-roundtrip', (cls.__name__, v), "value differs")
            distinct += 1
    evaluations += 1
    a = rand_addr(False)
    octets = wire(B.DeleteForeignDeviceTableEntry(a))
    check_frame(octets, 8, a.addrAddr, 'delete')
    if unwire(octets).bvlciAddress.addrAddr != a.addrAddr:
        fail('delete-roundtrip', a.addrAddr, "address differs")

    # -- registry -----------------------------------------------------------------
    if sorted(B.bvl_pdu_types) != list(range(12)):
        fail('registry', sorted(B.bvl_pdu_types), "the twelve functions 0..11 are not all registered exactly once")
    for fn, cls in B.bvl_pdu_types.items():
        evaluations += 1
        if cls.messageType != fn:
            fail('registry', fn, "class %s registered under %d" % (cls.__name__, fn))

    # -- arbitrary datagrams --------------------------------------------------------
    def check_octets(octets):
        nonlocal distinct
        want = sv.parse_header(octets)
        b = B.BVLPDU()
        try:
            b.decode(PDU(octets))
        except DecodingError:
            if want is not None:
                fail('decode-refuses-valid', octets, "DecodingError for a well-framed datagram")
            return
        except Exception as e:
            fail('decode-other-exception', octets, "raised %r" % (e,))
            return
        if want is None:
            fail('decode-accepts-mismatch', octets, "accepted a datagram whose type or length field disagrees")
            return
        distinct += 1
        if b.bvlciFunction != want[0] or bytes(b.pduData) != want[1]:
            fail('decode-misreads', octets, "function/body differ from the reference")

    for n in range(0, 4):
        for t in itertools.product(range(256), repeat=n) if n < 3 else itertools.product((0, 0x81, 0x82), range(256), (0, 1, 255)):
            evaluations += 1
            check_octets(bytes(t))
    grid = [0, 1, 3, 4, 5, 6, 0x80, 0x81, 0x82, 0xff]
    for t in itertools.product(grid, range(0, 16), grid, grid):
        evaluations += 1
        check_octets(bytes(t))
    valid = [wire(B.Result(0)), wire(B.OriginalUnicastNPDU(b'\x01\x02\x03')), wire(B.ReadForeignDeviceTable()), wire(B.ForwardedNPDU(rand_addr(False), b'abc'))]
    for octets in valid:
        for k in range(len(octets) + 1):
            evaluations += 1
            check_octets(octets[:k])
        for _ in range(80 if tier == 'quick' else 2000):
            b = bytearray(octets)
            i = rng.randrange(len(b))
            b[i] = rng.choice([0, 0x81, 0xff, b[i] ^ (1 << rng.randrange(8)), rng.randint(0, 255)])
            if rng.random() < 0.3:
                b += bytes([rng.randint(0, 255)])
            evaluations += 1
            check_octets(bytes(b))
    samples.append({'datagrams': 'exhaustive to length 2, grids at lengths 3 and 4, prefixes and substitutions/insertions of valid frames'})
    return {'evaluations': evaluations, 'distinct_nontrivial': distinct,
            'rule': "tables 0..40 entries; payload lengths %s; registry; datagrams exhaustive to length 2 plus grids and mutations; distinct = frames "
                    "that round-tripped / datagrams accepted and compared with the reference" % ('0..1497' if tier == 'thorough' else 'boundary set up to 1497'),
            'samples': samples, 'failures': failures, 'exhaustive': False}
