"""
Bounded stage for C10 (labelled bounded, never counted as proved): robustness
of the application service access point against damaged service parameters.

For every registered confirmed request class (27) and unconfirmed request
class (11): a few metadata-generated valid instances (spec.gen_values; quick
6, thorough 10 per class: from a pool of candidates whose encoding fits the
octet bound, the shortest and the longest ones) are encoded as full APDUs;
the octets AFTER the fixed APCI header (4 octets confirmed, 2 unconfirmed)
are damaged by

  * every single-octet substitution (quick: 40 values per position: 0x00,
    0xFF, the neighbours, every other low nibble (class bit, length, opening,
    closing, extended length) and every other high nibble (tag number) of the
    octet, 0..5, random fill; thorough: all 255 other values),
  * every truncation (header kept),
  * insertions of one octet from a small set at every position (quick: a
    sample of positions),

and the result goes the way a frame comes up the stack: PDU -> APDU.decode ->
apdu_types[type]().decode -> ApplicationServiceAccessPoint.indication on a
real access point whose `response` and `sap_request` only record.

Expected, confirmed request: no exception leaves indication, and exactly one
of { one recorded response, a RejectPDU or AbortPDU carrying the request's
invoke ID and addressed to its source; one recorded sap_request }.
Expected, unconfirmed request: no exception leaves indication, no response,
at most one sap_request.
After each damaged position the undamaged octets are presented again to the
same access point and must be forwarded as exactly one request that re-encodes
to the same octets (garbage leaves no state behind).

Each distinct (service class, exception type | silent | multiple | ...) is
reported once, with the damaged octets in hex as input and the raising source
location in the detail.
"""
import random
import traceback

N_INSTANCES = {'quick': 6, 'thorough': 10}
MAX_OCTETS = {'quick': 48, 'thorough': 64}
INSERT_OCTETS = (0x00, 0xFF, 0x0E, 0x0F, 0x09, 0x3E, 0x3F, 0x75)


def _where(err):
    tb = traceback.extract_tb(err.__traceback__)
    if not tb:
        return '?'
    # innermost frame inside the library
    for fr in reversed(tb):
        if '/bacpypes/' in fr.filename:
            return '%s:%d in %s: %s' % (fr.filename.split('/')[-1], fr.lineno, fr.name, (fr.line or '').strip())
    fr = tb[-1]
    return '%s:%d in %s' % (fr.filename.split('/')[-1], fr.lineno, fr.name)


def _ename(err):
    t = type(err)
    return t.__name__ if t.__module__ in ('builtins', 'bacpypes.errors') else '%s.%s' % (t.__module__, t.__name__)


N_SUBSTITUTES = 40


def _substitutes(o, rng, full):
    """values to put in place of octet o.  quick: a structure-aware sample of
    N_SUBSTITUTES values: the extremes and neighbours, every other low nibble
    with the same high nibble (class bit and length/value/type of a tag
    octet, opening / closing / extended length), every other high nibble with
    the same low nibble (tag number, extended tag number), the small values
    0..5 (lengths, character set codes, booleans), then random fill"""
    if full:
        return [v for v in range(256) if v != o]
    cand = [0x00, 0xFF, (o + 1) & 255, (o - 1) & 255, 0xFE, 0x7F, 0x80]
    cand += [(o & 0xF0) | lo for lo in range(16)]
    cand += [(hi << 4) | (o & 0x0F) for hi in range(16)]
    cand += [1, 2, 3, 4, 5]
    out = []
    for v in cand:
        if v != o and v not in out:
            out.append(v)
    while len(out) < N_SUBSTITUTES:
        v = rng.randint(0, 255)
        if v != o and v not in out:
            out.append(v)
    return out[:N_SUBSTITUTES]


def _make_probe():
    from bacpypes.appservice import ApplicationServiceAccessPoint

    class Probe(ApplicationServiceAccessPoint):
        def __init__(self):
            ApplicationServiceAccessPoint.__init__(self)
            self.responses = []
            self.requests = []

        def response(self, apdu):
            self.responses.append(apdu)

        def sap_request(self, apdu):
            self.requests.append(apdu)

        def clear(self):
            del self.responses[:]
            del self.requests[:]

    return Probe()


def _instances(cls, choice, confirmed, rng, k, max_octets):
    """up to k valid instances with distinct encodings within the octet bound
    -> [(octets, desc)]: from a pool of generated candidates the shortest one
    and the k-1 longest ones (more parameters present, more nested structure,
    so more decoder paths per class and less dependence on the seed)"""
    from spec import gen_values as G
    pool = {}
    reasons = {}
    plans = [{'optionals': 'all'}, {'optionals': 'none'}]
    for tries in range(8 * k):
        plan = plans[tries] if tries < len(plans) else ({'optionals': 'all'} if tries % 3 == 0 else {})
        depth = 3 if tries % 2 == 0 else 2
        try:
            v = G.gen(cls, rng, 0, depth, 2, plan=plan, long_strings=False)
            octets = G.encode_service(v, invoke_id=rng.randint(0, 255), service_choice=choice)
        except Exception as err:
            key = '%s: %s' % (type(err).__name__, str(err)[:100])
            reasons[key] = reasons.get(key, 0) + 1
            continue
        if len(octets) > max_octets:
            reasons['encoding longer than %d octets' % (max_octets,)] = reasons.get('encoding longer than %d octets' % (max_octets,), 0) + 1
            continue
        body = octets[:2] + octets[3:] if confirmed else octets
        if body not in pool:
            pool[body] = (octets, G.describe(cls, v, 200))
    cands = sorted(pool.values(), key=lambda t: (len(t[0]), t[0]))
    if len(cands) <= k:
        return cands, reasons
    return [cands[0]] + cands[-(k - 1):], reasons


def _check_class(args):
    kind, choice, cls, tier, seed = args
    from bacpypes.pdu import PDU, Address
    import bacpypes.apdu as A
    from spec import gen_values as G

    confirmed = kind == 'confirmed_request_types'
    header = 4 if confirmed else 2
    name = cls.__name__
    rng = random.Random('%s:c10:%s:%s' % (seed, kind, name))
    full = tier == 'thorough'
    res = {'name': name, 'kind': kind, 'evaluations': 0, 'failures': [], 'skipped': [],
           'outcomes': {}, 'sample': None, 'instances': 0}
    source = Address(7)
    probe = _make_probe()

    def fail(what, octets, detail):
        fname = '%s-%s' % (what, name)
        if not any(f['name'] == fname for f in res['failures']):
            res['failures'].append({'name': fname, 'input': bytes(octets).hex()[:500], 'detail': detail[:600]})

    def tally(key):
        res['outcomes'][key] = res['outcomes'].get(key, 0) + 1

    def present(octets, invoke_id):
        """one frame up the stack; returns outcome key"""
        res['evaluations'] += 1
        probe.clear()
        try:
            pdu = PDU(bytes(octets), source=source)
            apdu = A.APDU()
            apdu.decode(pdu)
            atype = A.apdu_types.get(apdu.apduType)
            xpdu = atype()
            xpdu.decode(apdu)
        except Exception as err:
            fail('header-decode-%s' % (_ename(err),), octets,
                 "APDU header decode raised %r at %s although the fixed header is intact" % (err, _where(err)))
            return 'header-decode'
        try:
            probe.indication(xpdu)
        except Exception as err:
            fail('escape-%s' % (_ename(err),), octets,
                 "%s escaped ApplicationServiceAccessPoint.indication (%s request, no reply sent): %r raised at %s"
                 % (_ename(err), 'confirmed' if confirmed else 'unconfirmed', err, _where(err)))
            return 'escape-' + _ename(err)
        nresp, nreq = len(probe.responses), len(probe.requests)
        if confirmed:
            if nresp == 0 and nreq == 0:
                fail('silent', octets, "confirmed request got neither a reply nor was it forwarded")
                return 'silent'
            if nresp + nreq != 1:
                fail('multiple', octets, "%d responses and %d forwarded requests for one confirmed request" % (nresp, nreq))
                return 'multiple'
            if nreq == 1:
                fwd = probe.requests[0]
                if not isinstance(fwd, cls) or fwd.apduInvokeID != invoke_id:
                    fail('forward-mismatch', octets, "forwarded %r with invoke ID %r, expected %s / %r"
                         % (type(fwd).__name__, fwd.apduInvokeID, name, invoke_id))
                    return 'forward-mismatch'
                return 'forwarded'
            rsp = probe.responses[0]
            if not isinstance(rsp, (A.RejectPDU, A.AbortPDU)):
                fail('reply-type', octets, "decode failure answered with %s" % (type(rsp).__name__,))
                return 'reply-type'
            if rsp.apduInvokeID != invoke_id:
                fail('reply-invoke-id', octets, "reply carries invoke ID %r, request had %r" % (rsp.apduInvokeID, invoke_id))
                return 'reply-invoke-id'
            if rsp.pduDestination != source:
                fail('reply-destination', octets, "reply addressed to %r, request came from %r" % (rsp.pduDestination, source))
                return 'reply-destination'
            if not isinstance(rsp.apduAbortRejectReason, int) or not (0 <= rsp.apduAbortRejectReason <= 255):
                fail('reply-reason', octets, "reply reason %r is not an octet" % (rsp.apduAbortRejectReason,))
                return 'reply-reason'
            return 'reject' if isinstance(rsp, A.RejectPDU) else 'abort'
        else:
            if nresp != 0:
                fail('unconfirmed-reply', octets, "%d responses to an unconfirmed request" % (nresp,))
                return 'unconfirmed-reply'
            if nreq > 1:
                fail('multiple', octets, "%d forwarded requests for one unconfirmed request" % (nreq,))
                return 'multiple'
            return 'forwarded' if nreq else 'dropped'

    insts, reasons = _instances(cls, choice, confirmed, rng, N_INSTANCES.get(tier, 4), MAX_OCTETS.get(tier, 40))
    if not insts:
        reason = max(reasons.items(), key=lambda kv: kv[1])[0] if reasons else 'no encoding within the octet bound'
        res['skipped'].append('%s: no valid instance: %s' % (name, reason))
        return res
    res['instances'] = len(insts)

    for octets, desc in insts:
        invoke_id = octets[2] if confirmed else None
        base = present(octets, invoke_id)
        tally('valid:' + base)
        if res['sample'] is None:
            res['sample'] = {'class': name, 'value': desc[:160], 'octets': octets.hex(), 'undamaged': base}

        def again():
            # the undamaged frame must behave as before and, when forwarded, re-encode identically
            out = present(octets, invoke_id)
            if out != base:
                fail('state', octets, "undamaged frame gave %s before and %s after garbage" % (base, out))
            elif out == 'forwarded':
                try:
                    fwd = probe.requests[0]
                    if G.encode_service(fwd) != octets:
                        fail('state', octets, "undamaged frame forwarded after garbage re-encodes differently")
                except Exception as err:
                    fail('state', octets, "re-encoding the forwarded request raised %r" % (err,))

        n = len(octets)
        # substitutions
        for p in range(header, n):
            for v in _substitutes(octets[p], rng, full):
                m = bytearray(octets)
                m[p] = v
                tally(present(m, invoke_id))
            again()
        # truncations
        for cut in range(header, n):
            tally(present(octets[:cut], invoke_id))
        again()
        # insertions
        positions = range(header, n + 1)
        if not full and n + 1 - header > 6:
            positions = sorted(set([header, n] + rng.sample(range(header, n + 1), 4)))
        for p in positions:
            for v in INSERT_OCTETS:
                tally(present(octets[:p] + bytes([v]) + octets[p:], invoke_id))
        again()
    return res


def run(tier, seed):
    from spec import gen_values as G
    entries = G.all_service_entries()
    jobs = []
    for kind in ('confirmed_request_types', 'unconfirmed_request_types'):
        for choice, cls in entries[kind]:
            jobs.append((kind, choice, cls, tier, seed))

    if tier == 'thorough':
        import multiprocessing
        ctx = multiprocessing.get_context('fork')
        with ctx.Pool(8) as pool:
            results = pool.map(_check_class, jobs, chunksize=1)
    else:
        results = [_check_class(j) for j in jobs]

    failures = []
    skipped = []
    samples = []
    evaluations = 0
    covered = set()
    outcomes = {}
    for r in results:
        evaluations += r['evaluations']
        if r['evaluations']:
            covered.add(r['name'])
        for f in r['failures']:
            if not any(g['name'] == f['name'] for g in failures):
                failures.append(f)
        skipped.extend(r['skipped'])
        for k, v in r['outcomes'].items():
            outcomes[k] = outcomes.get(k, 0) + v
        if r['sample'] is not None and len(samples) < 4 and r['name'] in (
                'ReadPropertyRequest', 'WritePropertyRequest', 'WhoIsRequest', 'SubscribeCOVRequest'):
            samples.append(r['sample'])
    samples.append({'outcomes': dict(sorted(outcomes.items()))})
    samples.append({'instances_per_class': {r['name']: r['instances'] for r in results}})

    rule = ("%d confirmed and %d unconfirmed request classes, up to %d generated valid instances each (encoding <= %d "
            "octets); octets after the fixed APCI header damaged by single-octet substitution (%s), every truncation, "
            "one-octet insertions from %d values (%s positions); fed through APDU.decode -> apdu_types[type]().decode -> "
            "ApplicationServiceAccessPoint.indication with recording response / sap_request; confirmed: exactly one of "
            "{Reject/Abort with the request's invoke ID to its source, one forwarded request}, no escaping exception; "
            "unconfirmed: no escaping exception, no reply; undamaged frame re-presented after each damaged position; "
            "random.Random(seed=%r)"
            % (len(entries['confirmed_request_types']), len(entries['unconfirmed_request_types']),
               N_INSTANCES.get(tier, 4), MAX_OCTETS.get(tier, 40),
               'all 255 values per position' if tier == 'thorough' else '%d values per position' % (N_SUBSTITUTES,),
               len(INSERT_OCTETS), 'all' if tier == 'thorough' else 'first, last and 4 sampled', seed))
    return {
        'evaluations': evaluations,
        'distinct_nontrivial': len(covered),
        'rule': rule,
        'samples': samples,
        'failures': failures,
        'exhaustive': False,
        'skipped': skipped,
    }
