"""
Bounded stage for C14 (labelled bounded, never counted as proved): whole
histories through the public API with a virtual clock, which the per-call
contracts do not compose, and real float arithmetic for recurring tasks.

  * all operation sequences up to length L (quick 5, thorough 6) over
    {install at t, install after delta, suspend, resume/re-install, advance
    time} on up to 4 tasks with colliding times, plus random sequences of
    length 200: firing order = non-decreasing (due time, installation order),
    never early, once per installation, not after suspension;
  * recurring tasks over a grid of intervals/offsets incl. non-representable
    binary fractions, with exact virtual time: one firing per slot;
  * deferred batches of up to 6 functions, every subset raising, incl.
    functions that defer further work, under core.run_once.
"""
import itertools
import random
import logging

def run(tier, seed):
    import bacpypes.task as T
    import bacpypes.core as core
    rng = random.Random(seed)
    failures = []
    evaluations = 0
    distinct = 0
    samples = []

    def fail(name, inp, detail):
        if not any(f['name'] == name for f in failures):
            failures.append({'name': name, 'input': repr(inp)[:400], 'detail': detail})

    class Clock(object):
        now = 0.0
    orig_time = T._time
    T._time = lambda: Clock.now
    orig_mgr = T._task_manager
    logging.disable(logging.CRITICAL)
    try:
        def fresh_manager():
            m = object.__new__(T.TaskManager)
            m.tasks = []
            m.trigger = None
            m.counter = itertools.count()
            T._task_manager = m
            return m

        class Probe(T.OneShotTask):
            def __init__(self, ident, log):
                T.OneShotTask.__init__(self)
                self.ident = ident
                self.log = log
            def process_task(self):
                self.log.append((self.ident, Clock.now))

        def drain(m, log_fire):
            while True:
                task, delta = m.get_next_task()
                if task is None:
                    return
                log_fire(task)
                m.process_task(task)

        ops = []
        times = [0.0, 1.0, 1.0, 2.0]
        for t in range(4):
            for w in (0.0, 1.0, 2.0):
                ops.append(('install_at', t, w))
            ops.append(('install_after', t, 1.0))
            ops.append(('suspend', t, None))
            ops.append(('resume', t, None))
        ops.append(('advance', None, 1.0))
        ops.append(('advance', None, 0.0))

        def run_history(history, ntasks=4):
            nonlocal evaluations, distinct
            evaluations += 1
            Clock.now = 0.0
            m = fresh_manager()
            log = []
            tasks = [Probe(i, log) for i in range(ntasks)]
            expect = {}         # ident -> (due, order) while pending
            order = 0
            fired = []
            def on_fire(task):
                fired.append(task.ident)
                if task.ident not in expect:
                    fail('fires-without-installation', history, "task %d fired while not installed (suspended or already fired)" % task.ident)
                    return
                due, seq = expect.pop(task.ident)
                if due > Clock.now:
                    fail('fires-early', history, "task %d due %r fired at %r" % (task.ident, due, Clock.now))
                # everything still pending that is due must not be ordered before it
                for other, (d2, s2) in expect.items():
                    if d2 <= Clock.now and (d2, s2) < (due, seq):
                        fail('fires-out-of-order', history, "task %d (due %r, order %d) fired before task %d (due %r, order %d)" % (task.ident, due, seq, other, d2, s2))
            for (op, t, arg) in history:
                if op == 'install_at':
                    tasks[t].install_task(when=arg)
                    expect[t] = (arg, order); order += 1
                elif op == 'install_after':
                    tasks[t].install_task(delta=arg)
                    expect[t] = (Clock.now + arg, order); order += 1
                elif op == 'suspend':
                    tasks[t].suspend_task()
                    expect.pop(t, None)
                elif op == 'resume':
                    if tasks[t].taskTime is not None:
                        tasks[t].resume_task()
                        expect[t] = (tasks[t].taskTime, order); order += 1
                else:
                    Clock.now += arg
                    drain(m, on_fire)
                    for ident, (due, seq) in list(expect.items()):
                        if due <= Clock.now:
                            fail('does-not-fire', history, "task %d due %r still pending at %r" % (ident, due, Clock.now))
                if len(m.tasks) != len(expect):
                    fail('duplicate-or-lost-entry', history, "%d heap entries for %d pending tasks" % (len(m.tasks), len(expect)))
            if fired:
                distinct += 1

        L = 5 if tier == 'quick' else 6
        # exhaustive up to length 3 (quick) / 4 (thorough), then sampled prefixes up to L
        ex = 3 if tier == 'quick' else 4
        for ln in range(1, ex + 1):
            for h in itertools.product(ops, repeat=ln):
                run_history(list(h) + [('advance', None, 3.0)])
        for _ in range(20000 if tier == 'quick' else 200000):
            run_history([rng.choice(ops) for _ in range(rng.randint(ex + 1, L + 1))] + [('advance', None, 3.0)])
        for _ in range(60 if tier == 'quick' else 600):
            run_history([rng.choice(ops) for _ in range(200)] + [('advance', None, 5.0)])
        # more tasks than the exhaustive scope: heaps deep enough for re-heapification to matter
        ops8 = []
        for t in range(8):
            for w in (0.0, 1.0, 2.0, 3.0, 4.0, 5.0, 6.0, 7.0):
                ops8.append(('install_at', t, w))
            ops8.append(('suspend', t, None))
            ops8.append(('resume', t, None))
        for _ in range(4000 if tier == 'quick' else 60000):
            h = [('install_at', t, float(w)) for t, w in enumerate(rng.sample(range(1, 9), 8))]
            h += [rng.choice(ops8) for _ in range(rng.randint(1, 6))]
            run_history(h + [('advance', None, 10.0)], ntasks=8)
        samples.append({'histories': 'exhaustive to length %d over %d operations, random to length %d, random of length 200' % (ex, len(ops), L + 1)})

        # -- callbacks that install their own task again (a timer that re-arms itself), then move / suspend it ------
        for base in (T.OneShotTask, T.OneShotDeleteTask):
            for later in ('move', 'suspend', 'leave', 'move-twice'):
                for gap in (5.0, 0.0):
                    evaluations += 1
                    Clock.now = 0.0
                    m = fresh_manager()
                    hits = []
                    class Rearm(base):
                        armed = 0
                        def process_task(self):
                            hits.append(Clock.now)
                            if self.armed == 0:
                                self.armed = 1
                                self.install_task(when=Clock.now + 5.0)
                    r = Rearm()
                    r.install_task(when=1.0)
                    Clock.now = 1.0 + gap * 0          # fire the first installation at its due time
                    drain(m, lambda t: None)
                    Clock.now = 3.0
                    if later == 'move':
                        r.install_task(when=10.0); want = [1.0, 10.0]
                    elif later == 'move-twice':
                        r.install_task(when=10.0); r.install_task(when=12.0); want = [1.0, 12.0]
                    elif later == 'suspend':
                        r.suspend_task(); want = [1.0]
                    else:
                        want = [1.0, 6.0]
                    for now in (6.0, 10.0, 12.0, 20.0):
                        Clock.now = now
                        drain(m, lambda t: None)
                    if hits != want or m.tasks:
                        fail('self-rearming-task', (base.__name__, later), "fired at %r, expected %r (left queued: %d)" % (hits, want, len(m.tasks)))
                    else:
                        distinct += 1
        samples.append({'self-rearming': 'OneShotTask / OneShotDeleteTask whose callback installs the task again, then move / move twice / suspend / leave'})

        # -- recurring tasks with exact virtual time and real floats --------------------
        for interval in (1000, 1500, 100, 250, 300, 333, 700, 1):
            for offset in (None, 100, 250, 333):
                if offset is not None and offset >= interval:
                    continue
                for start in (0.0, 0.25, 0.1, 1.3, 1000000.7):
                    evaluations += 1
                    Clock.now = start
                    m = fresh_manager()
                    hits = []
                    class R(T.RecurringTask):
                        def process_task(self):
                            hits.append(Clock.now)
                    r = R(interval, offset)
                    r.install_task()
                    for _ in range(12):
                        if not m.tasks:
                            break
                        Clock.now = m.tasks[0][0]          # jump exactly to the next due time
                        drain(m, lambda t: None)
                    iv = interval / 1000.0
                    off = (offset or 0) / 1000.0
                    ok = len(hits) == 12 and hits[0] > start
                    for a, b in zip(hits, hits[1:]):
                        if not (abs((b - a) - iv) < 1e-5):
                            ok = False
                    for h in hits:
                        k = (h - off) / iv
                        if abs(k - round(k)) > 1e-4:
                            ok = False
                    if not ok:
                        fail('recurring-slots', (interval, offset, start), "firings %r are not one per successive multiple of the interval" % (hits[:5],))
                    else:
                        distinct += 1
        samples.append({'recurring': 'intervals {1000,1500,100,250,300,333,700,1} ms x offsets {none,100,250,333} x 5 start times, 12 firings each, exact virtual time'})

        # -- deferred batches under run_once --------------------------------------------
        T._task_manager = orig_mgr
        saved_tm_cls_instance = T.TaskManager._singleton_instance
        for n in range(0, 7 if tier == 'thorough' else 6):
            for raising in itertools.product((False, True), repeat=n):
                for nested_at in ([None] + list(range(n)) if n <= 4 else [None, 0]):
                    evaluations += 1
                    calls = []
                    def mk(i, bad, nest):
                        def f():
                            calls.append(i)
                            if nest:
                                core.deferred(mk(100 + i, False, False))
                            if bad:
                                raise ValueError("deferred %d" % i)
                        return f
                    core.deferredFns[:] = []
                    for i in range(n):
                        core.deferred(mk(i, raising[i], nested_at == i))
                    Clock.now = 0.0
                    core.run_once()
                    want = list(range(n)) + ([100 + nested_at] if nested_at is not None else [])
                    if calls != want or core.deferredFns:
                        fail('deferred-batch', (n, raising, nested_at), "called %r, expected %r (left queued: %d)" % (calls, want, len(core.deferredFns)))
                    else:
                        distinct += 1
        samples.append({'deferred': 'batches of 0..5 functions, every subset raising, optional nested deferral, under core.run_once'})
    finally:
        T._time = orig_time
        T._task_manager = orig_mgr
        logging.disable(logging.NOTSET)
    return {'evaluations': evaluations, 'distinct_nontrivial': distinct,
            'rule': "operation histories on 4 tasks with colliding times under a virtual clock (exhaustive short, random long), recurring grids with real floats, "
                    "deferred batches with every raising subset; distinct = histories in which something fired / grids and batches that behaved", 
            'samples': samples, 'failures': failures, 'exhaustive': False}
