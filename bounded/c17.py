"""
Bounded stage for C17 (labelled bounded, never counted as proved): the 20
commandable classes (the proof stage covers the mix-in on three representative
datatypes) and whole command histories.

For each *CmdObject class: all command sequences up to length L (quick 3,
thorough 4; random to length 100) over 4 priorities {1, 8, 16, none} x 3 values
x {write, relinquish}, through Object.WriteProperty on presentValue and on
priorityArray[index]; after every command a model of the sixteen slots is
compared with ReadProperty of presentValue and of every priorityArray element.
Refused commands (priority 0, 17, -1) must change nothing.  Binary classes:
minimum on/off times 0..3 s under a virtual clock.
"""
import itertools
import random
import logging

def run(tier, seed):
    import bacpypes.local.object as LO
    import bacpypes.task as T
    from bacpypes.object import register_object_type
    from bacpypes.errors import ExecutionError
    from bacpypes.primitivedata import Date, Time, Real, Unsigned, Integer, Double, BitString, CharacterString, OctetString
    from bacpypes.basetypes import DateTime, PriorityValue
    rng = random.Random(seed)
    failures = []
    evaluations = 0
    distinct = 0
    samples = []

    def fail(name, inp, detail):
        if not any(f['name'] == name for f in failures):
            failures.append({'name': name, 'input': repr(inp)[:400], 'detail': detail})

    values = {
        'AccessDoorCmdObject': ['lock', 'unlock', 'pulseUnlock'],
        'AnalogOutputCmdObject': [1.5, -2.0, 0.0], 'AnalogValueCmdObject': [1.5, -2.0, 0.0],
        'BinaryOutputCmdObject': ['active', 'inactive', 'active'], 'BinaryValueCmdObject': ['active', 'inactive', 'active'],
        'BitStringValueCmdObject': [[1, 0], [0, 1, 1], []],
        'CharacterStringValueCmdObject': ['a', 'bb', ''],
        'DateValueCmdObject': [(120, 1, 2, 3), (99, 12, 31, 255), (255, 255, 255, 255)],
        'DatePatternValueCmdObject': [(120, 1, 2, 3), (99, 12, 31, 255), (255, 255, 255, 255)],
        'IntegerValueCmdObject': [1, -5, 0], 'LargeAnalogValueCmdObject': [1.5, -2.0, 0.0],
        'LightingOutputCmdObject': [1.5, 100.0, 0.0],
        'MultiStateOutputCmdObject': [1, 2, 3], 'MultiStateValueCmdObject': [1, 2, 3],
        'OctetStringValueCmdObject': [b'\x01', b'\x02\x03', b''],
        'PositiveIntegerValueCmdObject': [1, 2, 3],
        'TimeValueCmdObject': [(1, 2, 3, 4), (23, 59, 59, 99), (255, 255, 255, 255)],
        'TimePatternValueCmdObject': [(1, 2, 3, 4), (23, 59, 59, 99), (255, 255, 255, 255)],
    }
    classes = [getattr(LO, n) for n in sorted(dir(LO)) if n.endswith('CmdObject') and n != 'ChannelCmdObject' and isinstance(getattr(LO, n), type)]
    covered = []

    class Clock(object):
        now = 0.0
    orig_time, orig_mgr = T._time, T._task_manager
    T._time = lambda: Clock.now
    logging.disable(logging.CRITICAL)
    try:
        import itertools as _it
        m = object.__new__(T.TaskManager)
        m.tasks, m.trigger, m.counter = [], None, _it.count()
        T._task_manager = m

        def make(cls, **extra):
            kw = dict(objectIdentifier=(cls.objectType, 1), objectName='o')
            kw.update(extra)
            return cls(**kw)

        def read_slots(obj):
            pa = obj.ReadProperty('priorityArray')
            out = []
            for i in range(1, 17):
                pv = obj.ReadProperty('priorityArray', i)
                if pv.null is not None:
                    out.append(None)
                else:
                    out.append(getattr(pv, type(obj)._pv_choice))
            return out

        for cls in classes:
            vals = values.get(cls.__name__)
            if vals is None:
                continue       # DateTime-valued classes: constructed values, skipped here (listed)
            try:
                register_object_type(cls, vendor_id=998)
                extra = {'presentValue': vals[1]} if 'Binary' in cls.__name__ else {}
                obj0 = make(cls, **extra)
            except Exception as e:
                fail('construct', cls.__name__, "cannot construct: %r" % (e,))
                continue
            covered.append(cls.__name__)
            is_binary = 'Binary' in cls.__name__
            prios = [1, 8, 16, None]
            cmds = [(p, v) for p in prios for v in vals + [()]]
            L = 3 if tier == 'quick' else 4
            seqs = []
            for ln in range(1, L + 1):
                allseq = list(itertools.product(cmds, repeat=ln))
                if len(allseq) > (3000 if tier == 'quick' else 40000):
                    allseq = rng.sample(allseq, 3000 if tier == 'quick' else 40000)
                seqs.extend(allseq)
            for _ in range(20 if tier == 'quick' else 200):
                seqs.append(tuple((rng.choice(list(range(1, 17)) + [None]), rng.choice(vals + [()])) for _ in range(100)))
            for seq in seqs:
                evaluations += 1
                obj = make(cls, **extra)
                default = obj.ReadProperty('relinquishDefault')
                model = [None] * 16
                via_array = rng.random() < 0.3
                for step, (p, v) in enumerate(seq):
                    slot = 16 if p is None else p
                    try:
                        if via_array and p is not None:
                            obj.WriteProperty('priorityArray', v, arrayIndex=p)
                        else:
                            obj.WriteProperty('presentValue', v, priority=p)
                    except Exception as e:
                        fail('command-raises', (cls.__name__, seq[:step + 1]), "raised %r" % (e,))
                        break
                    model[slot - 1] = None if v == () else v
                    if is_binary:
                        continue       # slot 6 / holds are checked separately below
                    want_pv = next((x for x in model if x is not None), default)
                    got_pv = obj.ReadProperty('presentValue')
                    got = read_slots(obj)
                    ok_slots = all((a is None and b is None) or (a is not None and b is not None and _same(cls, a, b)) for a, b in zip(got, model))
                    if not ok_slots:
                        fail('slots', (cls.__name__, seq[:step + 1]), "priority array %r, commands imply %r" % (got, model))
                        break
                    if not _same(cls, got_pv, want_pv):
                        fail('present-value', (cls.__name__, seq[:step + 1]), "present value %r, highest-priority command or default is %r" % (got_pv, want_pv))
                        break
                else:
                    distinct += 1
            # refusals
            for bad in (0, 17, -1, 100):
                evaluations += 1
                obj = make(cls, **extra)
                obj.WriteProperty('presentValue', vals[0], priority=8)
                before = (obj.ReadProperty('presentValue'), read_slots(obj))
                for how in ('pv', 'array'):
                    try:
                        if how == 'pv':
                            obj.WriteProperty('presentValue', vals[1], priority=bad)
                        else:
                            obj.WriteProperty('priorityArray', vals[1], arrayIndex=bad)
                        fail('refusal', (cls.__name__, bad, how), "a command at priority %d was accepted" % bad)
                    except ExecutionError as e:
                        want = 'writeAccessDenied' if bad == 0 else 'invalidArrayIndex'
                        if e.errorCode != want:
                            fail('refusal-code', (cls.__name__, bad, how), "refused with %s, expected %s" % (e.errorCode, want))
                    except Exception as e:
                        fail('refusal-exception', (cls.__name__, bad, how), "raised %r" % (e,))
                    after = (obj.ReadProperty('presentValue'), read_slots(obj))
                    if repr(after) != repr(before):
                        fail('refusal-changes-state', (cls.__name__, bad, how), "state changed by a refused command: %r -> %r" % (before, after))
                distinct += 1

        # -- minimum on / off times under a virtual clock -------------------------------------------
        for cls in (LO.BinaryOutputCmdObject, LO.BinaryValueCmdObject):
            for on, off in itertools.product((0, 1, 3), repeat=2):
                for start in ('inactive', 'active'):
                    evaluations += 1
                    Clock.now = 0.0
                    m.tasks[:] = []
                    obj = make(cls, presentValue=start, minimumOnTime=on, minimumOffTime=off)
                    new = 'active' if start == 'inactive' else 'inactive'
                    obj.WriteProperty('presentValue', new, priority=8)
                    hold = on if new == 'active' else off
                    pv6 = obj.ReadProperty('priorityArray', 6)
                    held = pv6.null is None
                    if bool(hold) != held:
                        fail('minonoff-arm', (cls.__name__, on, off, start), "new %s state, minimum on %d off %d: slot 6 %s" % (new, on, off, 'held' if held else 'not held'))
                        continue
                    if hold:
                        due = m.tasks[0][0] if m.tasks else None
                        if due != hold:
                            fail('minonoff-duration', (cls.__name__, on, off, start), "new %s state held until %r, expected %r" % (new, due, float(hold)))
                            continue
                        # a higher-numbered command cannot switch it back while held
                        obj.WriteProperty('presentValue', start, priority=8)
                        if obj.ReadProperty('presentValue') != new:
                            fail('minonoff-not-held', (cls.__name__, on, off, start), "state changed during the minimum time")
                        Clock.now = float(hold)
                        while True:
                            task, delta = m.get_next_task()
                            if task is None:
                                break
                            m.process_task(task)
                    distinct += 1
        samples.append({'classes': covered, 'priorities': [1, 8, 16, None], 'values_per_class': 3})
    finally:
        T._time, T._task_manager = orig_time, orig_mgr
        logging.disable(logging.NOTSET)
    skipped = sorted(set(c.__name__ for c in classes) - set(covered))
    return {'evaluations': evaluations, 'distinct_nontrivial': distinct,
            'rule': "command sequences (exhaustive to length L over 4 priorities x 3 values x {write, relinquish}, capped per length by sampling; random length 100 over "
                    "all 16 priorities) on %d commandable classes, via presentValue and via priorityArray[index]; refusals at 0/17/-1/100; minimum on/off grid; "
                    "classes skipped (constructed DateTime values): %r; distinct = sequences that matched the slot model" % (len(covered), skipped),
            'samples': samples, 'failures': failures, 'exhaustive': False}

def _same(cls, a, b):
    if isinstance(a, float) or isinstance(b, float):
        return float(a) == float(b)
    if isinstance(a, (list, tuple)) and isinstance(b, (list, tuple)):
        return list(a) == list(b)
    if isinstance(a, (bytes, bytearray)) and isinstance(b, (bytes, bytearray)):
        return bytes(a) == bytes(b)
    if a == b:
        return True
    # enumerations: names outside, numbers in the slots
    for k in cls.__mro__:
        if k.__name__ == '_Commando':
            break
    try:
        from bacpypes.local.object import Commandable
        dt = [p.datatype for p in cls._properties.values() if p.identifier == 'presentValue'][0]
        table = getattr(dt, '_xlate_table', {})
        return table.get(a, a) == b or table.get(b, b) == a
    except Exception:
        return False
