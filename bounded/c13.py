"""
Bounded stage for C13 (labelled bounded, never counted as proved): BACnet/IP
broadcast distribution and foreign-device service.

Real BIPSimple / BIPBBMD / BIPForeign + AnnexJCodec stacks on the library's
vlan.IPNetwork subnets joined by a vlan.IPRouter, a recording network layer
bound above every BIP* object, timers in a real TaskManager under a virtual
clock (bounded/net_sim.py).  Nothing of the library is replaced.

Scenario = topology + time line.
  topology  1..5 home subnets (10.0.i.0/24), each with 0..1 BBMD and 0..3
            ordinary nodes; every BBMD's table lists itself and all / some of
            the other BBMDs, each entry with mask /24 (two-hop: directed
            broadcast) or /32 (one-hop: unicast, the peer re-broadcasts);
            0..4 foreign devices on subnets of their own (10.9.k.0/24, which
            may also hold ordinary nodes - those are out of reach by design).
  time line events at distinct instants: register (any BBMD, TTL 1..300 s; now
            and then with an ordinary node, which must refuse), unregister,
            re-register, delete-table-entry (a Delete-Foreign-Device-Table-
            Entry message from some node, or the BBMD's method), mute / unmute
            (the device's outgoing datagrams are lost: its renewals do not
            arrive, so its entry runs out), and a broadcast from any node.
Expectation: a three-valued model (must / must not / either) of the property
  text only.  A device is certainly served from the acknowledgement of a
  (re-)registration for TTL seconds, certainly not after TTL + GRACE without
  renewal, GRACE seconds after it unregistered, at once after its entry was
  deleted (until its next renewal) - GRACE = 30 s, the figure of Annex J; the
  library's BBMD uses 5 s, its foreign device 30 s, both are inside the
  "either" window.  Renewals happen every TTL seconds.  Where the text does
  not decide (a device that moved to another BBMD while an older registration
  elsewhere has not run out, a registration message that was lost) the model
  says "either" and only "at most once / never the originator" is checked.
Checked at every broadcast: each node's network layer got it exactly as often
  as the model says (1, 0, or at most 1 where the model says "either"), never
  the originator, the source address shown is the originator's B/IP address;
  at every event: each BBMD's foreign-device table lists exactly the devices
  the model is certain about.

Not in the space: a "foreign" device placed on a subnet that has a BBMD of the
same B/IP network (not a foreign device in the sense of Annex J; it would hear
its own broadcast come back from the BBMD).
"""
import heapq
import os
import random
import struct
import time

GRACE = 30.0
TTLS = (1, 2, 3, 5, 8, 10, 20, 30, 60, 120, 300)


# --------------------------------------------------------------------------- topology (pure data)

def node_table(spec):
    """[(name, kind, home subnet or None, foreign subnet or None, ip)]"""
    nodes = []
    for i, (has_bbmd, n_simple) in enumerate(spec['subnets']):
        if has_bbmd:
            nodes.append(('B%d' % i, 'bbmd', i, None, '10.0.%d.2' % (i + 1)))
        for k in range(n_simple):
            nodes.append(('S%d.%d' % (i, k), 'simple', i, None, '10.0.%d.%d' % (i + 1, 10 + k)))
    for k, n_simple in enumerate(spec.get('fsubs', [])):
        for n in range(n_simple):
            nodes.append(('X%d.%d' % (k, n), 'simple', None, k, '10.9.%d.%d' % (k, 10 + n)))
    for f, k in enumerate(spec.get('fds', [])):
        nodes.append(('F%d' % f, 'foreign', None, k, '10.9.%d.%d' % (k, 20 + f)))
    return nodes


def spec_repr(spec):
    subs = ','.join(('B' if b else '-') + '+%d' % n for b, n in spec['subnets'])
    bdt = ' '.join('B%d:[%s]' % (i, ','.join('%d/%d' % jm for jm in spec['bdt'][i])) for i in sorted(spec['bdt']))
    fs = ','.join('F%d@x%d' % (f, k) for f, k in enumerate(spec.get('fds', [])))
    xs = ','.join('x%d+%d' % (k, n) for k, n in enumerate(spec.get('fsubs', [])) if n)
    return "subnets[%s] bdt{%s} foreign[%s]%s" % (subs, bdt, fs, (' also ' + xs) if xs else '')


def event_repr(ev):
    t, op = ev[0], ev[1]
    a = ev[2:]
    if op == 'reg':
        return "%.3f reg F%d>%s ttl%d" % (t, a[0], a[1], a[2])
    if op == 'del':
        return "%.3f del F%d%s" % (t, a[0], '' if a[1] is None else ' by ' + a[1])
    if op in ('unreg', 'mute', 'unmute'):
        return "%.3f %s F%d" % (t, op, a[0])
    return "%.3f bcast %s" % (t, a[0])


def spec_size(spec):
    return (len(spec['subnets']) + len(spec.get('fsubs', [])), len(node_table(spec)), sum(len(v) for v in spec['bdt'].values()))


# --------------------------------------------------------------------------- model (property text only)
#
# Three-valued: Y (must), N (must not), U (either).  The model is certain only where the property text is:
#   entry of device f at BBMD b, made by a registration message that arrived at time e with time-to-live T:
#       Y up to e + T, U up to e + T + GRACE, N afterwards; N at once when deleted; an unregistration is (e, 0)
#   the device's own side: registered with its current BBMD ("epoch", begun by a register call, acknowledged once a
#       registration message of that epoch got through); after it unregistered U for GRACE seconds, then N;
#       after a broadcast of its own was refused (its BBMD holds no entry) N until the next acknowledgement
#   served = Y  iff  the current epoch is acknowledged, the device's side is Y and its current BBMD's entry is Y
#          = N  iff  the device unregistered more than GRACE ago, or no BBMD (reached by the broadcast) holds an entry
#                    that is Y or U
#          = U  otherwise (e.g. a registration with another BBMD that has not run out while the device has moved on:
#                    the text does not say whose view counts)

def and3(a, b):
    if a == 'N' or b == 'N':
        return 'N'
    if a == 'Y' and b == 'Y':
        return 'Y'
    return 'U'


class Model(object):

    def __init__(self, spec):
        self.spec = spec
        self.nodes = node_table(spec)
        self.by_name = {n[0]: n for n in self.nodes}
        self.bbmds = sorted(spec['bdt'])
        self.nfd = len(spec.get('fds', []))
        self.fd = [dict(cur=None, refuses=False, ttl=None, muted=False, base='N', why='never-registered',
                        acked=False, unreg_at=None, ever_unreg=False) for _ in range(self.nfd)]
        self.entries = {}       # (bbmd subnet, fd) -> (time, ttl)
        self.gone = {}          # (bbmd subnet, fd) -> why the entry is certainly absent
        self.heap = []          # renewals: (time, fd, serial of the registration they belong to)
        self.regserial = [0] * self.nfd

    def alive(self, b, f, t):
        """does BBMD b hold an entry for f: (Y/N/U, reason when N)"""
        e = self.entries.get((b, f))
        if e is None:
            return 'N', self.gone.get((b, f), 'never-registered')
        if t <= e[0] + e[1]:
            return 'Y', None
        if t <= e[0] + e[1] + GRACE:
            return 'U', None
        return 'N', ('unregistered' if e[1] == 0 else 'expired')

    def own(self, f, t):
        """the device's own side: (Y/N/U, reason when N)"""
        d = self.fd[f]
        if d['unreg_at'] is not None:
            return ('U', None) if t <= d['unreg_at'] + GRACE else ('N', 'unregistered')
        if d['base'] == 'N':
            return 'N', d['why']
        return d['base'], None

    def plain(self, f, t):
        """certainly registered and served by its current BBMD"""
        d = self.fd[f]
        return (d['cur'] is not None and not d['refuses'] and d['acked'] and self.own(f, t)[0] == 'Y'
                and self.alive(d['cur'], f, t)[0] == 'Y')

    def served(self, f, t, reached):
        """is f handed a broadcast that reaches the BBMDs `reached`: (Y/N/U, reason when N)"""
        d = self.fd[f]
        o, why = self.own(f, t)
        if d['unreg_at'] is not None and o == 'N':
            return 'N', why
        cur_is_bbmd = d['cur'] is not None and not d['refuses']
        if cur_is_bbmd and d['cur'] in reached and self.plain(f, t):
            return 'Y', None
        live = [b for b in reached if self.alive(b, f, t)[0] != 'N']
        if not live:
            if cur_is_bbmd and d['cur'] in reached:
                return 'N', self.alive(d['cur'], f, t)[1]
            if cur_is_bbmd:
                return 'N', 'its-bbmd-is-not-reached'
            return 'N', (why or ('unregistered' if d['unreg_at'] is not None else d['why']) or 'never-registered')
        return 'U', None

    # -- renewals
    def advance(self, t):
        """renewals strictly before t"""
        while self.heap and self.heap[0][0] < t:
            when, f, serial = heapq.heappop(self.heap)
            d = self.fd[f]
            if serial != self.regserial[f] or d['cur'] is None:
                continue
            self._register_message(f, when)
            heapq.heappush(self.heap, (when + d['ttl'], f, serial))

    def _register_message(self, f, t):
        d = self.fd[f]
        if d['muted']:
            return
        if d['refuses']:
            d['base'], d['why'], d['acked'] = 'N', 'registration-refused', True
            d['unreg_at'] = None
            return
        self.entries[(d['cur'], f)] = (t, d['ttl'])
        self.gone.pop((d['cur'], f), None)
        d['base'], d['why'], d['acked'], d['unreg_at'] = 'Y', None, True, None

    # -- external events
    def apply(self, ev):
        t, op = ev[0], ev[1]
        self.advance(t)
        if op == 'reg':
            f, target, ttl = ev[2:]
            d = self.fd[f]
            kind = self.by_name[target][1]
            d['cur'] = self.by_name[target][2] if kind == 'bbmd' else target
            d['refuses'] = kind != 'bbmd'
            d['ttl'] = ttl
            d['acked'] = False
            self.regserial[f] += 1
            self._register_message(f, t)
            heapq.heappush(self.heap, (t + ttl, f, self.regserial[f]))
        elif op == 'unreg':
            f = ev[2]
            d = self.fd[f]
            if not d['muted'] and not d['refuses']:
                self.entries[(d['cur'], f)] = (t, 0)
                self.gone.pop((d['cur'], f), None)
            d['unreg_at'] = t
            d['ever_unreg'] = True
            d['cur'], d['refuses'], d['acked'] = None, False, False
            self.regserial[f] += 1
        elif op == 'del':
            f = ev[2]
            d = self.fd[f]
            if d['cur'] is not None and not d['refuses']:
                self.entries.pop((d['cur'], f), None)
                self.gone[(d['cur'], f)] = 'deleted'
        elif op == 'mute':
            self.fd[ev[2]]['muted'] = True
        elif op == 'unmute':
            self.fd[ev[2]]['muted'] = False
        # 'bcast' is handled by expect()

    def expect(self, t, origin):
        """-> {node name: (1 | 0 | None for either, reason)}; updates the originator's state when it is a foreign device"""
        self.advance(t)
        name, kind, home, fsub, ip = self.by_name[origin]
        exp = {n[0]: (0, 'out-of-reach') for n in self.nodes if n[0] != origin}
        bdt = self.spec['bdt']
        if kind == 'foreign':
            f = int(name[1:])
            d = self.fd[f]
            if d['muted']:
                return {k: (0, 'originator-muted') for k in exp}
            o, why = self.own(f, t)
            if d['cur'] is None:
                # never registered, or unregistered: within the grace window either
                return {k: ((0, 'originator-' + (why or 'never-registered')) if o == 'N' else (None, None)) for k in exp}
            if d['refuses']:
                if d['acked']:
                    d['base'], d['why'] = 'N', 'registration-refused'
                return {k: (0, 'originator-registered-with-a-node-that-is-no-bbmd') for k in exp}
            a, why2 = self.alive(d['cur'], f, t)
            if a == 'N':
                # whether or not the device still believes it is registered: nothing is distributed; if it does, its BBMD says no
                if d['unreg_at'] is None:
                    d['base'], d['why'] = 'N', why2
                return {k: (0, 'originator-' + why2) for k in exp}
            if not self.plain(f, t):
                if a == 'U' and d['base'] == 'Y':
                    d['base'] = 'U'
                return {k: (None, None) for k in exp}
            start = d['cur']
            exp['B%d' % start] = (1, None)
            own_subnet = start
        elif home is None:
            # an ordinary node on a foreign subnet: its own subnet's ordinary nodes only
            for n in self.nodes:
                if n[0] != origin and n[1] == 'simple' and n[3] == fsub:
                    exp[n[0]] = (1, None)
            for g in range(self.nfd):
                if 'F%d' % g != origin:
                    exp['F%d' % g] = (0, 'out-of-reach')
            return exp
        else:
            start = home if self.spec['subnets'][home][0] else None
            own_subnet = home
        for n in self.nodes:
            if n[0] != origin and n[2] == own_subnet and n[2] is not None:
                exp[n[0]] = (1, None)
        reached = [] if start is None else [start] + [j for j, mask in bdt[start] if j != start]
        for j in reached:
            for n in self.nodes:
                if n[0] != origin and n[2] == j:
                    exp[n[0]] = (1, None)
        for g in range(self.nfd):
            gname = 'F%d' % g
            if gname == origin:
                continue
            r, why = self.served(g, t, reached)
            exp[gname] = (1, None) if r == 'Y' else (0, why) if r == 'N' else (None, None)
        return exp

    def listing(self, t):
        """-> {(bbmd subnet, fd): (Y/N/U, reason)} for every pair ever seen"""
        self.advance(t)
        out = {}
        for key in set(self.entries) | set(self.gone):
            out[key] = self.alive(key[0], key[1], t)
        return out


# --------------------------------------------------------------------------- execution on the real stacks

class World(object):

    def __init__(self, spec, max_steps=400000):
        from bounded.net_sim import Sim, ip_classes
        K = ip_classes()
        A = K['Address']
        self.A = A
        self.spec = spec
        self.sim = Sim(max_steps=max_steps)
        self.router = K['IPRouter']()
        self.stacks = {}
        lans = {}
        for i in range(len(spec['subnets'])):
            lans[('h', i)] = K['IPNetwork']('h%d' % i)
            self.router.add_network(A('10.0.%d.1/24' % (i + 1)), lans[('h', i)])
        nfs = max([len(spec.get('fsubs', []))] + [k + 1 for k in spec.get('fds', [])])
        for k in range(nfs):
            lans[('f', k)] = K['IPNetwork']('x%d' % k)
            self.router.add_network(A('10.9.%d.1/24' % k), lans[('f', k)])
        self.order = []
        for name, kind, home, fsub, ip in node_table(spec):
            lan = lans[('h', home)] if home is not None else lans[('f', fsub)]
            st = K['IPStack'](kind, name, A(ip + '/24'), lan)
            if kind == 'bbmd':
                for j, mask in spec['bdt'][home]:
                    st.bip.add_peer(A('10.0.%d.2/%d' % (j + 1, mask)))
            self.stacks[name] = st
            self.order.append(name)
        self.ip = {n[0]: n[4] for n in node_table(spec)}
        self.sim.settle()

    def close(self):
        self.sim.close()

    def do(self, ev):
        t, op = ev[0], ev[1]
        sim, A = self.sim, self.A
        sim.run(t)
        if op == 'reg':
            f, target, ttl = ev[2:]
            sim.call(self.stacks['F%d' % f].bip.register, A(self.ip[target]), ttl)
        elif op == 'unreg':
            sim.call(self.stacks['F%d' % ev[2]].bip.unregister)
        elif op == 'del':
            f, via = ev[2], ev[3]
            fd = self.stacks['F%d' % f]
            target = fd.bip.bbmdAddress
            if target is not None:
                bb = [s for s in self.stacks.values() if s.kind == 'bbmd' and s.address == target]
                if bb and via is None:
                    sim.call(bb[0].bip.delete_foreign_device_table_entry, A(self.ip['F%d' % f]))
                elif bb:
                    from bacpypes.bvll import DeleteForeignDeviceTableEntry
                    sim.call(self.stacks[via].ase.request, DeleteForeignDeviceTableEntry(A(self.ip['F%d' % f]), destination=A(self.ip[bb[0].name])))
        elif op == 'mute':
            self.stacks['F%d' % ev[2]].mux.mute = True
        elif op == 'unmute':
            self.stacks['F%d' % ev[2]].mux.mute = False
        elif op == 'bcast':
            sim.call(self.stacks[ev[2]].net.broadcast, ev[3])
        sim.settle()


def run_scenario(spec, events):
    """-> (evaluations, [(kind, detail, index of the event)], classes)"""
    problems = []
    classes = set()
    evaluations = 0
    model = Model(spec)
    w = World(spec)
    kinds = {n[0]: n[1] for n in node_table(spec)}
    seen_err = 0
    serial = 0
    try:
        for idx, ev in enumerate(events):
            t, op = ev[0], ev[1]
            if op == 'bcast':
                serial += 1
                payload = b'B' + struct.pack('>H', serial)
                ev = (t, op, ev[2], payload)
                exp = model.expect(t, ev[2])
            else:
                model.apply(ev)
            w.do(ev)
            for e in w.sim.errors[seen_err:]:
                problems.append(('stack-raises-' + e.split(':')[0], "at %s: %s" % (event_repr(ev), e), idx))
            seen_err = len(w.sim.errors)
            if op == 'bcast':
                origin = ev[2]
                okind = kinds[origin]
                evaluations += 1
                got0 = [g for g in w.stacks[origin].net.got if g[0] == payload]
                if got0:
                    problems.append(('broadcast-of-%s-back-to-originator' % okind, "%s: its own network layer received it %d times (source shown %s)" % (event_repr(ev), len(got0), got0[0][1]), idx))
                nobody = not any(g[0] == payload for st in w.stacks.values() for g in st.net.got)      # nothing was distributed at all
                for name in w.order:
                    if name == origin:
                        continue
                    want, why = exp[name]
                    got = [g for g in w.stacks[name].net.got if g[0] == payload]
                    rk = kinds[name]
                    classes.add((okind, rk, want, why))
                    if len(got) > 1:
                        problems.append(('broadcast-of-%s-duplicated-at-%s' % (okind, rk), "%s: %s received it %d times" % (event_repr(ev), name, len(got)), idx))
                    elif want == 1 and not got:
                        # a device that registers again after it had unregistered is kept apart (own kind)
                        if rk == 'foreign' and not (okind == 'foreign' and nobody):
                            again = model.fd[int(name[1:])]['ever_unreg']
                            problems.append((('foreign-device-registered-again-after-unregistering-not-served' if again else 'registered-foreign-device-not-served'),
                                             "%s: %s is registered (acknowledged, within its time-to-live) and did not receive it; its registrationStatus is %r" % (
                                event_repr(ev), name, w.stacks[name].bip.registrationStatus), idx))
                        elif okind == 'foreign':
                            again = model.fd[int(origin[1:])]['ever_unreg']
                            problems.append((('broadcast-of-foreign-device-registered-again-after-unregistering-not-distributed' if again else 'broadcast-of-registered-foreign-device-not-distributed'),
                                             "%s: %s did not receive it; the originator's registrationStatus is %r" % (
                                event_repr(ev), name, w.stacks[origin].bip.registrationStatus), idx))
                        else:
                            problems.append(('broadcast-of-%s-not-delivered-to-%s' % (okind, rk), "%s: %s did not receive it" % (event_repr(ev), name), idx))
                    elif want == 0 and got:
                        if why and why.startswith('originator-'):
                            problems.append(('foreign-device-broadcast-distributed-though-' + why[len('originator-'):], "%s: %s received it" % (event_repr(ev), name), idx))
                        elif rk == 'foreign':
                            problems.append(('foreign-device-served-though-' + str(why), "%s: %s received it" % (event_repr(ev), name), idx))
                        else:
                            problems.append(('broadcast-of-%s-delivered-out-of-reach-to-%s' % (okind, rk), "%s: %s received it (%s)" % (event_repr(ev), name, why), idx))
                    if got and str(got[0][1]) != w.ip[origin]:
                        problems.append(('broadcast-of-%s-wrong-source-at-%s' % (okind, rk), "%s: %s is shown source %s, the originator is %s" % (event_repr(ev), name, got[0][1], w.ip[origin]), idx))
                for st in w.stacks.values():
                    del st.net.got[:]
            # the tables
            evaluations += 1
            listing = model.listing(t)
            for (b, f), (state, why) in listing.items():
                bb = w.stacks['B%d' % b]
                listed = any(str(e.fdAddress) == w.ip['F%d' % f] for e in bb.bip.bbmdFDT)
                classes.add(('table', state, why, listed))
                if state == 'Y' and not listed:
                    problems.append(('foreign-device-table-misses-registered-device', "after %s: F%d is registered with B%d (within its time-to-live) and not in its table" % (event_repr(ev), f, b), idx))
                elif state == 'N' and listed:
                    problems.append(('foreign-device-table-lists-device-though-' + str(why), "after %s: F%d is still in the table of B%d" % (event_repr(ev), f, b), idx))
            for st in w.stacks.values():
                if st.kind == 'bbmd':
                    for e in st.bip.bbmdFDT:
                        fs = [f for f in range(model.nfd) if w.ip['F%d' % f] == str(e.fdAddress)]
                        if not fs or (int(st.name[1:]), fs[0]) not in listing:
                            problems.append(('foreign-device-table-lists-stranger', "after %s: %s lists %s which never registered there" % (event_repr(ev), st.name, e.fdAddress), idx))
    finally:
        w.close()
    return evaluations, problems, classes


# --------------------------------------------------------------------------- scenario generators

def full_bdt(spec, mask):
    bb = [i for i, (b, n) in enumerate(spec['subnets']) if b]
    spec['bdt'] = {i: [(i, mask if not callable(mask) else mask())] + [(j, mask if not callable(mask) else mask()) for j in bb if j != i] for i in bb}
    return spec


class TimeLine(object):
    """events at distinct instants: integer second + a fraction unique to the event (k/1024), so that no event falls
    on a BBMD's one-second tick or on a renewal (which inherits the fraction of its registration)"""

    def __init__(self):
        self.events = []
        self.k = 0

    def at(self, second, op, *args):
        self.k += 1
        assert self.k < 1024
        self.events.append((float(int(second)) + self.k / 1024.0, op) + args)

    def sorted(self):
        return sorted(self.events)


def everybody(tl, spec, second):
    for n in node_table(spec):
        tl.at(second, 'bcast', n[0])


def fixed_scenarios():
    """small topologies x life-cycle templates, broadcasts from EVERY node at each probing instant"""
    tops = []
    tops.append(('one-subnet', full_bdt({'subnets': [(True, 1)], 'fsubs': [0], 'fds': [0]}, 24)))
    tops.append(('two-bbmds-unicast', full_bdt({'subnets': [(True, 1), (True, 1)], 'fsubs': [0, 0], 'fds': [0, 1]}, 32)))
    tops.append(('two-bbmds-directed', full_bdt({'subnets': [(True, 1), (True, 1)], 'fsubs': [0, 0], 'fds': [0, 1]}, 24)))
    t = full_bdt({'subnets': [(True, 1), (True, 0), (False, 2)], 'fsubs': [1], 'fds': [0, 0]}, 32)
    t['bdt'][0] = [(0, 32), (1, 24)]
    tops.append(('three-subnets-one-without-bbmd', t))
    t = full_bdt({'subnets': [(True, 1), (True, 1)], 'fsubs': [0], 'fds': [0]}, 32)
    t['bdt'][1] = [(1, 32)]                 # B1 does not list B0
    tops.append(('one-sided-tables', t))
    out = []
    for name, spec in tops:
        nf = len(spec['fds'])
        bb = ['B%d' % i for i in sorted(spec['bdt'])]
        for ttl in (1, 5, 30):
            # steady: registered, renewing
            tl = TimeLine()
            for f in range(nf):
                tl.at(0, 'reg', f, bb[f % len(bb)], ttl)
            everybody(tl, spec, 0)
            everybody(tl, spec, ttl)
            everybody(tl, spec, 3 * ttl + 2)
            everybody(tl, spec, 7 * ttl + 40)
            out.append((name + '/renewal/ttl%d' % ttl, spec, tl.sorted()))
            # expiry: renewals do not arrive
            tl = TimeLine()
            for f in range(nf):
                tl.at(0, 'reg', f, bb[f % len(bb)], ttl)
            tl.at(0, 'mute', 0)
            everybody(tl, spec, max(0, ttl - 1))
            everybody(tl, spec, ttl + GRACE + 1)
            tl.at(ttl + GRACE + 2, 'unmute', 0)
            everybody(tl, spec, ttl + GRACE + 2)
            everybody(tl, spec, 2 * ttl + GRACE + 3)      # the renewal after unmuting has happened by now
            out.append((name + '/expiry/ttl%d' % ttl, spec, tl.sorted()))
            # unregistration, then registration again
            tl = TimeLine()
            for f in range(nf):
                tl.at(0, 'reg', f, bb[f % len(bb)], ttl)
            everybody(tl, spec, 1)
            tl.at(2, 'unreg', 0)
            everybody(tl, spec, 2 + GRACE + 1)
            tl.at(2 + GRACE + 2, 'reg', 0, bb[-1], ttl)
            everybody(tl, spec, 2 + GRACE + 2)
            everybody(tl, spec, 2 + GRACE + 2 + ttl)
            out.append((name + '/unregister-register/ttl%d' % ttl, spec, tl.sorted()))
            # table entry deleted
            for via in (None, bb[-1], 'S0.0'):
                tl = TimeLine()
                for f in range(nf):
                    tl.at(0, 'reg', f, bb[f % len(bb)], max(ttl, 5))
                everybody(tl, spec, 1)
                tl.at(2, 'del', 0, via)
                everybody(tl, spec, 2)
                everybody(tl, spec, 3)
                everybody(tl, spec, max(ttl, 5) + 1)        # renewed by now
                out.append((name + '/delete-%s/ttl%d' % (via or 'direct', ttl), spec, tl.sorted()))
    return out


def random_scenario(rng):
    ns = rng.randint(1, 5)
    subnets = []
    for i in range(ns):
        subnets.append((rng.random() < 0.7, rng.randint(0, 3)))
    if not any(b for b, n in subnets) and rng.random() < 0.85:
        i = rng.randrange(ns)
        subnets[i] = (True, subnets[i][1])
    spec = {'subnets': subnets}
    bb = [i for i, (b, n) in enumerate(subnets) if b]
    style = rng.choice(('full24', 'full32', 'fullmixed', 'partial', 'partial'))
    mask = {'full24': 24, 'full32': 32}.get(style, lambda: rng.choice((24, 32)))
    full_bdt(spec, mask)
    if style == 'partial':
        for i in bb:
            spec['bdt'][i] = [spec['bdt'][i][0]] + [e for e in spec['bdt'][i][1:] if rng.random() < 0.5]
    nfd = rng.randint(0, 4) if bb else rng.randint(0, 1)
    nfs = rng.randint(1, max(1, nfd)) if nfd else rng.randint(0, 1)
    spec['fsubs'] = [rng.choice((0, 0, 1, 2)) for _ in range(nfs)]
    spec['fds'] = [rng.randrange(nfs) for _ in range(nfd)]
    names = [n[0] for n in node_table(spec)]
    if not names:
        spec['subnets'][0] = (spec['subnets'][0][0], 1)
        names = [n[0] for n in node_table(spec)]
    targets = ['B%d' % i for i in bb]
    others = [n[0] for n in node_table(spec) if n[1] == 'simple' and n[2] is not None]
    tl = TimeLine()
    # a plan per foreign device, then broadcasts sprinkled around the interesting instants
    marks = [0]
    bound = {}                  # fd -> does it have a BBMD address right now (unregister needs one)
    horizon = 0
    for f in range(nfd):
        t = rng.randint(0, 5)
        for step in range(rng.randint(1, 5)):
            ttl = rng.choice(TTLS) if rng.random() < 0.8 else rng.randint(1, 300)
            op = rng.choice(('reg', 'reg', 'unreg', 'del', 'mute', 'unmute', 'mute-expire'))
            if op == 'reg' or not bound.get(f):
                tgt = rng.choice(targets) if targets and (rng.random() < 0.92 or not others) else (rng.choice(others) if others else None)
                if tgt is None:
                    break
                tl.at(t, 'reg', f, tgt, ttl)
                bound[f] = ttl
                marks += [t, t + ttl - 1, t + ttl, t + ttl + 1, t + 2 * ttl]
                t += rng.choice((1, ttl, ttl + 1, 2 * ttl + 3, rng.randint(1, 40)))
            elif op == 'unreg':
                tl.at(t, 'unreg', f)
                bound[f] = None
                marks += [t, t + 1, t + 6, t + int(GRACE) + 1]
                t += rng.choice((1, 7, int(GRACE) + 2))
            elif op == 'del':
                tl.at(t, 'del', f, rng.choice([None] + targets + others[:1]))
                marks += [t, t + 1, t + bound[f], t + bound[f] + 1]
                t += rng.choice((1, 2, bound[f] + 1))
            elif op == 'mute':
                tl.at(t, 'mute', f)
                marks += [t + 1]
                t += rng.randint(1, 10)
            elif op == 'unmute':
                tl.at(t, 'unmute', f)
                marks += [t + 1, t + bound[f] + 1]
                t += rng.randint(1, 10)
            else:
                tl.at(t, 'mute', f)
                ttl = bound[f]
                marks += [t + ttl - 1, t + ttl + 6, t + ttl + int(GRACE) + 1, t + 2 * ttl + int(GRACE) + 2]
                t += 2 * ttl + int(GRACE) + 2
                tl.at(t, 'unmute', f)
                marks += [t, t + ttl + 1]
                t += rng.randint(1, ttl + 2)
            horizon = max(horizon, t)
    marks = [m for m in marks if m >= 0]
    nb = rng.randint(4, 14)
    for _ in range(nb):
        sec = rng.choice(marks) + rng.choice((0, 0, 0, 1, -1)) if rng.random() < 0.75 else rng.randint(0, max(1, horizon + 40))
        tl.at(max(0, sec), 'bcast', rng.choice(names))
    # one round from everybody at some instant
    sec = rng.choice(marks)
    if rng.random() < 0.5:
        everybody(tl, spec, sec)
    return spec, tl.sorted()


# --------------------------------------------------------------------------- driver

def _job(args):
    label, spec, events = args
    try:
        ev, probs, classes = run_scenario(spec, events)
    except Exception as e:
        import traceback
        return 0, [('harness-exception', traceback.format_exc()[-700:], len(events) - 1)], set(), args
    return ev, probs, classes, args


def shrink(spec, events, kind, idx):
    """drop events (never the failing one) while the same kind is still reported"""
    cur = list(events[:idx + 1])
    changed = True
    rounds = 0
    while changed and rounds < 4:
        changed = False
        rounds += 1
        i = 0
        while i < len(cur) - 1:
            trial = cur[:i] + cur[i + 1:]
            try:
                _, probs, _ = run_scenario(spec, trial)
            except Exception:
                probs = []
            if any(p[0] == kind for p in probs):
                cur = trial
                changed = True
            else:
                i += 1
    detail = None
    try:
        _, probs, _ = run_scenario(spec, cur)
        for p in probs:
            if p[0] == kind:
                detail = p[1]
                break
    except Exception:
        pass
    return cur, detail


def run(tier, seed):
    rng = random.Random(seed)
    failures = {}
    samples = []
    evaluations = 0
    classes = set()
    t0 = time.time()
    shrink_budget = [12 if tier == 'quick' else 40]

    def absorb(ev, probs, cls, args):
        nonlocal evaluations
        label, spec, events = args
        evaluations += ev
        classes.update(cls)
        first = {}
        for kind, detail, idx in probs:
            if kind not in first:
                first[kind] = (detail, idx)
        for kind, (detail, idx) in first.items():
            size = spec_size(spec) + (idx + 1,)
            if kind in failures and failures[kind][0] <= spec_size(spec) + (2,):
                continue
            evs = events[:idx + 1]
            if shrink_budget[0] > 0 and kind != 'harness-exception':
                shrink_budget[0] -= 1
                evs, d2 = shrink(spec, events, kind, idx)
                detail = d2 or detail
                size = spec_size(spec) + (len(evs),)
            if kind in failures and failures[kind][0] <= size:
                continue
            inp = "%s; events: %s" % (spec_repr(spec), '; '.join(event_repr(e) for e in evs[-9:]))
            failures[kind] = (size, {'name': kind, 'input': inp[:500], 'detail': ("[%s] " % label + detail)[:1500]})

    jobs = [(label, spec, events) for label, spec, events in fixed_scenarios()]
    n_fixed = len(jobs)
    n_random = 450 if tier == 'quick' else 8000
    for i in range(n_random):
        spec, events = random_scenario(rng)
        jobs.append(('random %d' % i, spec, events))

    workers = 1 if tier == 'quick' else min(8, os.cpu_count() or 1)
    results = []
    if workers > 1:
        import multiprocessing
        with multiprocessing.get_context('fork').Pool(workers) as pool:
            for res in pool.imap(_job, jobs, chunksize=8):
                results.append(res)
    else:
        for j in jobs:
            results.append(_job(j))
    for res in results:
        absorb(*res)

    ex = jobs[n_fixed] if len(jobs) > n_fixed else jobs[0]
    samples.append({'fixed_scenarios': n_fixed, 'random_scenarios': n_random, 'broadcast_or_table_checks': evaluations,
                    'example_topology': spec_repr(ex[1]), 'example_events': [event_repr(e) for e in ex[2][:8]],
                    'events_in_all_scenarios': sum(len(j[2]) for j in jobs), 'grace_seconds': GRACE, 'seconds': round(time.time() - t0, 1)})
    samples.append({'fixed_labels': sorted({j[0].split('/')[0] for j in jobs[:n_fixed]}), 'templates': sorted({j[0].split('/')[1] for j in jobs[:n_fixed]})})
    return {'evaluations': evaluations, 'distinct_nontrivial': len(classes),
            'rule': "evaluation = one broadcast checked at every node's network layer, or one read of all foreign-device tables, against a three-valued model of the property text "
                    "(GRACE = %g s); %d scenarios: %d fixed (5 small topologies x life-cycle templates renewal / expiry / unregister-register / delete x TTL 1, 5, 30, "
                    "broadcasts from every node at every probing instant) + %d random (1..5 subnets, 0..4 foreign devices, TTL 1..300); "
                    "distinct = distinct (originator kind, recipient kind, expectation, reason) and (table state, reason, listed) classes" % (GRACE, len(jobs), n_fixed, n_random),
            'samples': samples, 'failures': [v[1] for v in failures.values()], 'exhaustive': True}


if __name__ == '__main__':
    import sys, json
    tier = sys.argv[1] if len(sys.argv) > 1 else 'quick'
    t = time.time()
    res = run(tier, int(sys.argv[2]) if len(sys.argv) > 2 else 1)
    print(json.dumps(res, indent=1, default=repr))
    print("seconds", round(time.time() - t, 1))
