"""
Bounded stage for C03 (labelled bounded, never counted as proved): encode /
decode round trip of every registered service PDU and every constructed type
of basetypes / apdu, on values produced from class metadata alone
(spec.gen_values).

For each class and each generated value v:
    octets  = encode(v)                (full APDU for services, tag list else)
    w       = decode(class, octets)    must not raise, must consume every tag
    canon(w) == canon(v)               structural normal form, and the
                                       library's own dict_contents() agree
    encode(w) == octets                identical octets
    header fields of a service PDU survive (type, service choice, invoke ID)

Bound: per class N values (quick 32, thorough 300; a Choice gets at least one
value per alternative, a Sequence with k optionals gets all 2**k presence
masks when 2**k <= N, else none / all / random), list lengths 0..3, nesting
depth up to 4, atomic values from boundary pools.  Plus twelve exact-octet
vectors in the style of the standard's Annex F worked examples (F.1.x / F.3.x /
F.4.x): the sandbox has no copy of the standard, so they were written down from
memory and each re-derived by hand from the clause 20 encoding rules -- they
are concrete test vectors, not authoritative copies of the published octets.

A failure is named <kind>-<Class> and reported once per class and kind.  When
a value of a container class fails, the smallest nested value showing the same
kind of problem on its own is looked for and the failure is attributed to its
class (so one defective type gives one failure, not one per container, and the
set of names does not depend on the seed).

A value the library refuses to build or encode through an explicit `raise`
(its own validation) is a generator problem: counted and listed under
`skipped`, never a failure.  An encode that dies in a builtin operation (no
explicit raise in the innermost frame) is a failure: the class metadata makes
a valid alternative impossible to put on the wire.
"""
import random
import traceback

N_VALUES = {'quick': 32, 'thorough': 300}
MAX_DEPTH = 4
MAX_LEN = 3


def _hex(b):
    return bytes(b).hex()


def _is_validation(err):
    """innermost frame is an explicit raise statement of the library"""
    tb = traceback.extract_tb(err.__traceback__)
    if not tb:
        return True
    line = (tb[-1].line or '').strip()
    return line.startswith('raise')


def _where(err):
    tb = traceback.extract_tb(err.__traceback__)
    if not tb:
        return '?'
    fr = tb[-1]
    return '%s:%d %s' % (fr.filename.split('/')[-1], fr.lineno, fr.name)


def _plain(d):
    """dict_contents output with embedded library objects (a NameValue keeps a
    DateTime or an atomic instance as is) replaced by their normal form"""
    from spec import gen_values as G
    from bacpypes.primitivedata import Atomic
    from bacpypes.constructeddata import Sequence, Choice
    if isinstance(d, dict):
        return {k: _plain(v) for k, v in d.items()}
    if isinstance(d, (list, tuple)):
        return [_plain(v) for v in d]
    if isinstance(d, (bytes, bytearray)):
        return bytes(d)
    if isinstance(d, Atomic):
        return (type(d).__name__, _plain(d.value))
    if isinstance(d, (Sequence, Choice)):
        return (type(d).__name__, G.canon(type(d), d))
    return d


def _plans(cls, n, rng):
    """top level plans: systematic first, then random"""
    from bacpypes.constructeddata import Sequence, Choice
    plans = []
    if issubclass(cls, Choice):
        k = len(cls.choiceElements)
        total = max(n, k)
        for i in range(total):
            plans.append({'alt': i} if k else {})
        return plans
    if issubclass(cls, Sequence):
        els = cls.sequenceElements
        opt = [i for i, e in enumerate(els) if e.optional]
        k = len(opt)
        if k and 2 ** k <= n:
            for m in range(2 ** k):
                mask = [True] * len(els)
                for j, i in enumerate(opt):
                    mask[i] = bool((m >> j) & 1)
                plans.append({'optionals': 'mask', 'mask': mask})
        elif k:
            plans.append({'optionals': 'none'})
            plans.append({'optionals': 'all'})
        while len(plans) < n:
            plans.append({})
        return plans
    return [{}] * n


class _Refused(Exception):
    """the library's own validation refused the generated value"""


def _roundtrip(cls, v, service, choice=None, invoke_id=1):
    """-> (octets or None, [(kind, detail)]); raises _Refused for a generator problem"""
    from spec import gen_values as G
    from bacpypes.constructeddata import Sequence
    try:
        if service:
            octets = G.encode_service(v, invoke_id=invoke_id, service_choice=choice)
        else:
            octets = G.encode_constructed(v)
    except Exception as err:
        if _is_validation(err):
            raise _Refused('refused at encode: %s: %s' % (type(err).__name__, str(err)[:120]))
        return None, [('encode-crash', "encoding a metadata-valid value dies in a builtin operation: %s: %s at %s"
                       % (type(err).__name__, err, _where(err)))]
    try:
        if service:
            w, left = G.decode_service(cls, octets), 0
        else:
            w, left = G.decode_constructed_ex(cls, octets)
    except Exception as err:
        return octets, [('decode-raises-%s' % (type(err).__name__,),
                         "decode of the class's own encoding raised %s: %s at %s" % (type(err).__name__, err, _where(err)))]
    problems = []
    if left:
        problems.append(('leftover', "%d tag(s) of the class's own encoding not consumed by decode" % (left,)))
    try:
        cv, cw = G.canon(cls, v), G.canon(cls, w)
    except Exception as err:
        return octets, problems + [('canon-raises', "normal form of the decoded value raised %r" % (err,))]
    if cv != cw:
        problems.append(('roundtrip', "decoded value differs: %s" % (repr(cw)[:400],)))
    elif service and G.header_of(v) != G.header_of(w):
        problems.append(('header', "fixed header differs: %r vs %r" % (G.header_of(v), G.header_of(w))))
    else:
        # the library's own view of the content (parameters only for a service
        # PDU: the header part renders unset flags differently)
        try:
            if service:
                dv, dw = Sequence.dict_contents(v), Sequence.dict_contents(w)
            else:
                dv, dw = v.dict_contents(), w.dict_contents()
        except Exception:
            dv = dw = None
        if dv != dw and _plain(dv) != _plain(dw):
            problems.append(('dictcontents', "dict_contents differ: %s vs %s" % (repr(dv)[:250], repr(dw)[:250])))
    try:
        # a decoded service instance already carries its header
        octets2 = G.encode_service(w) if service else G.encode_constructed(w)
    except Exception as err:
        return octets, problems + [('reencode-raises-%s' % (type(err).__name__,),
                                    "re-encoding the decoded value raised %s: %s at %s" % (type(err).__name__, err, _where(err)))]
    if octets2 != octets:
        problems.append(('reencode-differs', "re-encoded octets %s" % (_hex(octets2)[:300],)))
    return octets, problems


def _subvalues(cls, v, out=None):
    """(class, value) of every Sequence / Choice value nested in v, v excluded"""
    from spec import gen_values as G
    from bacpypes.constructeddata import Sequence, Choice, Any
    if out is None:
        out = []
    if isinstance(v, Sequence):
        elements = type(v).sequenceElements
    elif isinstance(v, Choice):
        elements = type(v).choiceElements
    else:
        return out
    for el in elements:
        x = getattr(v, el.name, None)
        if x is None:
            continue
        if G.is_listlike(el.klass):
            items = x if isinstance(x, list) else (x.value[1:] if G.is_array_of(el.klass) else x.value)
            for item in items:
                if isinstance(item, (Sequence, Choice)):
                    out.append((el.klass.subtype, item))
                    _subvalues(el.klass.subtype, item, out)
        elif isinstance(x, (Sequence, Choice)) and not isinstance(x, Any):
            out.append((el.klass, x))
            _subvalues(el.klass, x, out)
    return out


def _localise(cls, v, kind):
    """smallest nested value that shows the same kind of problem on its own:
    the failure is reported once, for the class at the root of the cause, and
    not once per container that happens to hold such a value"""
    from spec import gen_values as G
    best = None
    for scls, sv in _subvalues(cls, v):
        try:
            octets, problems = _roundtrip(scls, sv, False)
        except Exception:
            continue
        for k, detail in problems:
            if k == kind:
                size = len(G.describe(scls, sv, 100000))
                if best is None or size < best[0]:
                    best = (size, scls, sv, octets, detail)
    return best


def _check_class(args):
    """all values of one class; returns a result dict (picklable)"""
    kind, choice, cls, n, seed = args
    from spec import gen_values as G
    name = cls.__name__
    label = name if choice is None or kind != 'error_types' else '%s[%d]' % (name, choice)
    rng = random.Random('%s:%s:%s:%s' % (seed, kind, choice, name))
    res = {'label': label, 'name': name, 'kind': kind, 'evaluations': 0, 'ok': 0,
           'failures': [], 'skipped': [], 'rejected': 0, 'sample': None, 'maxlen': 0}
    reject_reasons = {}
    service = kind != 'constructed'

    def fail(fkind, fcls, inp, detail):
        fname = '%s-%s' % (fkind, fcls.__name__)
        if not any(f['name'] == fname for f in res['failures']):
            res['failures'].append({'name': fname, 'input': inp[:500], 'detail': detail[:600]})

    def refused(reason):
        reject_reasons[reason] = reject_reasons.get(reason, 0) + 1
        res['rejected'] += 1

    plans = _plans(cls, n, rng)
    for plan in plans:
        try:
            v = G.gen(cls, rng, 0, MAX_DEPTH, MAX_LEN, plan=plan)
        except G.Ungeneratable as err:
            refused('not generated: %s' % (err,))
            continue
        try:
            octets, problems = _roundtrip(cls, v, service, choice, 1 + (res['evaluations'] % 255))
        except _Refused as err:
            refused(str(err))
            continue
        res['evaluations'] += 1
        if octets is not None:
            res['maxlen'] = max(res['maxlen'], len(octets))
        desc = G.describe(cls, v, 380)
        for pkind, detail in problems:
            inner = _localise(cls, v, pkind)
            if inner is not None:
                _, scls, sv, soctets, sdetail = inner
                fail(pkind, scls, '%s octets=%s' % (G.describe(scls, sv, 380), _hex(soctets or b'')[:120]),
                     sdetail + ' (met inside a %s value)' % (name,))
            else:
                fail(pkind, cls, '%s octets=%s' % (desc, _hex(octets or b'')[:120]), detail)
        if not problems:
            res['ok'] += 1
            if res['sample'] is None or (len(octets) < 24 and len(octets) > len(res['sample'][1]) // 2):
                res['sample'] = (desc[:160], _hex(octets)[:96])
    if res['evaluations'] == 0:
        reason = max(reject_reasons.items(), key=lambda kv: kv[1])[0] if reject_reasons else 'no value'
        res['skipped'].append('%s: %s' % (label, reason))
    else:
        for reason, cnt in sorted(reject_reasons.items()):
            res['skipped'].append('%s: %d of %d values %s' % (label, cnt, len(plans), reason))
    return res


# -- worked examples in the style of ASHRAE 135 Annex F (from memory, re-derived by hand from clause 20; no copy of the standard in the sandbox)

def _annex_f():
    """(name, class, octets hex, expected {attribute path: value})"""
    import bacpypes.apdu as A
    return [
        ('ReadProperty-request', A.ReadPropertyRequest, '0004010c0c0000000519' '55',
         {'objectIdentifier': ('analogInput', 5), 'propertyIdentifier': 'presentValue', 'propertyArrayIndex': None,
          'apduInvokeID': 1, 'apduMaxResp': 4, 'apduMaxSegs': 0}),
        ('ReadProperty-ack', A.ReadPropertyACK, '30010c0c0000000519' '553e44' '4290999a' '3f',
         {'objectIdentifier': ('analogInput', 5), 'propertyIdentifier': 'presentValue', 'apduInvokeID': 1}),
        ('WriteProperty-request', A.WritePropertyRequest, '0004590f0c00800001' '1955' '3e44' '43340000' '3f',
         {'objectIdentifier': ('analogValue', 1), 'propertyIdentifier': 'presentValue', 'priority': None,
          'apduInvokeID': 89}),
        ('WhoIs', A.WhoIsRequest, '1008',
         {'deviceInstanceRangeLowLimit': None, 'deviceInstanceRangeHighLimit': None}),
        ('WhoIs-range', A.WhoIsRequest, '1008' '0903' '1903',
         {'deviceInstanceRangeLowLimit': 3, 'deviceInstanceRangeHighLimit': 3}),
        ('IAm', A.IAmRequest, '1000' 'c402000003' '220400' '9103' '2163',
         {'iAmDeviceIdentifier': ('device', 3), 'maxAPDULengthAccepted': 1024,
          'segmentationSupported': 'noSegmentation', 'vendorID': 99}),
        ('WhoHas-name', A.WhoHasRequest, '1007' '3d07004f4154656d70',
         {'limits': None, 'object.objectName': 'OATemp', 'object.objectIdentifier': None}),
        ('IHave', A.IHaveRequest, '1001' 'c402000008' 'c400000003' '7507004f4154656d70',
         {'deviceIdentifier': ('device', 8), 'objectIdentifier': ('analogInput', 3), 'objectName': 'OATemp'}),
        ('DeleteObject-request', A.DeleteObjectRequest, '0004570b' 'c402c00001',
         {'objectIdentifier': ('group', 1), 'apduInvokeID': 87}),
        ('GetAlarmSummary-request', A.GetAlarmSummaryRequest, '00010103',
         {'apduInvokeID': 1, 'apduMaxResp': 1}),
        ('SubscribeCOV-request', A.SubscribeCOVRequest, '00020f05' '0912' '1c0000000a' '2901' '3900',
         {'subscriberProcessIdentifier': 18, 'monitoredObjectIdentifier': ('analogInput', 10),
          'issueConfirmedNotifications': True, 'lifetime': 0, 'apduInvokeID': 15}),
        ('TimeSynchronization', A.TimeSynchronizationRequest, '1006' 'a45c0b1102' 'b4162d1e46',
         {'time.date': (92, 11, 17, 2), 'time.time': (22, 45, 30, 70)}),
    ]


def _check_annex_f(fail, samples):
    from spec import gen_values as G
    count = 0
    for name, cls, hx, expect in _annex_f():
        octets = bytes.fromhex(hx)
        count += 1
        inp = '%s %s' % (cls.__name__, hx)
        try:
            w = G.decode_service(cls, octets)
        except Exception as err:
            fail('annexf-' + name, inp, "decode raised %s: %s" % (type(err).__name__, err))
            continue
        bad = []
        for path, val in expect.items():
            got = w
            for part in path.split('.'):
                got = getattr(got, part, None)
            if got != val:
                bad.append('%s=%r (expected %r)' % (path, got, val))
        if bad:
            fail('annexf-' + name, inp, "decoded fields differ: " + '; '.join(bad))
            continue
        try:
            octets2 = G.encode_service(w)
        except Exception as err:
            fail('annexf-' + name, inp, "re-encode raised %s: %s" % (type(err).__name__, err))
            continue
        if octets2 != octets:
            fail('annexf-' + name, inp, "re-encoded octets %s" % (octets2.hex(),))
    samples.append({'annex_f_examples': count, 'checked': 'decode -> expected fields -> identical octets'})
    return count


def run(tier, seed):
    from spec import gen_values as G
    n = N_VALUES.get(tier, N_VALUES['quick'])
    jobs = []
    for kind, entries in G.all_service_entries().items():
        for choice, cls in entries:
            jobs.append((kind, choice, cls, n, seed))
    for cls in G.all_constructed_classes():
        jobs.append(('constructed', None, cls, n, seed))

    if tier == 'thorough':
        import multiprocessing
        ctx = multiprocessing.get_context('fork')
        with ctx.Pool(8) as pool:
            results = pool.map(_check_class, jobs, chunksize=4)
    else:
        results = [_check_class(j) for j in jobs]

    failures = []
    skipped = []
    samples = []
    evaluations = 0
    covered = set()
    registered = 0
    per_kind = {}

    def fail(name, inp, detail):
        if not any(f['name'] == name for f in failures):
            failures.append({'name': name, 'input': inp[:500], 'detail': detail})

    for r in results:
        evaluations += r['evaluations']
        if r['evaluations']:
            covered.add(r['name'])
            if r['kind'] != 'constructed':
                registered += 1
            k = per_kind.setdefault(r['kind'], [0, 0])
            k[0] += 1
            k[1] += r['evaluations']
        for f in r['failures']:
            fail(f['name'], f['input'], f['detail'])
        skipped.extend(r['skipped'])
        if r['sample'] is not None and len(samples) < 6 and r['kind'] != 'constructed' and r['name'] in (
                'ReadPropertyACK', 'WhoIsRequest', 'SubscribeCOVRequest', 'Error', 'ReadRangeRequest', 'IAmRequest'):
            samples.append({'class': r['label'], 'value': r['sample'][0], 'octets': r['sample'][1]})

    evaluations += _check_annex_f(fail, samples)
    samples.append({'classes_per_kind': {k: v[0] for k, v in per_kind.items()},
                    'round_trips_per_kind': {k: v[1] for k, v in per_kind.items()},
                    'registered_service_entries_covered': registered,
                    'longest_encoding_octets': max(r['maxlen'] for r in results)})

    rule = ("round trip encode -> decode -> equal normal form and dict_contents -> identical re-encoding for "
            "%d registered service entries (27 confirmed, 12 complex ack, 11 unconfirmed, 8 error) and %d "
            "constructed types of basetypes/apdu; %d values per class (all alternatives of a Choice, all "
            "presence masks of <= log2(N) optionals, else none/all/random), list lengths 0..%d, nesting <= %d, "
            "boundary atomic values; plus 12 exact-octet vectors in the style of Annex F (hand-derived, no copy of the standard available); random.Random(seed=%r)"
            % (sum(1 for j in jobs if j[0] != 'constructed'), sum(1 for j in jobs if j[0] == 'constructed'),
               n, MAX_LEN, MAX_DEPTH, seed))
    return {
        'evaluations': evaluations,
        'distinct_nontrivial': len(covered),
        'rule': rule,
        'samples': samples,
        'failures': failures,
        'exhaustive': False,
        'skipped': skipped,
    }
