"""
C11 bounded stage: several real stacks (one requester and up to four peers, or
several requesters and one server) on the faulty wire of bounded/ssm_sim.py,
many requests outstanding at once.

Every request carries a serial number in its first four octets; the serving
application echoes it in the answer.  Checked on every run: a request gets an
invoke ID no other live request to the same peer uses (an application-chosen
ID is refused exactly when it is in use); every confirmation carries the
answer to the request it is given to (kind and payload), backed by a genuine
frame from that peer with that ID; forged, foreign, duplicate and late replies
change nothing; the serving application is handed a request once while it is
processing it; equal IDs from different peers are served independently;
exactly one outcome per request.
"""
import random

from bounded import ssm_sim as S


def many(rng, npeers, nreq, faults=0, chosen=False, base=None, spread=0.004, delays=(0, 0.2, 0.7, 1.3), sizes=(10, 10, 60, 200)):
    """one requester (node 1), npeers serving peers, nreq requests outstanding together"""
    c = dict(maxApdu=50, win=rng.randint(1, 4))
    c.update(base or {})
    nodes = {1: S.cfg(**c)}
    know = {}
    for p in range(2, 2 + npeers):
        nodes[p] = S.cfg(**c)
        know[(1, p)] = True
        know[(p, 1)] = True
    reqs = []
    for k in range(nreq):
        p = 2 + rng.randrange(npeers)
        r = dict(t=rng.random() * spread, c=1, s=p, n=rng.choice((4, 10, 44, 100)), inv=None,
                 resp=rng.choice((('complex', rng.choice(sizes)), ('complex', 10), ('error',))), delay=rng.choice(delays))
        if chosen and rng.random() < 0.4:
            r['inv'] = rng.choice((1, 2, 3, 7, 255, 0))
        reqs.append(r)
    reqs.sort(key=lambda r: r['t'])
    scn = dict(nodes=nodes, know=know, reqs=reqs, serials=True)
    if faults:
        scn['faults'] = S.random_faults(rng, 6 * nreq, faults)
    return scn


def servers_one(rng, nclients, inv, faults=0):
    """several requesters use the SAME invoke ID toward one server (node 1)"""
    nodes = {1: S.cfg(maxApdu=50)}
    know = {}
    reqs = []
    for c in range(2, 2 + nclients):
        nodes[c] = S.cfg(maxApdu=50)
        know[(c, 1)] = True
        know[(1, c)] = True
        for j in range(rng.randint(1, 2)):
            reqs.append(dict(t=rng.random() * 0.003 + j * 3.0, c=c, s=1, n=rng.choice((4, 30, 100)), inv=inv,
                             resp=('complex', rng.choice((10, 100, 200))), delay=rng.choice((0, 0.3, 1.0))))
    reqs.sort(key=lambda r: r['t'])
    scn = dict(nodes=nodes, know=know, reqs=reqs, serials=True)
    if faults:
        scn['faults'] = S.random_faults(rng, 8 * len(reqs), faults)
    return scn


def wrap(rng, total, live, faults=0):
    """more than 256 requests in sequence to one peer while `live` slow ones stay outstanding"""
    nodes = {1: S.cfg(maxApdu=128, apduT=6000, retries=0), 2: S.cfg(maxApdu=128, appT=60000)}
    reqs = []
    slow = set(rng.sample(range(0, total - 5), live))
    for k in range(total):
        if k in slow:
            reqs.append(dict(t=k * 0.004, c=1, s=2, n=8, inv=None, resp=('complex', 12), delay=rng.choice((1.2, 2.0, 3.0))))
        else:
            reqs.append(dict(t=k * 0.004, c=1, s=2, n=8, inv=None, resp=rng.choice((('complex', 9), ('error',))), delay=0))
    scn = dict(nodes=nodes, know={(1, 2): True, (2, 1): True}, reqs=reqs, serials=True)
    if faults:
        scn['faults'] = S.random_faults(rng, 2 * total, faults)
    return scn


def forged(rng, variant):
    """a live request (1 -> 2, answered after 1 s with a complex ack) while forged / foreign / stale frames arrive"""
    big = variant % 2 == 1
    nodes = {1: S.cfg(maxApdu=50), 2: S.cfg(maxApdu=50), 3: S.cfg(maxApdu=50)}
    reqs = [dict(t=0.0, c=1, s=2, n=100 if big else 10, inv=None, resp=('complex', 100 if big else 10), delay=1.0),
            dict(t=0.0001, c=1, s=3, n=10, inv=5, resp=('complex', 20), delay=1.5)]
    inj = []
    other = S.payload(10, 0x999999)
    when = (0.0005, 0.0105, 0.5, 1.0015, 1.0035, 1.2, 1.6)
    for t in when:
        for frm in (9, 3, 2):
            for inv in (1, 5, 2):
                if (frm, inv) in ((2, 1), (3, 5)):
                    continue        # that would be the genuine peer with the genuine ID
                inj.append((t, 1, frm, bytes([0x20, inv, 0])))                      # simple ack
                inj.append((t, 1, frm, bytes([0x30, inv, 0]) + other))              # complex ack, other content
                inj.append((t, 1, frm, bytes([0x3C, inv, 0, 2, 0]) + other))        # first segment of a complex ack
                inj.append((t, 1, frm, bytes([0x50, inv, 0]) + other[:6]))          # error
                inj.append((t, 1, frm, bytes([0x60, inv, 4])))                      # reject
                inj.append((t, 1, frm, bytes([0x71, inv, 0])))                      # abort from "server"
                inj.append((t, 1, frm, bytes([0x41, inv, 0, 2])))                   # segment ack
                # toward the server: aborts and segment acks for its live transaction from strangers / other IDs
                if frm != 1:
                    inj.append((t, 2, 9 if frm == 2 else frm, bytes([0x70, inv, 0])))
                    inj.append((t, 2, 9 if frm == 2 else frm, bytes([0x40, inv, 0, 2])))
    rng.shuffle(inj)
    inj = sorted(inj[:(len(inj) if variant < 2 else 40)], key=lambda x: x[0])
    return dict(nodes=nodes, know={(1, 2): True, (2, 1): True, (1, 3): True, (3, 1): True}, reqs=reqs, inject=inj, serials=True)


def retransmit(rng, variant):
    """the answer takes longer than the requester's timeout: retransmissions reach a busy server"""
    apduT = (400, 700, 1000)[variant % 3]
    nodes = {1: S.cfg(maxApdu=50, apduT=apduT, retries=3), 2: S.cfg(maxApdu=50), 3: S.cfg(maxApdu=50, apduT=apduT, retries=3)}
    n = (10, 100)[variant // 3 % 2]
    reqs = [dict(t=0.0, c=1, s=2, n=n, inv=5, resp=('complex', 10), delay=apduT / 1000.0 * 2.5),
            dict(t=0.0002, c=3, s=2, n=n, inv=5, resp=('complex', 10), delay=apduT / 1000.0 * 1.5)]
    return dict(nodes=nodes, know={(1, 2): True, (2, 1): True, (3, 2): True, (2, 3): True}, reqs=reqs, serials=True)


def late_duplicates(rng, variant):
    """every reply is duplicated late, after its transaction completed: with stack-chosen IDs while following requests are
    live under other IDs, with an application-chosen ID before that ID is used again"""
    nodes = {1: S.cfg(maxApdu=50), 2: S.cfg(maxApdu=50)}
    chosen = variant % 2 == 1
    reqs = [dict(t=k * 0.5, c=1, s=2, n=10, inv=(7 if chosen else None), resp=('complex', 10 + k if variant < 2 else 100 + k)) for k in range(6)]
    scn = dict(nodes=nodes, know={(1, 2): True, (2, 1): True}, reqs=reqs, serials=True)
    ff = S.fault_free_frames(scn)
    gaps = (0.1, 0.3, 0.45) if chosen else (0.5, 1.0, 0.4995, 0.5005)
    scn['faults'] = {f['i']: [('dup', rng.choice(gaps))] for f in ff.frames if f['src'] == 2}
    return scn


def scenarios(tier, seed):
    rng = random.Random(seed)
    q = tier == 'quick'
    items = []
    for npeers in (1, 2, 3, 4):
        for nreq in (1, 2, 3, 5, 8, 13, 20, 40):
            for rep in range(2 if q else 12):
                items.append(many(rng, npeers, nreq))
                items.append(many(rng, npeers, nreq, faults=rng.randint(1, 6)))
                items.append(many(rng, npeers, nreq, chosen=True, faults=rng.choice((0, 0, 3))))
    for nclients in (2, 3, 4):
        for inv in (0, 1, 7, 255):
            for rep in range(2 if q else 10):
                items.append(servers_one(rng, nclients, inv, faults=rep % 2 * 3))
    for total, live in ((260, 0), (300, 3), (520, 10)) if q else ((257, 0), (260, 1), (300, 3), (520, 10), (800, 30), (1030, 40)):
        items.append(wrap(rng, total, live))
        items.append(wrap(rng, total, live, faults=10))
    for v in range(4 if q else 12):
        items.append(forged(rng, v))
    for v in range(6):
        items.append(retransmit(rng, v))
    for v in range(4):
        items.append(late_duplicates(rng, v))
    return [('c11', scn, None) for scn in items]


def run(tier, seed):
    col = S.Collector()
    items = scenarios(tier, seed)
    S.run_items(col, items, workers=1 if tier == 'quick' else 8)
    nreq = sum(len(i[1]['reqs']) for i in items)
    samples = [S.describe(items[i][1]) for i in (0, len(items) // 2, len(items) - 1)]
    return {'evaluations': nreq, 'distinct_nontrivial': len(col.shapes),
            'rule': "%d scenarios, %d requests: 1..40 requests outstanding together from one requester over 1..4 peers (stack-chosen and application-chosen invoke IDs, "
                    "answers delayed so that they interleave, random faults); 2..4 requesters with one forced invoke ID toward one server; 257..%d requests in sequence with "
                    "slow ones outstanding across the wrap-around; forged / foreign / wrong-ID frames of every type injected at seven points of two live transactions; "
                    "retransmissions into a busy server; late duplicates of every reply while the ID is reused; evaluations = requests; distinct = distinct run shapes"
                    % (len(items), nreq, 520 if tier == 'quick' else 1030),
            'samples': samples, 'failures': col.failures(), 'exhaustive': False}


if __name__ == '__main__':
    import sys, time, json
    t = time.time()
    r = run(sys.argv[1] if len(sys.argv) > 1 else 'quick', 1)
    print(json.dumps({k: v for k, v in r.items() if k != 'failures'}, indent=1)[:1200])
    for f in r['failures']:
        print('-', f['name'], '|', f['input'], '|', f['detail'][:2500])
    print('%.1f s' % (time.time() - t))
