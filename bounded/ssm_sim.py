"""
Deterministic discrete-event simulation of real bacpypes application-layer
stacks (StateMachineAccessPoint + DeviceInfoCache, real TaskManager on a
virtual clock) joined by a fault-injecting wire.  Shared by the bounded stages
of C04, C05, C11 and C12.

A *scenario* is a plain dict:

  nodes    {n: cfg}        cfg: retries, apduT, segT (ms), seg, maxApdu, maxSegs, win, appT
  know     {(a, b): True | {overrides}}   node a holds device information about b (as from b's I-Am)
  reqs     [req]           req: t, c (client), s (server), n (request octets), inv (None = stack chooses),
                                resp ('simple',) ('complex', n) ('error',) ('reject',) ('abort',) ('never',), delay (s)
  faults   {frame index: [('drop',) | ('dup', gap) | ('delay', d)]}
  silence  (k, who)        every frame with index >= k is lost (who = None: all, else only frames sent by node who)
  inject   [(t, to, frm, octets)]   forged frames handed to node `to` as coming from station `frm`

The wire numbers every frame in emission order; the fault plan addresses these
numbers.  Everything observable is logged: frames (decoded by an independent
header parser), indications at the serving application, confirmations at the
requesting application, exceptions escaping a delivery / timer / submission.
"""
import itertools
import traceback

import bacpypes.task as T
from bacpypes.appservice import StateMachineAccessPoint
from bacpypes.app import DeviceInfoCache
from bacpypes.comm import bind, Server, ApplicationServiceElement
from bacpypes.pdu import Address, PDU
from bacpypes.apdu import APDU, ConfirmedRequestPDU, SimpleAckPDU, ComplexAckPDU, ErrorPDU, \
    RejectPDU, AbortPDU, IAmRequest, encode_max_segments_accepted

LATENCY = 0.001
MAXAPDU = (50, 128, 206, 480, 1024, 1476)
MAXSEGS_DECODE = [None, 2, 4, 8, 16, 32, 64, None]
SEGS = ('noSegmentation', 'segmentedTransmit', 'segmentedReceive', 'segmentedBoth')
TYPE = {0: 'CR', 1: 'UR', 2: 'SA', 3: 'CA', 4: 'SEGACK', 5: 'ERR', 6: 'REJ', 7: 'ABORT'}

DEFAULT_CFG = dict(retries=3, apduT=3000, segT=1500, seg='segmentedBoth', maxApdu=1024, maxSegs=None, win=2, appT=3000)


def cfg(**kw):
    d = dict(DEFAULT_CFG)
    d.update(kw)
    return d


def payload(n, tag):
    """n octets, distinct for distinct tags, without short periods (so that a lost, repeated or
    misplaced segment of any size changes the content); the first 4 octets carry the tag"""
    out = bytearray(n)
    x = (tag * 2654435761 + 12345) & 0xFFFFFFFF
    for i in range(n):
        x = (x * 1103515245 + 12345) & 0x7FFFFFFF
        out[i] = (x >> 16) & 0xFF
    head = tag.to_bytes(4, 'big')
    out[:min(4, n)] = head[:min(4, n)]
    return bytes(out)


def parse_frame(b):
    """independent parse of the fixed APDU header (clause 20.1)"""
    f = dict(type=None, seg=False, mor=False, sa=False, maxsegs=None, maxresp=None, id=None, seq=None, win=None,
             nak=False, srv=False, service=None, reason=None, data=b'', length=len(b))
    if not b:
        return f
    t = b[0] >> 4
    f['type'] = t
    try:
        if t == 0:
            f['seg'], f['mor'], f['sa'] = bool(b[0] & 8), bool(b[0] & 4), bool(b[0] & 2)
            f['maxsegs'], f['maxresp'], f['id'] = (b[1] >> 4) & 7, b[1] & 15, b[2]
            p = 3
            if f['seg']:
                f['seq'], f['win'] = b[3], b[4]
                p = 5
            f['service'] = b[p]
            f['data'] = bytes(b[p + 1:])
        elif t == 1:
            f['service'] = b[1]
            f['data'] = bytes(b[2:])
        elif t == 2:
            f['id'], f['service'] = b[1], b[2]
        elif t == 3:
            f['seg'], f['mor'] = bool(b[0] & 8), bool(b[0] & 4)
            f['id'] = b[1]
            p = 2
            if f['seg']:
                f['seq'], f['win'] = b[2], b[3]
                p = 4
            f['service'] = b[p]
            f['data'] = bytes(b[p + 1:])
        elif t == 4:
            f['nak'], f['srv'] = bool(b[0] & 2), bool(b[0] & 1)
            f['id'], f['seq'], f['win'] = b[1], b[2], b[3]
        elif t == 5:
            f['id'], f['service'] = b[1], b[2]
            f['data'] = bytes(b[3:])
        elif t == 6:
            f['id'], f['reason'] = b[1], b[2]
        elif t == 7:
            f['srv'] = bool(b[0] & 1)
            f['id'], f['reason'] = b[1], b[2]
    except IndexError:
        f['type'] = None
    return f


def fmt_frame(f):
    s = "#%d t=%.4f %d>%d %s id=%s" % (f['i'], f['t'], f['src'], f['dst'], TYPE.get(f['type'], '?'), f['id'])
    if f['seg'] or f['type'] == 4:
        s += " seq=%s win=%s" % (f['seq'], f['win'])
    if f['seg']:
        s += " mor=%d" % f['mor']
    if f['type'] == 0:
        s += " sa=%d ms=%d mr=%d" % (f['sa'], f['maxsegs'], f['maxresp'])
    if f['type'] == 4:
        s += " nak=%d srv=%d" % (f['nak'], f['srv'])
    if f['type'] in (6, 7):
        s += " reason=%s" % f['reason']
    s += " len=%d" % f['length']
    if f['fate'] != 'ok':
        s += " [%s]" % f['fate']
    return s


class _Fn(T.OneShotDeleteTask):
    def __init__(self, what, fn, *args):
        T.OneShotDeleteTask.__init__(self)
        self.what, self.fn, self.args = what, fn, args

    def process_task(self):
        self.fn(*self.args)


class Port(Server):
    """what sits below a stack: takes every APDU it sends to the wire"""

    def __init__(self, sim, n):
        Server.__init__(self)
        self.sim, self.n = sim, n

    def indication(self, apdu):
        self.sim.emit(self.n, apdu)


class App(ApplicationServiceElement):
    """requesting and serving application on top of one stack"""

    def __init__(self, sim, n):
        ApplicationServiceElement.__init__(self)
        self.sim, self.n = sim, n

    # -- serving side: requests (and abort notices) coming up
    def indication(self, apdu):
        sim = self.sim
        if isinstance(apdu, AbortPDU):
            sim.notices.append(dict(ev=next(sim.evc), t=sim.now, node=self.n, src=_st(apdu.pduSource), id=apdu.apduInvokeID, reason=apdu.apduAbortRejectReason))
            return
        if not isinstance(apdu, ConfirmedRequestPDU):
            sim.oddities.append(('odd-indication', "%r at node %d" % (apdu, self.n)))
            return
        data = bytes(apdu.pduData)
        src = _st(apdu.pduSource)
        rec = sim.find_request(src, self.n, apdu.apduInvokeID, data)
        ind = dict(t=sim.now, node=self.n, src=src, id=apdu.apduInvokeID, service=apdu.apduService, data=data,
                   rec=rec, answered=None, seg=apdu.apduSeg, ev=next(sim.evc))
        sim.indications.append(ind)
        if rec is None:
            return
        resp = rec['resp']
        if resp[0] == 'never':
            return
        delay = rec.get('delay', 0)
        if delay:
            task = _Fn('answer', self.answer, ind, apdu.pduSource, apdu.apduInvokeID, apdu.apduService, rec)
            task.install_task(delta=delay)
        else:
            self.answer(ind, apdu.pduSource, apdu.apduInvokeID, apdu.apduService, rec)

    def answer(self, ind, dest, invoke, service, rec):
        kind = rec['resp'][0]
        if kind == 'simple':
            r = SimpleAckPDU(service, invoke)
        elif kind == 'complex':
            r = ComplexAckPDU(service, invoke)
            r.put_data(rec['resp_payload'])
        elif kind == 'error':
            r = ErrorPDU(service, invoke)
            r.put_data(rec['err_payload'])
        elif kind == 'reject':
            r = RejectPDU(invoke, 4)
        elif kind == 'abort':
            r = AbortPDU(True, invoke, 9)
        else:
            raise RuntimeError(kind)
        r.pduDestination = dest
        ind['answered'] = self.sim.now
        self.response(r)

    # -- requesting side: outcomes coming up
    def confirmation(self, apdu):
        sim = self.sim
        src = _st(apdu.pduSource)
        kind = {SimpleAckPDU.pduType: 'simple', ComplexAckPDU.pduType: 'complex', ErrorPDU.pduType: 'error',
                RejectPDU.pduType: 'reject', AbortPDU.pduType: 'abort'}.get(apdu.apduType, 'other-%r' % (apdu.apduType,))
        out = dict(t=sim.now, node=self.n, src=src, id=apdu.apduInvokeID, kind=kind, data=bytes(apdu.pduData),
                   reason=apdu.apduAbortRejectReason, srv=apdu.apduSrv, nframes=len(sim.frames), ev=next(sim.evc))
        sim.outcomes.append(out)
        # the request it belongs to: the newest one of this application to that peer with that invoke ID
        rec = None
        for r in reversed(sim.records):
            if r['c'] == self.n and r['s'] == src and r['submitted'] is not None and r['refused'] is None and r['apdu'].apduInvokeID == apdu.apduInvokeID:
                rec = r
                break
        out['rec'] = rec
        if rec is None:
            sim.oddities.append(('unsolicited-confirmation', "node %d got %s id=%r from %r, never asked" % (self.n, kind, apdu.apduInvokeID, src)))
        else:
            rec['outcomes'].append(out)


def _st(addr):
    try:
        return addr.addrAddr[0]
    except Exception:
        return None


class Sim:
    def __init__(self, scn):
        self.scn = scn
        self.now = 0.0
        self.frames = []
        self.deliveries = []        # (t, frame record) of every frame actually handed to a stack
        self.indications = []
        self.outcomes = []
        self.notices = []
        self.oddities = []
        self.exceptions = []
        self.records = []
        self.nodes = {}
        self.quiescent = False
        self.limit = None
        self.evc = itertools.count()
        self.runaway = False
        self.frame_cap = 10 ** 6

    # ---------------------------------------------------------------- set-up
    def build(self):
        scn = self.scn
        m = object.__new__(T.TaskManager)
        m.tasks, m.trigger, m.counter = [], None, itertools.count()
        T._task_manager = m
        T._unscheduled_tasks[:] = []
        T._time = lambda: self.now
        self.tm = m
        for n, c in scn['nodes'].items():
            sap = StateMachineAccessPoint(None, DeviceInfoCache())
            sap.numberOfApduRetries = c['retries']
            sap.apduTimeout = c['apduT']
            sap.segmentTimeout = c['segT']
            sap.segmentationSupported = c['seg']
            sap.maxApduLengthAccepted = c['maxApdu']
            sap.maxSegmentsAccepted = c['maxSegs']
            sap.proposedWindowSize = c['win']
            sap.applicationTimeout = c['appT']
            app = App(self, n)
            port = Port(self, n)
            bind(app, sap)
            bind(sap, port)
            self.nodes[n] = dict(sap=sap, app=app, port=port, cfg=c)
        for (a, b), v in scn.get('know', {}).items():
            pc = dict(scn['nodes'][b]) if b in scn['nodes'] else cfg()
            if isinstance(v, dict):
                pc.update(v)
            iam = IAmRequest(iAmDeviceIdentifier=('device', 1000 + b), maxAPDULengthAccepted=pc['maxApdu'],
                             segmentationSupported=pc['seg'], vendorID=15)
            iam.pduSource = Address(b)
            cache = self.nodes[a]['sap'].deviceInfoCache
            cache.iam_device_info(iam)
            info = cache.get_device_info(Address(b))
            if info is None:
                self.oddities.append(('device-info-not-stored', "I-Am of %d not retrievable at %d" % (b, a)))
            else:
                if pc['seg'] in ('segmentedReceive', 'segmentedBoth'):
                    info.maxSegmentsAccepted = pc['maxSegs']
                cache.update_device_info(info)
        for k, r in enumerate(scn['reqs']):
            rec = dict(r)
            rec['k'] = k
            rec['serial'] = rec.get('serial', k + 1)
            rec['req_payload'] = payload(rec['n'], rec['serial'])
            rec['resp_payload'] = payload(rec['resp'][1], rec['serial'] + 0x10000) if rec['resp'][0] == 'complex' else b''
            rec['err_payload'] = payload(6, rec['serial'] + 0x20000)
            rec.update(submitted=None, refused=None, outcomes=[], apdu=None)
            self.records.append(rec)
            _Fn('submit', self.submit, rec).install_task(when=rec.get('t', 0.0))
        for (t, to, frm, octets) in scn.get('inject', []):
            _Fn('inject', self.inject, to, frm, octets).install_task(when=t)

    def submit(self, rec):
        apdu = ConfirmedRequestPDU(rec.get('service', rec['k'] % 200))
        apdu.pduDestination = Address(rec['s'])
        apdu.put_data(rec['req_payload'])
        if rec.get('inv') is not None:
            apdu.apduInvokeID = rec['inv']
        rec['apdu'] = apdu
        rec['submitted'] = self.now
        rec['live_before'] = [r for r in self.records if r is not rec and r['submitted'] is not None and r['refused'] is None
                              and not r['outcomes'] and r['c'] == rec['c'] and r['s'] == rec['s']]
        try:
            self.nodes[rec['c']]['app'].request(apdu)
        except RuntimeError as e:
            if str(e) in ('invoke ID in use', 'no available invoke ID'):
                rec['refused'] = str(e)
            else:
                raise

    def find_request(self, src, server, invoke, data):
        if self.scn.get('serials') and len(data) >= 4:
            serial = int.from_bytes(data[:4], 'big')
            for r in self.records:
                if r['serial'] == serial:
                    return r
        for r in reversed(self.records):
            if r['c'] == src and r['s'] == server and r['submitted'] is not None and r['refused'] is None and r['apdu'].apduInvokeID == invoke:
                return r
        return None

    # ---------------------------------------------------------------- the wire
    def emit(self, n, apdu):
        g = APDU()
        apdu.encode(g)
        pdu = PDU()
        g.encode(pdu)
        octets = bytes(pdu.pduData)
        f = parse_frame(octets)
        dst = _st(apdu.pduDestination)
        idx = len(self.frames)
        f.update(i=idx, t=self.now, src=n, dst=dst, octets=octets, fate='ok', ev=next(self.evc))
        self.frames.append(f)
        ops = list(self.scn.get('faults', {}).get(idx, ()))
        sil = self.scn.get('silence')
        if sil is not None and idx >= sil[0] and (sil[1] is None or sil[1] == n):
            ops = [('drop',)]
        if dst not in self.nodes:
            f['fate'] = 'nowhere'
            return
        if not ops:
            self.schedule_delivery(f, LATENCY)
            return
        f['fate'] = '+'.join('%s%s' % (o[0], ('(%g)' % o[1]) if len(o) > 1 else '') for o in ops)
        if any(o[0] == 'drop' for o in ops):
            return
        extra = sum(o[1] for o in ops if o[0] == 'delay')
        self.schedule_delivery(f, LATENCY + extra)
        for o in ops:
            if o[0] == 'dup':
                self.schedule_delivery(f, LATENCY + extra + o[1])

    def schedule_delivery(self, f, after):
        _Fn('deliver', self.deliver, f).install_task(delta=after)

    def deliver(self, f):
        self.deliveries.append((next(self.evc), self.now, f))
        x = APDU()
        x.decode(PDU(f['octets'], source=Address(f['src']), destination=Address(f['dst'])))
        self.nodes[f['dst']]['sap'].confirmation(x)

    def inject(self, to, frm, octets):
        f = parse_frame(octets)
        f.update(i=-1, t=self.now, src=frm, dst=to, octets=octets, fate='forged', ev=-1)
        self.deliveries.append((next(self.evc), self.now, f))
        x = APDU()
        x.decode(PDU(octets, source=Address(frm), destination=Address(to)))
        self.nodes[to]['sap'].confirmation(x)

    # ---------------------------------------------------------------- the loop
    def run(self, limit):
        self.limit = limit
        tm = self.tm
        steps = 0
        while True:
            task, delta = tm.get_next_task()
            if task:
                steps += 1
                if len(self.frames) > self.frame_cap:
                    self.runaway = True
                    break
                try:
                    tm.process_task(task)
                except Exception as e:
                    what = getattr(task, 'what', 'timer of ' + type(task).__name__)
                    if what == 'deliver':
                        what = 'delivery of ' + fmt_frame(task.args[0])
                    tb = traceback.format_exc().strip().splitlines()
                    self.exceptions.append(dict(t=self.now, type=type(e).__name__, what=what, msg=str(e),
                                                tail=' | '.join(x.strip() for x in tb[-5:])))
                continue
            if delta is None:
                self.quiescent = True
                break
            nxt = tm.tasks[0][0]
            if nxt > limit:
                break
            self.now = max(self.now, nxt)
        self.steps = steps
        return self

    def frame_log(self, lo=0, hi=None, only=None):
        fs = self.frames[lo:hi]
        if only is not None:
            fs = [f for f in fs if only(f)]
        return '; '.join(fmt_frame(f) for f in fs)


def frame_cap(scn):
    """far more frames than any retransmission schedule can produce: stops a transfer that never ends"""
    cap = 200 + 40 * len(scn.get('inject', ()))
    for r in scn['reqs']:
        c, s = scn['nodes'][r['c']], scn['nodes'].get(r['s'], cfg())
        R = max(c['retries'], s['retries'])
        small = max(1, min(c['maxApdu'], s['maxApdu']) - 6)
        nseg = r['n'] // small + (r['resp'][1] // small if r['resp'][0] == 'complex' else 0) + 8
        cap += 3 * (R + 1) * (R + 1) * nseg
    return cap


def time_limit(scn):
    """generous virtual-time limit for a scenario (seconds)"""
    worst = 0.0
    for r in scn['reqs']:
        c, s = scn['nodes'][r['c']], scn['nodes'].get(r['s'], cfg())
        R = max(c['retries'], s['retries'])
        small = max(1, min(c['maxApdu'], s['maxApdu']) - 6)
        nseg = r['n'] // small + (r['resp'][1] // small if r['resp'][0] == 'complex' else 0) + 4
        segT = max(c['segT'], s['segT']) / 1000.0
        one = (R + 1) * (max(c['apduT'], s['apduT']) / 1000.0 + s['appT'] / 1000.0 + nseg * (R + 1) * segT)
        worst = max(worst, r.get('t', 0.0) + r.get('delay', 0) + one)
    extra = 0.0
    for ops in scn.get('faults', {}).values():
        extra += sum(o[1] for o in ops if len(o) > 1)
    return worst + extra + 1.0


def simulate(scn):
    saved = (T._task_manager, T._time, list(T._unscheduled_tasks))
    try:
        sim = Sim(scn)
        sim.build()
        sim.bound = time_limit(scn)
        sim.frame_cap = frame_cap(scn)
        sim.run(sim.bound * 2)
        return sim
    finally:
        T._task_manager, T._time = saved[0], saved[1]
        T._unscheduled_tasks[:] = saved[2]


def describe(scn):
    """compact repr of a scenario"""
    d0 = DEFAULT_CFG
    parts = []
    for n, c in sorted(scn['nodes'].items()):
        diff = ','.join('%s=%s' % (k, c[k]) for k in ('maxApdu', 'seg', 'maxSegs', 'win', 'retries', 'apduT', 'segT', 'appT') if c[k] != d0[k])
        parts.append('n%d(%s)' % (n, diff))
    if scn.get('know'):
        parts.append('know=' + ','.join('%d>%d%s' % (a, b, '' if v is True else repr(v)) for (a, b), v in sorted(scn['know'].items())))
    rq = scn['reqs']
    show = rq if len(rq) <= 4 else rq[:3]
    for r in show:
        s = 'req(%d>%d n=%d resp=%s' % (r['c'], r['s'], r['n'], '/'.join(map(str, r['resp'])))
        if r.get('inv') is not None:
            s += ' inv=%d' % r['inv']
        if r.get('t'):
            s += ' t=%g' % r['t']
        if r.get('delay'):
            s += ' delay=%g' % r['delay']
        parts.append(s + ')')
    if len(rq) > 4:
        parts.append('...%d reqs' % len(rq))
    if scn.get('faults'):
        parts.append('faults=' + ','.join('%d:%s' % (i, '+'.join(o[0] + ('(%g)' % o[1] if len(o) > 1 else '') for o in ops)) for i, ops in sorted(scn['faults'].items())))
    if scn.get('silence') is not None:
        parts.append('silence_from=%d%s' % (scn['silence'][0], '' if scn['silence'][1] is None else '(node %d only)' % scn['silence'][1]))
    if scn.get('inject'):
        parts.append('inject=' + ','.join('t=%g %d>%d %s' % (t, frm, to, o.hex()) for t, to, frm, o in scn['inject'][:4]))
    return ' '.join(parts)[:500]


def size_of(scn):
    nf = sum(len(o) for o in scn.get('faults', {}).values()) + (1 if scn.get('silence') is not None else 0) + len(scn.get('inject', ()))
    tot = sum(r['n'] + (r['resp'][1] if r['resp'][0] == 'complex' else 0) for r in scn['reqs'])
    return (nf, len(scn['reqs']), len(scn['nodes']), tot, len(describe(scn)))


# ======================================================================================
# checks.  Each returns a list of (kind, detail); `kind` is the short id of the failure.
# ======================================================================================

def _rec_for_frame(sim, client, server, invoke, t):
    """the request (record) a frame with this (client, server, invoke id) belongs to"""
    best = None
    for r in sim.records:
        if r['c'] == client and r['s'] == server and r['submitted'] is not None and r['refused'] is None \
                and r['submitted'] <= t and r['apdu'].apduInvokeID == invoke:
            best = r
    return best


def _excerpt(sim, pred=None, n=14):
    fs = [f for f in sim.frames if pred is None or pred(f)]
    if len(fs) > n:
        head = fs[:n // 2]
        tail = fs[-(n - n // 2):]
        return '; '.join(fmt_frame(f) for f in head) + ' ; ... ; ' + '; '.join(fmt_frame(f) for f in tail)
    return '; '.join(fmt_frame(f) for f in fs)


def _slug(msg):
    import re
    w = re.findall(r"[A-Za-z0-9]+", msg)[:4]
    return ('-' + '-'.join(w).lower()) if w else ''


def check_exceptions(sim):
    out = []
    for e in sim.exceptions:
        out.append(('exception-' + e['type'] + _slug(e['msg']), "%s raised out of %s at t=%.4f: %s [%s]; frames: %s" %
                    (e['type'], e['what'], e['t'], e['msg'], e['tail'], _excerpt(sim))))
    for k, d in sim.oddities:
        out.append((k, d))
    if sim.runaway:
        out.append(('runaway-traffic', "more than %d frames on the wire at t=%.3f and no end (stopped by the harness); last frames: %s" %
                    (sim.frame_cap, sim.now, '; '.join(fmt_frame(f) for f in sim.frames[-8:]))))
    return out


def check_c04(sim):
    """exactly one outcome, in time, no residue, nothing sent afterwards"""
    out = check_exceptions(sim)
    if not sim.quiescent and not sim.runaway:
        out.append(('no-quiescence', "tasks still scheduled at the time limit %.1f s: %r; frames: %s" %
                    (sim.limit, [type(t[2]).__name__ for t in sim.tm.tasks[:5]], _excerpt(sim))))
    for rec in sim.records:
        if rec['submitted'] is None or rec['refused'] is not None:
            continue
        c, s, inv = rec['c'], rec['s'], rec['apdu'].apduInvokeID
        mine = lambda f, c=c, s=s, inv=inv: f['id'] == inv and {f['src'], f['dst']} == {c, s}
        outs = rec['outcomes']
        if not outs:
            out.append(('no-outcome', "request #%d (%d>%d id=%r) submitted at %.4f never got a confirmation (%s); frames: %s" %
                        (rec['k'], c, s, inv, rec['submitted'], 'quiescent at %.4f' % sim.now if sim.quiescent else 'limit reached', _excerpt(sim, mine))))
            continue
        if len(outs) > 1:
            out.append(('second-outcome', "request #%d (%d>%d id=%r) got %d confirmations: %s; frames: %s" %
                        (rec['k'], c, s, inv, len(outs), [(o['kind'], round(o['t'], 4), o['reason']) for o in outs], _excerpt(sim, mine))))
        o = outs[0]
        if o['t'] - rec['submitted'] > sim.bound:
            out.append(('outcome-late', "request #%d outcome %s after %.3f s, bound %.3f s" % (rec['k'], o['kind'], o['t'] - rec['submitted'], sim.bound)))
        if o['kind'] in ('simple', 'complex', 'error', 'reject') or (o['kind'] == 'abort' and o['srv']):
            want = {'simple': 2, 'complex': 3, 'error': 5, 'reject': 6, 'abort': 7}[o['kind']]
            if not any(ev < o['ev'] and f['dst'] == c and f['src'] == s and f['type'] == want and f['id'] == inv for ev, t, f in sim.deliveries):
                out.append(('outcome-without-reply', "request #%d got %s although no such frame from %d with id %r was delivered before; frames: %s" %
                            (rec['k'], o['kind'], s, inv, _excerpt(sim, mine))))
        # nothing more on the wire for it from the requesting stack
        nxt = min([r['submitted'] for r in sim.records if r is not rec and r['submitted'] is not None and r['refused'] is None
                   and r['c'] == c and r['s'] == s and r['apdu'].apduInvokeID == inv and r['submitted'] >= o['t']] or [float('inf')])
        later = [f for f in sim.frames[o['nframes']:] if f['src'] == c and f['dst'] == s and f['id'] == inv and f['t'] < nxt
                 and (f['type'] == 0 or (f['type'] in (4, 7) and not f['srv']))]
        if later:
            out.append(('frame-after-outcome', "request #%d: outcome %s delivered at %.4f, the requesting stack still sent %s" %
                        (rec['k'], o['kind'], o['t'], '; '.join(fmt_frame(f) for f in later[:4]))))
    if sim.quiescent:
        for n, node in sim.nodes.items():
            sap = node['sap']
            for name, lst in (('client', sap.clientTransactions), ('server', sap.serverTransactions)):
                if lst:
                    tr = lst[0]
                    out.append(('leftover-%s-transaction' % name, "node %d keeps %d %s transaction(s) at quiescence (t=%.4f), first: peer %s id=%r state=%s timer=%r; frames: %s" %
                                (n, len(lst), name, sim.now, tr.pdu_address, tr.invokeID, tr.transactionLabels[tr.state], tr.isScheduled,
                                 _excerpt(sim, lambda f, tr=tr: f['id'] == tr.invokeID))))
            for key, info in sap.deviceInfoCache.cache.items():
                if getattr(info, '_ref_count', 0) != 0:
                    out.append(('device-info-still-referenced', "node %d: record for %s has reference count %d at quiescence" % (n, key, info._ref_count)))
                    break
    return out


def _transfers(sim):
    """segmented transfers on the wire: key (src, dst, type, id) -> frames"""
    keys = {}
    for f in sim.frames:
        if f['type'] in (0, 3) and f['seg']:
            keys.setdefault((f['src'], f['dst'], f['type'], f['id']), []).append(f)
    return keys


def _payload_of(sim, f):
    if f['type'] == 0:
        rec = _rec_for_frame(sim, f['src'], f['dst'], f['id'], f['t'])
        return rec, (rec['req_payload'] if rec else None)
    rec = _rec_for_frame(sim, f['dst'], f['src'], f['id'], f['t'])
    return rec, (rec['resp_payload'] if rec else None)


def check_wire(sim):
    """sequence numbers, more-follows, content of every segment, window discipline"""
    out = []
    for f in sim.frames:
        if f['type'] in (0, 3) and not f['seg']:
            rec, P = _payload_of(sim, f)
            if rec is not None and f['data'] != P:
                out.append(('unsegmented-content-wrong', "%s carries %d octets, the submitted %s has %d" %
                            (fmt_frame(f), len(f['data']), 'request' if f['type'] == 0 else 'response', len(P))))
    for key, frames in _transfers(sim).items():
        src, dst, typ, inv = key
        acksrv = (typ == 0)          # acks of a request transfer are sent by the server
        evs = [(f['ev'], 'seg', f) for f in frames]
        evs += [(ev, 'ack', f) for ev, t, f in sim.deliveries if f['type'] == 4 and f['dst'] == src and f['src'] == dst
                and f['id'] == inv and f['srv'] == acksrv]
        evs.sort(key=lambda e: e[0])
        win, burst, maxidx, prev, S = 1, 0, -1, None, None
        cur_rec = None
        for ev, what, f in evs:
            if what == 'ack':
                if f['win'] >= 1:          # a (forged) grant of zero segments changes nothing
                    win = f['win']
                burst = 0
                continue
            rec, P = _payload_of(sim, f)
            if rec is None:
                out.append(('segment-of-unknown-transfer', fmt_frame(f)))
                break
            if rec is not cur_rec:
                cur_rec, win, burst, maxidx, prev, S = rec, 1, 0, -1, None, None
            if f['seq'] == 0 and f['mor']:
                S = len(f['data'])
            if not S:
                out.append(('segment-size-unknown', "first frame of the transfer is %s" % fmt_frame(f)))
                break
            nseg = max(1, -(-len(P) // S))
            cands = [i for i in range(f['seq'], nseg, 256) if P[i * S:(i + 1) * S] == f['data']]
            if not cands:
                out.append(('segment-content-wrong', "%s: its %d octets are not the slice of the submitted payload (%d octets, %d segments of %d) for any position with that sequence number; frames: %s" %
                            (fmt_frame(f), len(f['data']), len(P), nseg, S, _excerpt(sim, lambda g: g['id'] == inv))))
                break
            ok = [i for i in cands if i <= maxidx + 1]
            idx = max(ok) if ok else min(cands)
            if idx > maxidx + 1:
                out.append(('segment-skipped', "%s is position %d, the furthest sent before was %d; frames: %s" %
                            (fmt_frame(f), idx, maxidx, _excerpt(sim, lambda g: g['id'] == inv))))
            if f['mor'] != (idx < nseg - 1):
                out.append(('more-follows-wrong', "%s is position %d of %d" % (fmt_frame(f), idx, nseg)))
            if prev is not None and idx == prev + 1 and burst > 0:
                burst += 1
            else:
                burst = 1
            if burst > win:
                out.append(('window-exceeded', "%s is the %d. unacknowledged segment in a row, the window in force is %d; frames: %s" %
                            (fmt_frame(f), burst, win, _excerpt(sim, lambda g: g['id'] == inv))))
            prev = idx
            maxidx = max(maxidx, idx)
    return out


def check_c05(sim, expect=None):
    """payload fidelity end to end and on the wire; `expect` = (kind of fault, outcome kind of the fault-free run)
    when the scenario has exactly one fault and both sides may retry"""
    out = check_exceptions(sim)
    for ind in sim.indications:
        rec = ind['rec']
        if rec is None:
            out.append(('unknown-request-delivered', "node %d was handed a request from %r id=%r with %d octets nobody submitted" % (ind['node'], ind['src'], ind['id'], len(ind['data']))))
        elif ind['data'] != rec['req_payload']:
            out.append(('request-payload-corrupted', "request #%d (%d octets submitted) reached the serving application with %d octets, first difference at %s; frames: %s" %
                        (rec['k'], len(rec['req_payload']), len(ind['data']), _first_diff(ind['data'], rec['req_payload']), _excerpt(sim))))
    for rec in sim.records:
        for o in rec['outcomes']:
            if o['kind'] == 'complex' and o['data'] != rec['resp_payload']:
                out.append(('response-payload-corrupted', "request #%d: response of %d octets submitted, %d octets confirmed, first difference at %s; frames: %s" %
                            (rec['k'], len(rec['resp_payload']), len(o['data']), _first_diff(o['data'], rec['resp_payload']), _excerpt(sim))))
            elif o['kind'] == 'error' and o['data'] != rec['err_payload']:
                out.append(('response-payload-corrupted', "request #%d: error parameters differ" % rec['k']))
            if o['kind'] in ('simple', 'complex', 'error', 'reject') and o['kind'] != rec['resp'][0]:
                out.append(('outcome-kind-wrong', "request #%d: the serving application answers %s, the requester was told %s" % (rec['k'], rec['resp'][0], o['kind'])))
        if rec['submitted'] is not None and rec['refused'] is None and not rec['outcomes']:
            out.append(('no-outcome', "request #%d never got a confirmation; frames: %s" % (rec['k'], _excerpt(sim))))
    out += check_wire(sim)
    if expect is not None:
        fault, want = expect[0], expect[1]
        if len(expect) > 2:
            fault = '%s-of-%s' % (fault, expect[2])
        rec = sim.records[0]
        got = rec['outcomes'][0]['kind'] if rec['outcomes'] else None
        idx = min(sim.scn.get('faults', {-1: 0}))
        if got != want and 0 <= idx < len(sim.frames) and sim.frames[idx]['seg'] and not fault.startswith('dup'):
            h = sim.frames[idx]
            if not any(f['src'] == h['src'] and f['type'] == h['type'] and f['id'] == h['id'] and f['seg'] and f['seq'] == h['seq'] for f in sim.frames[idx + 1:]):
                fault += '-never-retransmitted'
        if got != want:
            o = rec['outcomes'][0] if rec['outcomes'] else {}
            out.append((('single-%s-not-repaired' % fault).replace('-never-retransmitted-not-repaired', '-never-retransmitted'), "without the fault the outcome is %s; with it: %s (reason %r, from the %s) at t=%.4f; frames: %s" %
                        (want, got, o.get('reason'), 'peer' if o.get('srv') else 'local stack', o.get('t', -1), _excerpt(sim, n=24))))
    return out


def _first_diff(a, b):
    for i in range(min(len(a), len(b))):
        if a[i] != b[i]:
            return i
    return min(len(a), len(b))


def check_c11(sim):
    """transactions never cross"""
    out = check_exceptions(sim)
    for rec in sim.records:
        if rec['submitted'] is None:
            continue
        inv = rec['apdu'].apduInvokeID
        clash = [r for r in rec['live_before'] if r['apdu'].apduInvokeID == inv]
        if rec['refused'] is None and clash:
            out.append(('invoke-id-reused-while-live', "request #%d to %d was given invoke ID %r while request #%d to the same peer with that ID was still outstanding" %
                        (rec['k'], rec['s'], inv, clash[0]['k'])))
        if rec['refused'] is not None and not clash and rec['refused'] == 'invoke ID in use':
            out.append(('free-invoke-id-refused', "request #%d with chosen ID %r refused although no live request to %d uses it" % (rec['k'], inv, rec['s'])))
        if rec['refused'] is not None:
            if rec['outcomes']:
                out.append(('refused-but-confirmed', "request #%d was refused (%s) and later confirmed" % (rec['k'], rec['refused'])))
            continue
        if len(rec['outcomes']) != 1:
            out.append(('second-outcome' if rec['outcomes'] else 'no-outcome', "request #%d (%d>%d id=%r) got %d confirmations %s; frames: %s" %
                        (rec['k'], rec['c'], rec['s'], inv, len(rec['outcomes']), [(o['kind'], round(o['t'], 4)) for o in rec['outcomes']],
                         _excerpt(sim, lambda f: f['id'] == inv and {f['src'], f['dst']} == {rec['c'], rec['s']}))))
        for o in rec['outcomes']:
            if o['kind'] in ('simple', 'complex', 'error', 'reject'):
                if o['kind'] != rec['resp'][0] or (o['kind'] == 'complex' and o['data'] != rec['resp_payload']) or (o['kind'] == 'error' and o['data'] != rec['err_payload']):
                    whose = [r['k'] for r in sim.records if o['data'] and (r['resp_payload'] == o['data'] or r['err_payload'] == o['data'])]
                    # the answer to an EARLIER request of the same requester to the same peer under the same invoke ID (the application
                    # used the ID again while the peer was still answering the first one) is indistinguishable on the wire: not a crossing
                    if any(sim.records[k]['c'] == rec['c'] and sim.records[k]['s'] == rec['s'] and sim.records[k]['apdu'] is not None
                           and sim.records[k]['apdu'].apduInvokeID == inv and k < rec['k'] for k in whose):
                        continue
                    out.append(('reply-crossed', "request #%d (%d>%d id=%r, answer %s) was confirmed with %s of %d octets%s; deliveries to it: %s" %
                                (rec['k'], rec['c'], rec['s'], inv, rec['resp'][0], o['kind'], len(o['data']),
                                 (' which is the answer to request #%s' % whose) if whose else ' which nobody sent as its answer',
                                 '; '.join(fmt_frame(f) for ev, t, f in sim.deliveries if f['dst'] == rec['c'] and f['id'] == inv and ev < o['ev'])[-600:])))
                want = {'simple': 2, 'complex': 3, 'error': 5, 'reject': 6}[o['kind']]
                if not any(ev < o['ev'] and f['fate'] != 'forged' and f['dst'] == rec['c'] and f['src'] == rec['s'] and f['type'] == want and f['id'] == inv
                           for ev, t, f in sim.deliveries):
                    out.append(('outcome-without-reply', "request #%d confirmed with %s, no genuine frame of that kind from %d with ID %r had been delivered" % (rec['k'], o['kind'], rec['s'], inv)))
    for ind in sim.indications:
        rec = ind['rec']
        if rec is None:
            out.append(('unknown-request-delivered', "node %d was handed a request from %r id=%r nobody submitted" % (ind['node'], ind['src'], ind['id'])))
            continue
        if (ind['src'], ind['id'], ind['node']) != (rec['c'], rec['apdu'].apduInvokeID, rec['s']):
            out.append(('request-misattributed', "request #%d (%d>%d id=%r) was handed to node %d as from %r id=%r" %
                        (rec['k'], rec['c'], rec['s'], rec['apdu'].apduInvokeID, ind['node'], ind['src'], ind['id'])))
        if ind['data'] != rec['req_payload']:
            out.append(('request-payload-corrupted', "request #%d reached node %d with other content" % (rec['k'], ind['node'])))
    by = {}
    for ind in sim.indications:
        by.setdefault((ind['node'], ind['src'], ind['id']), []).append(ind)
    for key, inds in by.items():
        for a, b in zip(inds, inds[1:]):
            busy = a['answered'] is None or a['answered'] > b['t']
            told = any(n['node'] == key[0] and n['src'] == key[1] and n['id'] == key[2] and a['ev'] < n['ev'] < b['ev'] for n in sim.notices)
            if busy and not told:
                out.append(('request-handed-twice', "node %d was handed the request from %d with ID %r at %.4f and again at %.4f while the first was still being processed (answered: %r); frames: %s" %
                            (key[0], key[1], key[2], a['t'], b['t'], a['answered'], _excerpt(sim, lambda f: f['id'] == key[2] and {f['src'], f['dst']} == {key[0], key[1]}))))
    return out


def _known(scn, a, b):
    """what node a was told about node b, or None"""
    v = scn.get('know', {}).get((a, b))
    if v is None:
        return None
    pc = dict(scn['nodes'][b]) if b in scn['nodes'] else cfg()
    if isinstance(v, dict):
        pc.update(v)
    return pc


def check_c12(sim):
    """what is sent respects what the receiver announced"""
    out = check_exceptions(sim)
    scn = sim.scn
    last_req = {}           # (client, server, id) -> newest request header emitted
    for f in sim.frames:
        if f['type'] == 0:
            last_req[(f['src'], f['dst'], f['id'])] = f
        if f['win'] is not None and not (1 <= f['win'] <= 127):
            out.append(('window-%s-in-%s' % ('zero' if f['win'] == 0 else 'above-127', frame_category(f)), "%s; handed to the stack before: %s; frames: %s" %
                        (fmt_frame(f), '; '.join(fmt_frame(g) for ev, t, g in sim.deliveries if g['fate'] == 'forged' and t <= f['t'])[-300:], _excerpt(sim))))
        response_side = f['type'] in (2, 3, 5, 6) or (f['type'] in (4, 7) and f['srv'])
        if response_side:
            rq = last_req.get((f['dst'], f['src'], f['id']))
            if rq is None:
                # an answer to a forged request: the forged header is the announcement
                rq = next((g for ev, t, g in reversed(sim.deliveries) if g['fate'] == 'forged' and g['type'] == 0 and g['src'] == f['dst'] and g['id'] == f['id'] and t <= f['t']), None)
            if rq is None:
                continue
            limit = MAXAPDU[rq['maxresp']] if rq['maxresp'] is not None and rq['maxresp'] < 6 else None
            told = _known(scn, f['src'], f['dst'])
            stale = told is not None and limit is not None and told['maxApdu'] > limit
            if limit is not None and f['length'] > limit:
                out.append(('frame-too-long' + ('-cached-info-preferred' if stale else ''), "%s answers a request announcing max APDU %d (%s)%s" %
                            (fmt_frame(f), limit, fmt_frame(rq) if rq['fate'] != 'forged' else 'forged',
                             '; the answering stack holds device information saying %d' % told['maxApdu'] if stale else '')))
            if f['type'] == 3 and f['seg']:
                if not rq['sa']:
                    out.append(('segmented-response-not-allowed', "%s answers %s which does not accept segmented responses" % (fmt_frame(f), fmt_frame(rq))))
                rec, P = _payload_of(sim, f)
                ms = MAXSEGS_DECODE[rq['maxsegs']]
                if rec is not None and ms is not None and f['seq'] == 0 and f['mor']:
                    nseg = -(-len(P) // max(1, len(f['data'])))
                    if nseg > ms:
                        out.append(('too-many-response-segments', "%s starts a response of %d segments, the request accepts %d" % (fmt_frame(f), nseg, ms)))
        else:
            pc = _known(scn, f['src'], f['dst'])
            if pc is None:
                continue
            if f['length'] > pc['maxApdu']:
                out.append(('frame-too-long', "%s goes to a peer that announced max APDU %d" % (fmt_frame(f), pc['maxApdu'])))
            if f['type'] == 0 and f['seg']:
                if pc['seg'] not in ('segmentedReceive', 'segmentedBoth'):
                    out.append(('segmented-request-to-non-receiver', "%s goes to a peer that announced %s" % (fmt_frame(f), pc['seg'])))
                elif pc['maxSegs'] and f['seq'] == 0 and f['mor']:
                    rec, P = _payload_of(sim, f)
                    if rec is not None:
                        nseg = -(-len(P) // max(1, len(f['data'])))
                        if nseg > pc['maxSegs']:
                            out.append(('too-many-request-segments', "%s starts a request of %d segments, the peer accepts %d" % (fmt_frame(f), nseg, pc['maxSegs'])))
    # the window granted never exceeds the window proposed by the sender of the segments
    for key, frames in _transfers(sim).items():
        src, dst, typ, inv = key
        proposed = None
        evs = [(f['ev'], 'seg', f) for f in frames] + [(f['ev'], 'ack', f) for f in sim.frames if f['type'] == 4 and f['src'] == dst and f['dst'] == src and f['id'] == inv and f['srv'] == (typ == 0)]
        evs.sort(key=lambda e: e[0])
        for ev, what, f in evs:
            if what == 'seg':
                if f['seq'] == 0 and f['mor']:
                    proposed = f['win']
            elif proposed is not None and f['win'] > proposed:
                out.append(('window-exceeds-proposal', "%s grants more than the %d proposed; frames: %s" % (fmt_frame(f), proposed, _excerpt(sim, lambda g: g['id'] == inv))))
                break
    # what cannot be sent within the limits ends in an abort for the requester
    for rec in sim.records:
        if rec['submitted'] is None or rec['refused'] is not None:
            continue
        if len(rec['outcomes']) != 1:
            out.append(('second-outcome' if rec['outcomes'] else 'no-outcome', "request #%d got %d confirmations; frames: %s" % (rec['k'], len(rec['outcomes']), _excerpt(sim))))
            continue
        o = rec['outcomes'][0]
        c, s = scn['nodes'][rec['c']], scn['nodes'].get(rec['s'])
        pc = _known(scn, rec['c'], rec['s'])
        why = None
        if pc is not None and rec['n'] + 4 > pc['maxApdu']:
            if c['seg'] not in ('segmentedTransmit', 'segmentedBoth'):
                why = "the request needs segmentation, the requester cannot send segments"
            elif pc['seg'] not in ('segmentedReceive', 'segmentedBoth'):
                why = "the request needs segmentation, the peer announced it cannot receive segments"
        if why is None and s is not None and rec['resp'][0] == 'complex' and rec['resp'][1] + 3 > c['maxApdu'] and any(i['rec'] is rec for i in sim.indications):
            if c['seg'] not in ('segmentedReceive', 'segmentedBoth'):
                why = "the response needs segmentation, the requester does not accept segmented responses"
            elif s['seg'] not in ('segmentedTransmit', 'segmentedBoth'):
                why = "the response needs segmentation, the server cannot send segments"
        if why and o['kind'] != 'abort':
            told = _known(scn, rec['s'], rec['c'])
            stale = told is not None and told['maxApdu'] > c['maxApdu'] and 'response' in why
            out.append(('no-abort-when-unsendable' + ('-cached-info-preferred' if stale else ''), "request #%d: %s, yet the outcome is %s; frames: %s" % (rec['k'], why, o['kind'], _excerpt(sim))))
    out += [x for x in check_wire(sim) if x[0] == 'window-exceeded']
    return out


# ======================================================================================
# driver helpers shared by the property files
# ======================================================================================

class Collector:
    """keeps, per failure kind, the smallest scenario that shows it"""

    def __init__(self):
        self.best = {}
        self.evaluations = 0
        self.shapes = set()

    def add(self, scn, findings, sim=None):
        self.evaluations += 1
        if sim is not None:
            self.shapes.add((len(sim.frames), tuple(o['kind'] for o in sim.outcomes[:3]), tuple(sorted(set(f['fate'] for f in sim.frames)))[:3]))
        seen = set()
        for kind, detail in findings:
            if kind in seen:
                continue
            seen.add(kind)
            key = size_of(scn)
            if kind not in self.best or key < self.best[kind][0]:
                self.best[kind] = (key, describe(scn), detail)

    def failures(self):
        return [{'name': k, 'input': v[1][:500], 'detail': v[2][:3000]} for k, v in sorted(self.best.items())]


def fault_free_frames(scn):
    s = dict(scn)
    s.pop('faults', None)
    s.pop('silence', None)
    return simulate(s)


def single_faults(nframes, delays=(0.0025, 2.0)):
    """every single fault at every frame index"""
    for i in range(nframes):
        yield 'drop', {i: [('drop',)]}
        yield 'dup', {i: [('dup', 0.0005)]}
        for d in delays:
            yield 'delay', {i: [('delay', d)]}


def with_faults(scn, faults=None, silence=None):
    s = dict(scn)
    if faults is not None:
        s['faults'] = faults
    if silence is not None:
        s['silence'] = silence
    return s


def random_faults(rng, nframes, k):
    faults = {}
    for _ in range(k):
        i = rng.randrange(0, max(1, int(nframes * 1.5) + 2))
        kind = rng.choice(('drop', 'drop', 'dup', 'delay', 'delay'))
        if kind == 'drop':
            op = ('drop',)
        elif kind == 'dup':
            op = ('dup', rng.choice((0.0, 0.0005, 0.003, 1.0, 4.0)))
        else:
            op = ('delay', rng.choice((0.0005, 0.0025, 0.5, 1.6, 3.5, 10.0)))
        faults.setdefault(i, []).append(op)
    return faults


def seg_boundaries(maxapdu, header):
    S = maxapdu - header
    return sorted(set([0, 1, S - 1, S, S + 1, 2 * S, 4 * S + 2]))


def pool_map(fn, items, workers):
    """fork pool of up to `workers`; falls back to a plain loop"""
    if workers <= 1 or len(items) < 32:
        return [fn(x) for x in items]
    import multiprocessing
    with multiprocessing.get_context('fork').Pool(workers) as pool:
        return pool.map(fn, items, chunksize=max(1, len(items) // (workers * 8)))


CHECKS = {'c04': check_c04, 'c05': check_c05, 'c11': check_c11, 'c12': check_c12}


def evaluate(item):
    """one scenario through one property's checks (pool worker)"""
    name, scn, expect = item
    sim = simulate(scn)
    findings = check_c05(sim, expect) if name == 'c05' else CHECKS[name](sim)
    seen, ded = set(), []
    for k, d in findings:
        if k not in seen:
            seen.add(k)
            ded.append((k, d))
    shape = (len(sim.frames), tuple(o['kind'] for o in sim.outcomes[:3]), len(sim.indications), tuple(sorted(set(f['fate'].split('(')[0] for f in sim.frames)))[:3])
    return ded, shape


def run_items(col, items, workers=1):
    results = pool_map(evaluate, items, workers)
    for (name, scn, expect), (findings, shape) in zip(items, results):
        col.evaluations += 1
        col.shapes.add(shape)
        for kind, detail in findings:
            key = size_of(scn)
            if kind not in col.best or key < col.best[kind][0]:
                col.best[kind] = (key, describe(scn), detail)


def two_node(c1=None, c2=None, n=10, resp=('simple',), know=True, **req):
    scn = dict(nodes={1: cfg(**(c1 or {})), 2: cfg(**(c2 or {}))}, reqs=[dict(t=0.0, c=1, s=2, n=n, inv=None, resp=resp, **req)])
    if know:
        scn['know'] = {(1, 2): True, (2, 1): True}
    return scn


def frame_category(f):
    """what kind of frame a single fault hits (for naming the failure)"""
    if f['type'] == 0:
        return 'request-segment' if f['seg'] else 'request'
    if f['type'] == 3:
        return 'response-segment' if f['seg'] else 'response'
    if f['type'] == 4:
        return 'server-segack' if f['srv'] else 'client-segack'
    return {2: 'response', 5: 'response', 6: 'response', 7: 'abort'}.get(f['type'], 'frame')
