"""
Shared harness of the bounded network stages (C06 routers, C13 BACnet/IP).

Nothing of the library is replaced: the stations, routers, BBMDs and foreign
devices are the library's own NetworkServiceAccessPoint / NetworkServiceElement
/ BIPSimple / BIPBBMD / BIPForeign / AnnexJCodec objects, the wires are the
library's vlan.Network / vlan.IPNetwork / vlan.IPRouter, timers run in a real
bacpypes.task.TaskManager.  The harness supplies

  Sim            a virtual clock (bacpypes.task._time patched), a fresh
                 TaskManager per scenario, and the event loop of core.run()
                 without sockets: due tasks in time order, core.deferredFns
                 drained between events, the clock moved to the next task.
  TracedNode     a vlan.Node that stamps every frame with a serial number and
                 the serial number of the frame whose processing produced it
                 (the stack is synchronous, so the frame being handed up while
                 another is sent down is its cause), and decodes the NPCI for
                 the per-hop checks.  Delivery itself is vlan.Node's.
  Station/Router builders for the network layer (C06)
  UDPStandIn     the node-level UDP stand-in of the B/IP stacks (the role of
                 UDPMultiplexer: addresses <-> (host, port) tuples) with a
                 "mute" switch (outgoing datagrams lost) for expiry scenarios
  BIPSimple/BBMD/Foreign builders (C13)
"""
import itertools
import logging


class SimOverrun(Exception):
    pass


class Sim(object):
    """virtual clock + fresh task manager + event loop"""

    def __init__(self, start=0.0, max_steps=200000):
        import bacpypes.task as T
        import bacpypes.core as C
        self.T, self.C = T, C
        self.now = start
        self.steps = 0
        self.max_steps = max_steps
        self.errors = []            # exceptions raised by the stack while a task / deferred function ran
        self.serial = itertools.count(1)
        self.cause = None           # serial of the frame being handed up right now
        self.frames = []            # every frame put on a traced wire
        self._saved = (T._time, T._task_manager, list(T._unscheduled_tasks), C.deferredFns, C.taskManager, logging.root.manager.disable)
        T._time = lambda: self.now
        m = object.__new__(T.TaskManager)
        m.tasks, m.trigger, m.counter = [], None, itertools.count()
        T._task_manager = m
        del T._unscheduled_tasks[:]
        C.deferredFns = []
        C.taskManager = None
        self.tm = m
        logging.disable(logging.CRITICAL)

    def close(self):
        T, C = self.T, self.C
        T._time, T._task_manager, unsched, C.deferredFns, C.taskManager, lvl = self._saved
        T._unscheduled_tasks[:] = unsched
        logging.disable(lvl)

    # -- event loop ----------------------------------------------------------
    def _drain_deferred(self):
        C = self.C
        did = False
        while C.deferredFns:
            fnlist = C.deferredFns
            C.deferredFns = []
            for fn, args, kwargs in fnlist:
                did = True
                self._step()
                try:
                    fn(*args, **kwargs)
                except SimOverrun:
                    raise
                except Exception as e:
                    self.errors.append("%s: %s" % (type(e).__name__, e))
        return did

    def _step(self):
        self.steps += 1
        if self.steps > self.max_steps:
            raise SimOverrun("more than %d tasks" % self.max_steps)

    def run(self, until=None):
        """process everything due up to and including `until` (default: now), then set the clock to `until`"""
        if until is None:
            until = self.now
        tm = self.tm
        while True:
            self._drain_deferred()
            task, delta = tm.get_next_task()
            if task is not None:
                self._step()
                try:
                    tm.process_task(task)
                except SimOverrun:
                    raise
                except Exception as e:
                    self.errors.append("%s: %s" % (type(e).__name__, e))
                continue
            if self.C.deferredFns:
                continue
            if delta is None or not tm.tasks:
                break
            when = tm.tasks[0][0]
            if when > until:
                break
            self.now = max(self.now, when)      # == now + delta
        if until > self.now:
            self.now = until

    def settle(self):
        self.run(self.now)

    def call(self, fn, *args, **kwargs):
        """call into a stack from outside, exceptions recorded like the ones of tasks"""
        try:
            return fn(*args, **kwargs)
        except SimOverrun:
            raise
        except Exception as e:
            self.errors.append("%s: %s" % (type(e).__name__, e))
            return None


# ---------------------------------------------------------------------------
# network layer (C06)
# ---------------------------------------------------------------------------

def _classes():
    """library imports, done late so that importing this module costs nothing"""
    import bacpypes.vlan as V
    from bacpypes.comm import Client, Server, bind, ApplicationServiceElement
    from bacpypes.netservice import NetworkServiceAccessPoint, NetworkServiceElement
    from bacpypes.npdu import NPDU
    from bacpypes.pdu import Address, LocalStation, PDU

    class Frame(object):
        __slots__ = ('serial', 'cause', 'net', 'src', 'dst', 'sender', 'dadr', 'sadr', 'hops', 'netmsg', 'data')

        def __repr__(self):
            return "#%d<-%s %s %s>%s dadr=%s sadr=%s hops=%s msg=%s" % (self.serial, self.cause, self.net, self.src, self.dst, self.dadr, self.sadr, self.hops, self.netmsg)

    class TracedNode(V.Node):
        """vlan.Node + provenance of frames; `owner` is the station / router the port belongs to"""

        def __init__(self, sim, owner, addr, lan):
            self.sim, self.owner = sim, owner
            V.Node.__init__(self, addr, lan)

        def indication(self, pdu):
            sim = self.sim
            f = Frame()
            f.serial, f.cause, f.net, f.sender = next(sim.serial), sim.cause, self.lan.name, self.owner
            f.src, f.dst = str(self.address), str(pdu.pduDestination)
            n = NPDU()
            try:
                n.decode(PDU(bytes(pdu.pduData)))
                f.dadr = None if n.npduDADR is None else str(n.npduDADR)
                f.sadr = None if n.npduSADR is None else str(n.npduSADR)
                f.hops, f.netmsg, f.data = n.npduHopCount, n.npduNetMessage, bytes(n.pduData)
            except Exception as e:
                f.dadr = f.sadr = f.hops = f.netmsg = None
                f.data = b''
            sim.frames.append(f)
            pdu._serial = f.serial          # survives the deepcopy made for each receiver
            V.Node.indication(self, pdu)

        def response(self, pdu):
            sim = self.sim
            saved = sim.cause
            sim.cause = getattr(pdu, '_serial', None)
            try:
                V.Node.response(self, pdu)
            finally:
                sim.cause = saved

    class QuietNSE(NetworkServiceElement):
        _startup_disabled = True

    class AnnouncingNSE(NetworkServiceElement):
        _startup_disabled = False

    class RecordingApp(Client):
        """bound above the NSAP; keeps what the network layer hands up"""

        def __init__(self, owner):
            Client.__init__(self)
            self.owner = owner
            self.got = []           # (payload bytes, source Address, destination Address)

        def confirmation(self, apdu):
            self.got.append((bytes(apdu.pduData), apdu.pduSource, apdu.pduDestination))

        def send(self, dest, payload):
            from bacpypes.apdu import UnconfirmedRequestPDU
            req = UnconfirmedRequestPDU(8)      # who-is service choice, opaque parameters
            req.put_data(payload)
            req.pduDestination = dest
            self.request(req)

    class Station(object):
        """an application on a real NSAP/NSE on one traced vlan node"""
        is_router = False

        def __init__(self, sim, name, lan, net, addr, knows):
            # knows: 'net+addr' bind(node, net, address) | 'addr' bind(node, None, address) | 'none' bind(node)
            self.name, self.net, self.addr, self.knows = name, net, addr, knows
            self.nsap = NetworkServiceAccessPoint()
            self.nse = QuietNSE()
            bind(self.nse, self.nsap)
            self.app = RecordingApp(self)
            bind(self.app, self.nsap)
            self.node = TracedNode(sim, self, LocalStation(addr), lan)
            if knows == 'net+addr':
                self.nsap.bind(self.node, net, LocalStation(addr))
            elif knows == 'addr':
                self.nsap.bind(self.node, None, LocalStation(addr))
            else:
                self.nsap.bind(self.node)

        def __repr__(self):
            return self.name

    class Router(object):
        """a real NSAP/NSE on several traced vlan nodes, one per attached network; with `app` a recording
        application sits above the NSAP (a router that is also a device): the library makes it a station of
        the network of its "local adapter", the last port bound"""
        is_router = True

        def __init__(self, sim, name, ports, announce=False, app=False):
            # ports: [(lan, net, addr)]
            self.name, self.ports = name, {}
            self.nsap = NetworkServiceAccessPoint()
            self.nse = (AnnouncingNSE if announce else QuietNSE)()
            bind(self.nse, self.nsap)
            self.app = None
            if app:
                self.app = RecordingApp(self)
                bind(self.app, self.nsap)
            self.nodes = {}
            for lan, net, addr in ports:
                node = TracedNode(sim, self, LocalStation(addr), lan)
                self.nsap.bind(node, net, LocalStation(addr))
                self.nodes[net] = node
                self.ports[net] = addr
            self.net, self.addr, self.knows = ports[-1][1], ports[-1][2], 'net+addr'

        def __repr__(self):
            return self.name + ('(app %d:%d)' % (self.net, self.addr) if self.app else '')

    return dict(Frame=Frame, TracedNode=TracedNode, Station=Station, Router=Router, RecordingApp=RecordingApp,
                Network=V.Network)


_cache = {}

def net_classes():
    if not _cache:
        _cache.update(_classes())
    return _cache


class Internetwork(object):
    """topology description -> live objects

    spec = {'nets': {net: [(station address, knows)]}, 'routers': [[(net, address)...]], 'announce': bool,
            'router_apps': (indexes of routers that carry an application)}
    """

    def __init__(self, sim, spec):
        K = net_classes()
        self.sim, self.spec = sim, spec
        self.lans = {}
        self.stations = []
        self.routers = []
        for net in sorted(spec['nets']):
            self.lans[net] = K['Network'](name='n%d' % net, broadcast_address=_local_broadcast())
        for net in sorted(spec['nets']):
            for addr, knows in spec['nets'][net]:
                self.stations.append(K['Station'](sim, '%d:%d' % (net, addr), self.lans[net], net, addr, knows))
        for i, ports in enumerate(spec['routers']):
            self.routers.append(K['Router'](sim, 'R%d' % i, [(self.lans[n], n, a) for n, a in ports], announce=spec.get('announce', False),
                                            app=i in spec.get('router_apps', ())))
        self.apps = self.stations + [r for r in self.routers if r.app]      # everything with an application, stations first

    def clear(self):
        for s in self.apps:
            del s.app.got[:]
        del self.sim.frames[:]


def _local_broadcast():
    from bacpypes.pdu import LocalBroadcast
    return LocalBroadcast()


# ---------------------------------------------------------------------------
# BACnet/IP (C13)
# ---------------------------------------------------------------------------

def _ip_classes():
    import bacpypes.vlan as V
    from bacpypes.comm import Client, Server, bind, ApplicationServiceElement
    from bacpypes.pdu import Address, LocalBroadcast, PDU, unpack_ip_addr
    from bacpypes.bvllservice import BIPSimple, BIPBBMD, BIPForeign, AnnexJCodec

    class UDPStandIn(Client, Server):
        """what UDPMultiplexer does for one Annex J port, on a vlan.IPNode instead of sockets:
        downstream Address -> (host, port) tuple, local broadcast -> the subnet's broadcast tuple;
        upstream tuple -> Address, the broadcast tuple -> LocalBroadcast."""

        def __init__(self, addr, lan):
            Client.__init__(self)
            Server.__init__(self)
            self.address = addr
            self.unicast_tuple = addr.addrTuple
            self.broadcast_tuple = addr.addrBroadcastTuple
            self.node = V.IPNode(addr, lan)
            bind(self, self.node)
            self.mute = False       # outgoing datagrams are lost
            self.sent = 0
            self.received = []      # (time-independent) list of source tuples of datagrams that arrived

        def indication(self, pdu):
            if pdu.pduDestination.addrType == Address.localBroadcastAddr:
                dest = self.broadcast_tuple
            elif pdu.pduDestination.addrType == Address.localStationAddr:
                dest = unpack_ip_addr(pdu.pduDestination.addrAddr)
            else:
                raise RuntimeError("invalid destination address type")
            if self.mute:
                return
            self.sent += 1
            self.request(PDU(pdu, source=self.unicast_tuple, destination=dest))

        def confirmation(self, pdu):
            self.received.append(pdu.pduSource)
            src = Address(pdu.pduSource)
            if pdu.pduDestination == self.broadcast_tuple:
                dest = LocalBroadcast()
            else:
                dest = Address(pdu.pduDestination)
            self.response(PDU(pdu, source=src, destination=dest))

    class NetLayer(Client):
        """the recording network layer above a BIP* object"""

        def __init__(self, owner):
            Client.__init__(self)
            self.owner = owner
            self.got = []       # (payload, source Address, destination Address)

        def confirmation(self, pdu):
            self.got.append((bytes(pdu.pduData), pdu.pduSource, pdu.pduDestination))

        def broadcast(self, payload):
            self.request(PDU(payload, destination=LocalBroadcast()))

        def unicast(self, dest, payload):
            self.request(PDU(payload, destination=dest))

    class BVLLElement(ApplicationServiceElement):
        """service element of a BIP* object: results and table read-outs arrive here"""

        def __init__(self):
            ApplicationServiceElement.__init__(self)
            self.got = []

        def indication(self, pdu):
            self.got.append(pdu)

        def confirmation(self, pdu):
            self.got.append(pdu)

    class IPStack(object):
        def __init__(self, kind, name, addr, lan):
            self.kind, self.name, self.address = kind, name, addr
            if kind == 'simple':
                self.bip = BIPSimple()
            elif kind == 'bbmd':
                self.bip = BIPBBMD(addr)
            else:
                self.bip = BIPForeign()
            self.ase = BVLLElement()
            bind(self.ase, self.bip)
            self.codec = AnnexJCodec()
            self.mux = UDPStandIn(addr, lan)
            self.net = NetLayer(self)
            bind(self.net, self.bip, self.codec, self.mux)

        def __repr__(self):
            return self.name

    return dict(IPStack=IPStack, IPNetwork=V.IPNetwork, IPRouter=V.IPRouter, Address=Address)


_ip_cache = {}

def ip_classes():
    if not _ip_cache:
        _ip_cache.update(_ip_classes())
    return _ip_cache
