#!/bin/sh
# usage: tools_apply_mutant.sh <patch.diff> <check args...>   -- applies the patch to /repo, runs ./check, always reverts
patch="$1"; shift
git -C /repo apply "$patch" || exit 9
cd /verif && VERIF_NO_EVIDENCE=1 ./check "$@"; rc=$?
git -C /repo checkout -- . 
echo "exit=$rc"
