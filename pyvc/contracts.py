"""
pyvc.contracts -- sidecar contracts on the real functions, their verification
against the real bodies (VC generation by symbolic execution), their use at
call sites (modular reasoning), lemmas (client programs over contracts) and
native replay of counterexamples.

A contract is written in a sidecar module under /verif/contracts as

    contract("bacpypes.comm:PDUData.get",
        params   = {"self": Obj("bacpypes.comm:PDUData", pduData=Bytes(mutable=True))},
        requires = [...python expression strings over the parameters...],
        raises   = [(DecodingError, "len(self.pduData) == 0")],       # raises E iff cond (pre-state)
        post     = {"result": "old(self.pduData)[0]",                 # defining equations (strongest post)
                    "self.pduData[:]": "old(self.pduData)[1:]"},      # [:] = updated in place
        ensures  = [...facts about the post-state...],
        modifies = [...paths besides the keys of post...])

Expression strings are ordinary Python; they are interpreted symbolically by
the same interpreter as the code (so spec functions are shared) and evaluated
natively by CPython in replays.  `old(e)` denotes e in the pre-state.
"""

import ast
import os
import copy
import importlib
import inspect
import random
import sys
import time
import traceback
import types

import z3

from .sym import (Sym, SInt, SBool, SReal, SBuf, SOpaque, SIPStr, SDecStr, SOption, Blob, PathCtx, Infeasible, Unsupported, PathBudget,
                  explore, mk_bool, mk_int, bool_term, int_term, Obligation)
from .interp import Interp, Config, Frame, PyRaise, has_sym, SOURCES
from . import bufops

# ----------------------------------------------------------------------------
#   resolving "module:Qual.name"
# ----------------------------------------------------------------------------

def resolve(spec):
    """'pkg.mod:Class.attr' -> object; nested factory classes are reached with
    'pkg.mod:factory(<arg spec>).attr' is not supported -- use resolve_fn hooks"""
    if not isinstance(spec, str):
        return spec
    modname, _, qual = spec.partition(':')
    obj = importlib.import_module(modname)
    if qual:
        for part in qual.split('.'):
            if isinstance(obj, type):
                found = None
                for k in obj.__mro__:
                    if part in k.__dict__:
                        found = k.__dict__[part]
                        break
                if found is None:
                    raise AttributeError("%s has no %s" % (obj, part))
                if isinstance(found, (staticmethod, classmethod)):
                    found = found.__func__
                obj = found
            else:
                obj = getattr(obj, part)
    return obj

# ----------------------------------------------------------------------------
#   shapes: how symbolic (or concrete replay) inputs are built
# ----------------------------------------------------------------------------

class Builder(object):
    """mode 'sym': fresh symbols on a PathCtx; 'interp': concrete values for the
    interpreter (bytearrays as SBuf); 'native': plain CPython values"""
    def __init__(self, mode, ctx=None, values=None, rng=None):
        self.mode = mode
        self.ctx = ctx
        self.values = values if values is not None else {}
        self.rng = rng
        self.built = {}

class Shape(object):
    def build(self, b, name):
        raise NotImplementedError

class Int(Shape):
    def __init__(self, lo=None, hi=None):
        self.lo, self.hi = lo, hi
    def build(self, b, name):
        if b.mode == 'sym':
            return b.ctx.fresh_int(name, self.lo, self.hi, is_input=True)
        if name in b.values:
            return int(b.values[name])
        lo = self.lo if self.lo is not None else -(1 << 40)
        hi = self.hi if self.hi is not None else (1 << 40)
        r = b.rng
        k = r.random()
        if k < 0.3:
            v = r.choice([lo, hi, min(hi, lo + 1), max(lo, hi - 1)])
        elif k < 0.6 and lo <= 0 <= hi:
            v = r.choice([x for x in (0, 1, 2, 127, 128, 255, 256, 65535, 65536, -1, -128, -129) if lo <= x <= hi] or [lo])
        else:
            v = r.randint(lo, hi)
        b.values[name] = v
        return v

def Octet():
    return Int(0, 255)

class Bool(Shape):
    def build(self, b, name):
        if b.mode == 'sym':
            return b.ctx.fresh_bool(name, is_input=True)
        if name in b.values:
            return bool(b.values[name])
        v = b.rng.random() < 0.5
        b.values[name] = v
        return v

class Real(Shape):
    def __init__(self, lo=None, hi=None):
        self.lo, self.hi = lo, hi
    def build(self, b, name):
        if b.mode == 'sym':
            r = b.ctx.fresh_real(name, is_input=True)
            if self.lo is not None:
                b.ctx.assume(r.t >= self.lo)
            if self.hi is not None:
                b.ctx.assume(r.t <= self.hi)
            return r
        if name in b.values:
            v = b.values[name]
            if isinstance(v, dict):
                return v['real'][0] / v['real'][1]
            return float(v)
        v = b.rng.choice([0.0, 1.0, -1.5, 3.25, 1e6, b.rng.uniform(-1e3, 1e3)])
        if self.lo is not None and v < self.lo:
            v = self.lo + abs(v)
        if self.hi is not None and v > self.hi:
            v = self.hi
        b.values[name] = v
        return v

class Bytes(Shape):
    def __init__(self, minlen=0, maxlen=None, mutable=False):
        self.minlen, self.maxlen, self.mutable = minlen, maxlen, mutable
    def build(self, b, name):
        if b.mode == 'sym':
            return b.ctx.fresh_blob(name, self.minlen, self.maxlen, is_input=True, mutable=self.mutable)
        if name in b.values:
            v = b.values[name]
            vals = v['bytes'] if isinstance(v, dict) else list(v)
        else:
            hi = self.maxlen if self.maxlen is not None else self.minlen + 12
            n = b.rng.randint(self.minlen, min(hi, self.minlen + 12))
            vals = [b.rng.choice([0, 1, 0x7f, 0x80, 0xff, b.rng.randint(0, 255)]) for _ in range(n)]
            b.values[name] = {'bytes': vals}
        if b.mode == 'native':
            return bytearray(vals) if self.mutable else bytes(vals)
        if self.mutable:
            return SBuf(list(vals), True)
        return bytes(vals)

class Str(Shape):
    """an arbitrary str, opaque to the solver (equality only)"""
    def build(self, b, name):
        if b.mode == 'sym':
            sort = z3.DeclareSort('PyStr')
            t = z3.Const(b.ctx.uname(name), sort)
            b.ctx.inputs[name] = t
            return SOpaque(t, str)
        if name in b.values and isinstance(b.values[name], str):
            return b.values[name]
        v = b.rng.choice(['', 'a', 'abc', 'h\u00e9llo', '\u4e2d\u6587', 'x' * 40])
        b.values[name] = v
        return v

class DecStr(Shape):
    """the decimal text of an integer lo..hi (a \\d+ regex group)"""
    def __init__(self, lo=0, hi=None):
        self.lo, self.hi = lo, hi
    def build(self, b, name):
        v = Int(self.lo, self.hi).build(b, name)
        if b.mode == 'sym':
            return SDecStr(v)
        return str(v)

class IPStr(Shape):
    """the dotted-quad text of four octets"""
    def build(self, b, name):
        octs = [Int(0, 255).build(b, "%s.%d" % (name, i)) for i in range(4)]
        if b.mode == 'sym':
            return SIPStr(octs)
        return '.'.join(str(o) for o in octs)

class Count(Shape):
    """an itertools.count at an arbitrary position >= 0"""
    def build(self, b, name):
        v = Int(0).build(b, name)
        if b.mode == 'native':
            import itertools
            return itertools.count(v)
        from .models import GhostCounter
        return GhostCounter(v)

def count_value(c):
    """current position of a counter in either world"""
    if type(c).__name__ == 'GhostCounter':
        return c.value
    import re
    return int(re.match(r'count\((-?\d+)\)', repr(c)).group(1))

class Maybe(Shape):
    """None or a value of `shape`, decided lazily (no fork when the input is
    built); `flag` names another Maybe whose none-ness this one mirrors or negates"""
    def __init__(self, shape, same_as=None, opposite_of=None):
        self.shape = shape if isinstance(shape, Shape) else Const(shape)
        self.same_as, self.opposite_of = same_as, opposite_of
    def build(self, b, name):
        if b.mode == 'sym':
            if self.same_as is not None:
                isn = b.built['maybe!' + self._abs(name, self.same_as)]
            elif self.opposite_of is not None:
                o = b.built['maybe!' + self._abs(name, self.opposite_of)]
                isn = mk_bool(z3.Not(o.t)) if isinstance(o, SBool) else (not o)
            else:
                isn = b.ctx.fresh_bool(name + '#none', is_input=True)
            b.built['maybe!' + name] = isn
            return SOption(isn, self.shape.build(b, name))
        if self.same_as is not None:
            isn = b.built['maybe!' + self._abs(name, self.same_as)]
        elif self.opposite_of is not None:
            isn = not b.built['maybe!' + self._abs(name, self.opposite_of)]
        elif (name + '#none') in b.values:
            isn = bool(b.values[name + '#none'])
        else:
            isn = b.rng.random() < 0.5
            b.values[name + '#none'] = isn
        b.built['maybe!' + name] = isn
        v = self.shape.build(b, name)
        return None if isn else v
    @staticmethod
    def _abs(name, rel):
        """sibling reference: replace the last path component"""
        return name.rsplit('.', 1)[0] + '.' + rel if '.' in name else rel

class Const(Shape):
    def __init__(self, v):
        self.v = v
    def build(self, b, name):
        return self.v

class OneOf(Shape):
    def __init__(self, *alts):
        self.alts = [a if isinstance(a, Shape) else Const(a) for a in alts]
    def build(self, b, name):
        if b.mode == 'sym':
            i = b.ctx.choose(len(self.alts), label=name)
            b.ctx.choices[name] = i
        elif name in b.values:
            v = b.values[name]
            i = v['choice'] if isinstance(v, dict) else int(v)
        else:
            i = b.rng.randrange(len(self.alts))
            b.values[name] = {'choice': i}
        return self.alts[i].build(b, name + '|%d' % i)

def NoneOr(shape):
    return OneOf(Const(None), shape)

class Obj(Shape):
    def __init__(self, cls, _derive=None, **fields):
        self.cls = cls
        self.fields = fields
        self.derive = _derive       # {field: fn(obj)} computed from the built fields (dependent fields)
    def build(self, b, name):
        cls = resolve(self.cls)
        if issubclass(cls, (list, dict)):
            obj = cls.__new__(cls)
        else:
            obj = object.__new__(cls)
        for f, sh in self.fields.items():
            if not isinstance(sh, Shape):
                sh = Const(sh)
            obj.__dict__[f] = sh.build(b, name + '.' + f)
        if self.derive:
            for f, fn in self.derive.items():
                obj.__dict__[f] = fn(obj)
        b.built[name] = obj
        return obj

class Tuple(Shape):
    def __init__(self, *items):
        self.items = [a if isinstance(a, Shape) else Const(a) for a in items]
    def build(self, b, name):
        return tuple(s.build(b, "%s[%d]" % (name, i)) for i, s in enumerate(self.items))

class List(Shape):
    def __init__(self, *items):
        self.items = [a if isinstance(a, Shape) else Const(a) for a in items]
    def build(self, b, name):
        return [s.build(b, "%s[%d]" % (name, i)) for i, s in enumerate(self.items)]

class Same(Shape):
    """the object already built under another name (aliasing on purpose)"""
    def __init__(self, other):
        self.other = other
    def build(self, b, name):
        return b.built[self.other]

class Fn(Shape):
    """escape hatch: build(b, name) supplied by the contract file"""
    def __init__(self, fn):
        self.fn = fn
    def build(self, b, name):
        return self.fn(b, name)

# ----------------------------------------------------------------------------
#   contract expressions
# ----------------------------------------------------------------------------

class _OldLift(ast.NodeTransformer):
    def __init__(self):
        self.olds = []
    def visit_Call(self, node):
        if isinstance(node.func, ast.Name) and node.func.id == 'old' and len(node.args) == 1:
            k = len(self.olds)
            self.olds.append(node.args[0])
            return ast.copy_location(ast.Name(id='_old_%d' % k, ctx=ast.Load()), node)
        return self.generic_visit(node)

class CExpr(object):
    """a contract expression with its old() sub-expressions lifted out"""
    def __init__(self, text):
        self.text = text
        tree = ast.parse(text.strip(), mode='eval')
        lift = _OldLift()
        self.body = ast.fix_missing_locations(lift.visit(tree).body)
        self.olds = [ast.fix_missing_locations(o) for o in lift.olds]
        self._code = None
        self._oldcodes = None

    # symbolic evaluation ----------------------------------------------
    def eval_olds(self, I, frame):
        return [snapshot(I.ev(o, frame)) for o in self.olds]

    def eval(self, I, frame, olds):
        for k, v in enumerate(olds):
            frame.locals['_old_%d' % k] = v
        return I.ev(self.body, frame)

    # native evaluation ------------------------------------------------
    def native_olds(self, glob, env):
        if self._oldcodes is None:
            self._oldcodes = [compile(ast.Expression(o), '<old:%s>' % self.text, 'eval') for o in self.olds]
        return [copy.deepcopy(eval(c, glob, dict(env))) for c in self._oldcodes]

    def native(self, glob, env, olds):
        if self._code is None:
            self._code = compile(ast.Expression(self.body), '<contract:%s>' % self.text, 'eval')
        env = dict(env)
        for k, v in enumerate(olds):
            env['_old_%d' % k] = v
        return eval(self._code, glob, env)

class Exactly(object):
    """post value: the target is a *new object* structurally equal to .obj
    (same class, same fields) -- built by a spec helper; verification compares
    field by field (never through the code's own __eq__), use assigns .obj"""
    def __init__(self, obj):
        self.obj = obj

def exactly(obj):
    return Exactly(obj) if obj is not None else None

def struct_eq(I, got, want):
    """structural equality for contract comparison (symbolic side)"""
    if isinstance(want, Exactly):
        want = want.obj
        if got is None or type(got) is not type(want):
            return False
        acc = True
        gd, wd = got.__dict__, want.__dict__
        if set(gd) != set(wd):
            return False
        for k in wd:
            r = struct_eq(I, gd[k], wd[k])
            if r is False:
                return False
            acc = I.and_(acc, r)
        return acc
    if isinstance(want, (list, tuple)) and isinstance(got, (list, tuple)) and type(want) is type(got) and any(isinstance(x, Exactly) for x in want):
        if len(got) != len(want):
            return False
        acc = True
        for a, b in zip(got, want):
            r = struct_eq(I, a, b)
            if r is False:
                return False
            acc = I.and_(acc, r)
        return acc
    return I.truth_term(I.eq(got, want))

def _unwrap(v):
    if isinstance(v, Exactly):
        return v.obj
    if isinstance(v, list):
        return [_unwrap(x) for x in v]
    if isinstance(v, tuple):
        return tuple(_unwrap(x) for x in v)
    return v

def snapshot(v):
    """immutable copy of a value for old()"""
    if isinstance(v, SBuf):
        return SBuf(v.chunks, False) if not v.mutable else SBuf(v.chunks, True)
    if isinstance(v, bytearray):
        return bytearray(v)
    if isinstance(v, list):
        return [snapshot(x) for x in v]
    if isinstance(v, dict):
        return {k: snapshot(x) for k, x in v.items()}
    if isinstance(v, tuple):
        return tuple(snapshot(x) for x in v)
    return v

class Path(object):
    """an assignable path: result | name(.attr)* with optional [:] suffix; a trailing `.*` (modifies only) means
    every attribute of that object"""
    def __init__(self, text):
        self.text = text
        t = text.strip()
        self.inplace = t.endswith('[:]')
        if self.inplace:
            t = t[:-3]
        self.wild = t.endswith('.*')
        if self.wild:
            t = t[:-2] + '.__any__' 
        self.expr = CExpr(t)
        node = self.expr.body
        self.is_result = isinstance(node, ast.Name) and node.id == 'result'
        if not self.is_result and not isinstance(node, (ast.Attribute, ast.Subscript, ast.Name)):
            raise ValueError("not an assignable path: %s" % text)
        self.key = t

# ----------------------------------------------------------------------------
#   registry
# ----------------------------------------------------------------------------

REGISTRY = {}       # contract id -> Contract
LEMMAS = {}         # lemma id -> Lemma

def buflen(v):
    """length of a bytes-like value in either world (for derived fields)"""
    if isinstance(v, SBuf):
        n = v.length()
        return n if isinstance(n, int) else mk_int(n)
    return len(v)

def _listify(x):
    if x is None:
        return []
    if isinstance(x, (str,)):
        return [x]
    return list(x)

class Contract(object):

    def __init__(self, target, params, requires=None, raises=None, post=None, ensures=None, modifies=None,
                 havoc=None, only_raises=None, unchanged_on_raise=None, name=None, namespace=None,
                 inputs=None, ghost=None, resolver=None, max_paths=None, note=None, trusted=False,
                 calls=None, applies_when=None, result_new=None, region=None, globals_=None, frame_on_raise=False, raise_ensures=None):
        self.target_spec = target
        self.name = name or (target if isinstance(target, str) else getattr(target, '__qualname__', str(target)))
        self.params = dict(params)
        self.requires = [CExpr(r) for r in _listify(requires)]
        self.raises = [(e, CExpr(c)) for (e, c) in (raises or [])]
        self.post = [(Path(p), CExpr(e)) for p, e in (post or {}).items()]
        self.ensures = [CExpr(e) for e in _listify(ensures)]
        self.modifies = [Path(p) for p in _listify(modifies)]
        self.havoc = [(Path(p), s) for p, s in (havoc or {}).items()]
        self.only_raises = tuple(only_raises) if only_raises is not None else None
        self.unchanged_on_raise = [CExpr(p) for p in _listify(unchanged_on_raise)]
        self.namespace = namespace if namespace is not None else {}
        self.resolver = resolver
        self.max_paths = max_paths
        self.note = note
        self.trusted = trusted        # contract assumed, body not verified (listed in evidence)
        self.applies_when = CExpr(applies_when) if applies_when else None
        self.result_new = result_new      # class spec: the result is a fresh instance of this class
        self.region = region              # fn(FunctionDef) -> list of statements: the contract is on that block of the function
        self.globals_ = dict(globals_ or {})   # name -> (module name, shape): module globals the function reads/writes
        self.frame_on_raise = frame_on_raise   # on a raising path nothing reachable from the inputs may have changed
        self.raise_ensures = [CExpr(e) for e in _listify(raise_ensures)]   # facts about the raised exception `exc`
        self._func = None
        self._sig = None

    @property
    def func(self):
        if self._func is None:
            f = self.resolver() if self.resolver else resolve(self.target_spec)
            if isinstance(f, (staticmethod, classmethod)):
                f = f.__func__
            self._func = f
        return self._func

    def qualname(self):
        f = self.func
        q = f.__module__.split('.')[-1] + '.' + f.__qualname__
        if self.name.endswith(']') and '[' in self.name:
            q += self.name[self.name.index('['):]      # several contracts on one function are told apart by their variant
        return q

    # -- frames -------------------------------------------------------------

    def _frame(self, env):
        fr = Frame(func=None, globs=self.namespace)
        fr.locals.update(env)
        return fr

    def _mentions_result(self):
        for e in self.ensures:
            for n in ast.walk(e.body):
                if isinstance(n, ast.Name) and n.id == 'result':
                    return True
        return False

    # -- use at call sites --------------------------------------------------

    def _args_in_domain(self, env):
        """a parameter declared as an object of class K covers instances of K only; a call passing something else
        (a str where the contract speaks of a CharacterString source, say) is outside what the contract was verified for"""
        for pname, sh in self.params.items():
            if type(sh) is not Obj or pname not in env:
                continue
            try:
                cls = resolve(sh.cls)
            except Exception:
                continue
            if isinstance(cls, type) and not isinstance(env[pname], cls):
                log = os.environ.get('VERIF_DOMAIN_LOG')
                if log:
                    with open(log, 'a') as f:
                        f.write("%s: %s is a %s, contract declares %s\n" % (self.name, pname, type(env[pname]).__name__, cls.__name__))
                return False
        return True

    def apply(self, I, func, args, kwargs):
        """replace a call by the contract: assert pre, raise per clause,
        assign the defining posts, havoc, assume ensures"""
        ctx = I.ctx
        if self.raise_ensures:
            # the contract constrains the raised exception (error codes): a call site needs the real exception object, so the body is interpreted there
            return NotImplemented
        covered = set(p.key for p, _ in self.post) | set(p.key for p, _ in self.havoc)
        if any(p.key not in covered for p in self.modifies) or (self.result_new is None and self.ensures and not any(p.is_result for p, _ in self.post)
                                                                and not any(p.is_result for p, _ in self.havoc) and self._mentions_result()):
            # the contract does not define the new value of something it modifies (or of the result):
            # it cannot stand in for the call -- the body is interpreted at this call site instead
            return NotImplemented
        if self._sig is None:
            self._sig = inspect.signature(self.func)
        try:
            ba = self._sig.bind(*args, **kwargs)
        except TypeError as e:
            raise PyRaise(e)
        ba.apply_defaults()
        env = dict(ba.arguments)
        if not self._args_in_domain(env):
            # the contract was stated (and verified) for another kind of argument than this call passes: it says nothing
            # about this call -- the body is interpreted at this call site instead
            return NotImplemented
        fr = self._frame(env)
        if self.applies_when is not None:
            if not I.truth(self.applies_when.eval(I, fr, self.applies_when.eval_olds(I, fr))):
                return NotImplemented
        I.cfg.used_contracts.add(self.name)
        caller = I.call_stack[-1] if I.call_stack else '<top>'
        for k, r in enumerate(self.requires):
            v = I.truth_term(r.eval(I, fr, r.eval_olds(I, fr)))
            ctx.oblige("callsite-pre/%s@%s/%d" % (self.qualname(), caller, k), v, detail=r.text)
        # pre-state values
        olds_post = [(p, e, e.eval_olds(I, fr)) for p, e in self.post]
        olds_ens = [(e, e.eval_olds(I, fr)) for e in self.ensures]
        for (E, c) in self.raises:
            cv = I.truth_term(c.eval(I, fr, c.eval_olds(I, fr)))
            if (cv is True) or (cv is not False and ctx.decide(cv.t)):
                raise PyRaise(E("<by contract of %s>" % self.qualname()))
        result = None
        if self.result_new is not None:
            rcls = resolve(self.result_new)
            result = object.__new__(rcls)
            fr.locals['result'] = result
        for (p, e, olds) in olds_post:
            v = _unwrap(e.eval(I, fr, olds))
            if p.is_result:
                result = v
                fr.locals['result'] = v
            else:
                self._assign(I, fr, p, v)
        sb = None
        for (p, sh) in self.havoc:
            if sb is None:
                sb = Builder('sym', ctx=ctx)
            v = sh.build(sb, 'havoc!%s!%s' % (self.qualname(), p.key))
            if p.is_result:
                result = v
                fr.locals['result'] = v
            else:
                self._assign(I, fr, p, v)
        fr.locals.setdefault('result', result)
        for (e, olds) in olds_ens:
            ctx.assume(I.truth_term(e.eval(I, fr, olds)))
        return result

    def _assign(self, I, fr, p, v):
        node = p.expr.body
        if p.inplace:
            cur = I.ev(node, fr)
            if isinstance(cur, SBuf) and cur.mutable:
                nb = v if isinstance(v, SBuf) else SBuf.from_bytes(v)
                cur.chunks[:] = nb.chunks
                return
            if isinstance(cur, list):
                cur[:] = list(v)
                return
            raise Unsupported("in-place post on %r" % (cur,))
        store = copy.copy(node)
        store.ctx = ast.Store()
        I.assign(store, v, fr)

    # -- verification against the real body ----------------------------------

    def build_inputs(self, b):
        env = {}
        for name, sh in self.params.items():
            if not isinstance(sh, Shape):
                sh = Const(sh)
            env[name] = sh.build(b, name)
        return env

    def call_args(self, env):
        if self.region is not None:
            return [], {}
        sig = inspect.signature(self.func)
        args = []
        kwargs = {}
        for pname, p in sig.parameters.items():
            if pname in env:
                if p.kind in (p.POSITIONAL_ONLY, p.POSITIONAL_OR_KEYWORD):
                    args.append(env[pname])
                elif p.kind == p.VAR_POSITIONAL:
                    args.extend(env[pname])
                elif p.kind == p.KEYWORD_ONLY:
                    kwargs[pname] = env[pname]
                elif p.kind == p.VAR_KEYWORD:
                    kwargs.update(env[pname])
            else:
                if p.default is p.empty and p.kind in (p.POSITIONAL_ONLY, p.POSITIONAL_OR_KEYWORD):
                    raise ValueError("contract %s gives no shape for parameter %s" % (self.name, pname))
                if p.kind in (p.POSITIONAL_ONLY, p.POSITIONAL_OR_KEYWORD):
                    args.append(p.default)
        return args, kwargs

    def program(self, cfg):
        """the verification program run along each path"""
        con = self
        def run(ctx):
            I = Interp(ctx, cfg)
            b = Builder('sym', ctx=ctx)
            env = con.build_inputs(b)
            gkeys = {}
            for gname, (gmod, gshape) in con.globals_.items():
                gv = (gshape if isinstance(gshape, Shape) else Const(gshape)).build(b, gname)
                gkeys[gname] = (id(importlib.import_module(gmod).__dict__), gname)
                I.goverlay[gkeys[gname]] = gv
                env[gname] = gv
            fr = con._frame(env)
            for r in con.requires:
                ctx.assume(I.truth_term(r.eval(I, fr, r.eval_olds(I, fr))))
            for kf in getattr(con, 'known', []):
                # known finding: its input region is carved out (pre and not kf => post)
                ke = CExpr(kf['when'])
                ctx.assume(I.not_(ke.eval(I, fr, ke.eval_olds(I, fr))))
            pre_objs = _collect_objects(env)
            pre_state = _snapshot_objects(pre_objs)
            olds_post = [(p, e, e.eval_olds(I, fr)) for p, e in con.post]
            olds_ens = [(e, e.eval_olds(I, fr)) for e in con.ensures]
            olds_unch = [(e, snapshot(I.ev(e.body, fr))) for e in con.unchanged_on_raise]
            inplace_ids = {}
            for p, e in con.post:
                if p.inplace:
                    inplace_ids[p.key] = I.ev(p.expr.body, fr)
            rconds = []
            for (E, c) in con.raises:
                rconds.append((E, I.truth_term(c.eval(I, fr, c.eval_olds(I, fr))), c.text))
            args, kwargs = con.call_args(env)
            q = con.qualname()
            try:
                if con.region is not None:
                    result = con.run_region(I, env)
                else:
                    result = I.call_function(con.func, args, kwargs, defclass=_defclass(con.func))
                exc = None
            except PyRaise as pr:
                exc = pr.exc
                result = None
            for gname, gk in gkeys.items():
                fr.locals[gname] = I.goverlay[gk]         # module globals as the function left them
            if exc is None:
                fr.locals['result'] = result
                if con.result_new is not None:
                    rcls = resolve(con.result_new)
                    fresh = type(result) is rcls and not any(result is o for o in pre_objs.values())
                    ctx.oblige("%s/result-is-fresh-%s" % (q, rcls.__name__), fresh)
                    if not fresh:
                        return 'return'
                for (E, cv, text) in rconds:
                    ctx.oblige("%s/returns-only-if-not(%s: %s)" % (q, E.__name__, text), I.not_(cv))
                for (p, e, olds) in olds_post:
                    try:
                        want = e.eval(I, fr, olds)
                        got = result if p.is_result else I.ev(p.expr.body, fr)
                        ok = struct_eq(I, got, want)
                    except PyRaise as pr:
                        ctx.oblige("%s/post:%s" % (q, p.key), False, detail="evaluating the contract expression %s raised %r" % (e.text, pr.exc))
                        continue
                    if p.inplace:
                        ctx.oblige("%s/post-inplace-identity:%s" % (q, p.key), got is inplace_ids[p.key])
                    ctx.oblige("%s/post:%s" % (q, p.key), ok, detail=e.text)
                for k, (e, olds) in enumerate(olds_ens):
                    try:
                        ok = I.truth_term(e.eval(I, fr, olds))
                    except PyRaise as pr:
                        ctx.oblige("%s/ensures:%s" % (q, e.text), False, detail="evaluating the contract expression raised %r" % (pr.exc,))
                        continue
                    ctx.oblige("%s/ensures:%s" % (q, e.text), ok)
                allowed = set(p.key for p, _ in con.post) | set(p.key for p in con.modifies) | set(p.key for p, _ in con.havoc)
                allowed_ids = set()
                for pth in [p for p, _ in con.post] + list(con.modifies) + [p for p, _ in con.havoc]:
                    node = pth.expr.body
                    if isinstance(node, ast.Attribute):
                        try:
                            parent = I.ev(node.value, fr)
                        except (PyRaise, Unsupported):
                            continue
                        allowed_ids.add((id(parent), node.attr))
                _frame_check(I, ctx, q, env, pre_objs, pre_state, allowed, allowed_ids)
                label = 'return'
            else:
                match = [cv for (E, cv, text) in rconds if isinstance(exc, E)]
                acc = False
                for cv in match:
                    acc = I.or_(acc, cv)
                if con.only_raises is not None and isinstance(exc, con.only_raises) and not match:
                    acc = True
                ctx.oblige("%s/raises:%s-only-when-specified" % (q, type(exc).__name__), acc,
                           detail="escaped %r %s at %s" % (exc, dict((k, v) for k, v in getattr(exc, '__dict__', {}).items() if isinstance(v, (str, int))), getattr(I, 'last_raise_stack', '')))
                for (e, oldv) in olds_unch:
                    ctx.oblige("%s/unchanged-on-raise:%s" % (q, e.text), I.truth_term(I.eq(I.ev(e.body, fr), oldv)))
                if con.frame_on_raise:
                    _frame_check(I, ctx, q + '/refused', env, pre_objs, pre_state, set(), set())
                fr.locals['exc'] = exc
                for e in con.raise_ensures:
                    try:
                        okv = I.truth_term(e.eval(I, fr, e.eval_olds(I, fr)))
                    except PyRaise as pr2:
                        okv = False
                    ctx.oblige("%s/on-raise:%s" % (q, e.text), okv)
                label = 'raise ' + type(exc).__name__
            return label
        return run

    # -- contracts on a block of a function ----------------------------------------

    def region_stmts(self):
        node = SOURCES.node_for(self.func)
        stmts = self.region(node)
        if not stmts:
            raise RuntimeError("contract %s: the code block it is attached to was not found" % self.name)
        return stmts

    def run_region(self, I, env):
        """interpret the selected statements of the real function in a frame
        whose locals are the contract's parameters"""
        from .interp import ReturnEx
        fr = Frame(func=self.func, globs=self.func.__globals__, defclass=_defclass(self.func))
        fr.locals.update(dict((k, v) for k, v in env.items() if k not in self.globals_))
        fr.self_obj = env.get('self')
        for n in ast.walk(SOURCES.node_for(self.func)):
            if isinstance(n, ast.Global):
                fr.global_names.update(n.names)
        I.call_stack.append(self.qualname() + '[block]')
        try:
            try:
                I.ex_block(self.region_stmts(), fr)
            except ReturnEx as r:
                return r.value
        finally:
            I.call_stack.pop()
        return None

    def run_region_native(self, env):
        """the block compiled as a function of the contract's parameters, with the
        enclosing function's `global` declarations, executed in the real module"""
        fnode = SOURCES.node_for(self.func)
        gnames = sorted(set(nm for n in ast.walk(fnode) if isinstance(n, ast.Global) for nm in n.names))
        params = [k for k in env if k not in self.globals_ and k.isidentifier()]
        body = ([ast.Global(names=gnames)] if gnames else []) + list(self.region_stmts())
        fdef = ast.FunctionDef(name='__region__', args=ast.arguments(posonlyargs=[], args=[ast.arg(arg=p) for p in params], vararg=None,
                               kwonlyargs=[], kw_defaults=[], kwarg=None, defaults=[]), body=body, decorator_list=[], returns=None, type_comment=None)
        mod = ast.fix_missing_locations(ast.Module(body=[fdef], type_ignores=[]))
        ns = {}
        exec(compile(mod, self.func.__code__.co_filename, 'exec'), self.func.__globals__, ns)
        return ns['__region__'](*[env[p] for p in params])

    # -- native replay -------------------------------------------------------

    def native_check(self, values, rng=None):
        """run the real function under CPython on concrete inputs and evaluate
        the contract natively.  returns (status, failures, info)"""
        b = Builder('native', values=dict(values), rng=rng or random.Random(0))
        env = self.build_inputs(b)
        saved_globals = []
        for gname, (gmod, gshape) in self.globals_.items():
            gv = (gshape if isinstance(gshape, Shape) else Const(gshape)).build(b, gname)
            mod = importlib.import_module(gmod)
            saved_globals.append((mod, gname, getattr(mod, gname)))
            setattr(mod, gname, gv)
            env[gname] = gv
        try:
            return self._native_check_body(b, env)
        finally:
            for mod, gname, orig in saved_globals:
                setattr(mod, gname, orig)

    def _native_check_body(self, b, env):
        glob = self.namespace
        failures = []
        try:
            for r in self.requires:
                if not r.native(glob, env, r.native_olds(glob, env)):
                    return 'precondition-false', [], {'requires': r.text}
        except Exception as e:
            return 'precondition-error', [], {'error': repr(e)}
        olds_post = [(p, e, e.native_olds(glob, env)) for p, e in self.post]
        olds_ens = [(e, e.native_olds(glob, env)) for e in self.ensures]
        olds_unch = [(e, copy.deepcopy(e.native(glob, env, []))) for e in self.unchanged_on_raise]
        rconds = [(E, bool(c.native(glob, env, c.native_olds(glob, env))), c.text) for (E, c) in self.raises]
        inplace_ids = {p.key: p.expr.native(glob, env, []) for p, e in self.post if p.inplace}
        pre_objs = _collect_objects(env)
        pre_state = {k: dict((a, _shallow(v)) for a, v in o.__dict__.items()) for k, o in pre_objs.items()}
        args, kwargs = self.call_args(env)
        f = self.func
        ext = _native_externals(b.values, unit=self)
        ext.__enter__()
        try:
            if self.region is not None:
                result = self.run_region_native(env)
            else:
                result = f(*args, **kwargs)
            exc = None
        except Exception as e:
            exc = e
            result = None
        finally:
            ext.__exit__()
        for gname, (gmod, gshape) in self.globals_.items():
            env[gname] = getattr(importlib.import_module(gmod), gname)
        if exc is None:
            env = dict(env, result=result)
            if self.result_new is not None and type(result) is not resolve(self.result_new):
                failures.append("result is %r, contract says a fresh %s" % (type(result).__name__, resolve(self.result_new).__name__))
            for (E, cv, text) in rconds:
                if cv:
                    failures.append("returned although %s was required when %s" % (E.__name__, text))
            for (p, e, olds) in olds_post:
                try:
                    want = e.native(glob, env, olds)
                    got = result if p.is_result else p.expr.native(glob, env, [])
                except Exception as ex:
                    if not failures:
                        failures.append("post %s: evaluating the contract expression %s raised %r" % (p.key, e.text, ex))
                    continue
                if p.inplace and got is not inplace_ids[p.key]:
                    failures.append("post %s: object was rebound, contract says updated in place" % p.key)
                if not _native_eq(got, want):
                    failures.append("post %s: got %r, contract %s gives %r" % (p.key, _short(got), e.text, _short(want)))
            for (e, olds) in olds_ens:
                try:
                    okv = e.native(glob, env, olds)
                except Exception as ex:
                    if not failures:
                        failures.append("ensures %s: evaluation raised %r" % (e.text, ex))
                    continue
                if not okv:
                    failures.append("ensures %s is false" % e.text)
            allowed = set(p.key for p, _ in self.post) | set(p.key for p in self.modifies) | set(p.key for p, _ in self.havoc)
            allowed_ids = set()
            for pth in [p for p, _ in self.post] + list(self.modifies) + [p for p, _ in self.havoc]:
                node = pth.expr.body
                if isinstance(node, ast.Attribute):
                    try:
                        parent = eval(compile(ast.Expression(node.value), '<path>', 'eval'), glob, dict(env))
                        allowed_ids.add((id(parent), node.attr))
                    except Exception:
                        pass
            for name, o in pre_objs.items():
                before = pre_state[name]
                after = o.__dict__
                for k in set(before) | set(after):
                    path = name + '.' + k
                    if path in allowed or (id(o), k) in allowed_ids or (id(o), '__any__') in allowed_ids:
                        continue
                    if k not in after or k not in before or not _shallow_same(before[k], after[k]):
                        failures.append("frame: %s changed (%r -> %r)" % (path, _short(before.get(k)), _short(after.get(k))))
            outcome = 'return'
        else:
            match = [cv for (E, cv, text) in rconds if isinstance(exc, E)]
            ok = any(match) or (self.only_raises is not None and isinstance(exc, self.only_raises) and not match)
            if not ok:
                failures.append("raised %r which the contract does not allow here" % (exc,))
            for (e, oldv) in olds_unch:
                if not _native_eq(e.native(glob, env, []), oldv):
                    failures.append("%s changed although the call raised" % e.text)
            if self.frame_on_raise:
                for name, o in pre_objs.items():
                    before = pre_state[name]
                    after = o.__dict__
                    for k in set(before) | set(after):
                        if k not in after or k not in before or not _shallow_same(before[k], after[k]):
                            failures.append("frame: %s.%s changed although the call was refused" % (name, k))
            for e in self.raise_ensures:
                try:
                    if not e.native(glob, dict(env, exc=exc), []):
                        failures.append("on raise: %s is false (exception %r)" % (e.text, exc))
                except Exception as ex2:
                    failures.append("on raise: %s raised %r" % (e.text, ex2))
            outcome = 'raise ' + type(exc).__name__
        return ('violated' if failures else 'holds'), failures, {'outcome': outcome, 'inputs': b.values}


def _short(v, n=120):
    s = repr(v)
    return s if len(s) <= n else s[:n] + '...'

def _shallow(v):
    """native frame snapshot: containers are copied one level deep (their members stay the same objects -- every
    reachable object is itself checked field by field), buffers by content"""
    if isinstance(v, bytearray):
        return bytes(v)
    if isinstance(v, list):
        return list(v)
    if isinstance(v, dict):
        return dict(v)
    if isinstance(v, set):
        return set(v)
    return v

def _scalar_same(x, y):
    if x is y:
        return True
    if hasattr(x, '__dict__') or hasattr(y, '__dict__'):
        return False
    try:
        if isinstance(x, (bytes, bytearray)) and isinstance(y, (bytes, bytearray)):
            return bytes(x) == bytes(y)
        return type(x) is type(y) and x == y
    except Exception:
        return False

def _shallow_same(before, after):
    if isinstance(before, (list, tuple)) and isinstance(after, (list, tuple)):
        return len(before) == len(after) and all(_scalar_same(x, y) for x, y in zip(before, after))
    if isinstance(before, dict) and isinstance(after, dict):
        try:
            return set(before) == set(after) and all(_scalar_same(before[k], after[k]) for k in before)
        except TypeError:
            return False
    if isinstance(before, set) and isinstance(after, set):
        return before == after
    return _scalar_same(before, after)

def _native_eq(a, b, _seen=None, _depth=0):
    """structural equality for native replays: objects without their own __eq__
    (compared against deep copies) are compared field by field"""
    if a is b:
        return True
    if _seen is None:
        _seen = set()
    key = (id(a), id(b))
    if key in _seen or _depth > 12:
        return True
    if isinstance(a, (list, tuple)) and isinstance(b, (list, tuple)) and type(a) is type(b):
        _seen.add(key)
        return len(a) == len(b) and all(_native_eq(x, y, _seen, _depth + 1) for x, y in zip(a, b))
    if isinstance(a, dict) and isinstance(b, dict):
        _seen.add(key)
        try:
            return set(a) == set(b) and all(_native_eq(a[k], b[k], _seen, _depth + 1) for k in a)
        except TypeError:
            return False
    if (not isinstance(b, Exactly) and type(a) is type(b) and hasattr(a, '__dict__') and not isinstance(a, type)
            and type(a).__eq__ is object.__eq__):
        _seen.add(key)
        return _native_eq(a.__dict__, b.__dict__, _seen, _depth + 1)
    if isinstance(a, types.MethodType) and isinstance(b, types.MethodType):
        return a.__func__ is b.__func__ and _native_eq(a.__self__, b.__self__, _seen, _depth + 1)
    return _native_eq0(a, b)

def _native_eq0(a, b):
    try:
        if isinstance(b, Exactly):
            b = b.obj
            if a is None or type(a) is not type(b) or set(a.__dict__) != set(b.__dict__):
                return False
            return all(_native_eq(a.__dict__[k], b.__dict__[k]) for k in b.__dict__)
        if isinstance(a, (bytes, bytearray)) and isinstance(b, (bytes, bytearray)):
            return bytes(a) == bytes(b)
        if isinstance(a, float) and isinstance(b, float) and a != a and b != b:
            return True
        if type(a) in (list, tuple) and type(b) in (list, tuple) and type(a) is type(b):
            return len(a) == len(b) and all(_native_eq(x, y) for x, y in zip(a, b))
        if type(a) is bool or type(b) is bool:
            return type(a) is type(b) and a == b if (isinstance(a, bool) and isinstance(b, bool)) else a == b
        return a == b
    except Exception:
        return a is b

def _defclass(func):
    """class in which a method is defined (for zero-argument super)"""
    qn = getattr(func, '__qualname__', '')
    if '.' not in qn or '<locals>' in qn:
        return None
    mod = sys.modules.get(func.__module__)
    obj = mod
    try:
        for part in qn.split('.')[:-1]:
            obj = getattr(obj, part)
    except AttributeError:
        return None
    return obj if isinstance(obj, type) else None

def _collect_objects(env):
    """instances (with __dict__) reachable from the parameters, by path name"""
    out = {}
    seen = set()
    def rec(name, v, depth):
        if isinstance(v, Sym) or v is None or isinstance(v, (int, float, str, bytes, bytearray, type, types.FunctionType, types.ModuleType)):
            return
        if id(v) in seen or depth > 6:
            return
        if isinstance(v, (list, tuple)):
            seen.add(id(v))
            for i, x in enumerate(v):
                rec("%s[%d]" % (name, i), x, depth + 1)
            return
        if isinstance(v, dict) and type(v).__module__ in ('builtins', 'collections'):
            seen.add(id(v))
            for k, x in list(v.items()):
                if isinstance(k, (str, int)):
                    rec("%s[%r]" % (name, k), x, depth + 1)
            return
        d = getattr(v, '__dict__', None)
        if isinstance(d, dict) and not isinstance(v, type):
            seen.add(id(v))
            out[name] = v
            for k, x in list(d.items()):
                rec(name + '.' + k, x, depth + 1)
    for name, v in env.items():
        rec(name, v, 0)
    return out

def _snapshot_objects(objs):
    return {name: {k: snapshot(v) for k, v in o.__dict__.items()} for name, o in objs.items()}

def _frame_check(I, ctx, q, env, pre_objs, pre_state, allowed, allowed_ids=()):
    """everything reachable from the inputs and not listed as modified is unchanged"""
    for name, o in pre_objs.items():
        before = pre_state[name]
        after = o.__dict__
        for k in sorted(set(before) | set(after)):
            path = name + '.' + k
            if path in allowed or (id(o), k) in allowed_ids or (id(o), '__any__') in allowed_ids:
                continue
            if k not in after:
                ctx.oblige("%s/frame:%s" % (q, path), False, detail="attribute deleted")
                continue
            if k not in before:
                ctx.oblige("%s/frame:%s" % (q, path), False, detail="attribute created but not listed in modifies")
                continue
            a, bb = before[k], after[k]
            if a is bb:
                continue
            if isinstance(bb, (list, dict)) and isinstance(a, type(bb)) and not has_sym(a) and not has_sym(bb):
                same = _plain_equal(a, bb)
                if same:
                    continue
            try:
                r = I.truth_term(I.eq(bb, a))
            except (PyRaise, Unsupported):
                r = False
            ctx.oblige("%s/frame:%s" % (q, path), r, detail="not listed in modifies")

def _plain_equal(a, b):
    try:
        if isinstance(a, list):
            return len(a) == len(b) and all((x is y) or (not hasattr(x, '__dict__') and x == y) for x, y in zip(a, b))
        if isinstance(a, dict):
            return set(a) == set(b) and all((a[k] is b[k]) or (not hasattr(a[k], '__dict__') and a[k] == b[k]) for k in a)
    except Exception:
        return False
    return False

def contract(target, **kw):
    ns = kw.pop('namespace', None)
    if ns is None:
        ns = sys._getframe(1).f_globals
    c = Contract(target, namespace=ns, **kw)
    c.module = ns.get('__name__')
    REGISTRY[c.name] = c
    return c

# ----------------------------------------------------------------------------
#   ghost traces for calls that leave the unit under proof
# ----------------------------------------------------------------------------

class TraceContract(object):
    """calls to the target append (channel, args) to ctx.trace and return a
    fixed value; the callee's body is outside the unit (listed as external)"""
    trusted = True
    def __init__(self, target, channel, returns=None, name=None, resolver=None, record=None, method=True, returns_shape=None,
                 may_raise=None):
        self.returns_shape = returns_shape      # each call returns a fresh value of this shape (recorded as an input)
        self.may_raise = may_raise              # exception class the call may raise (a decision), or None
        self.method = method        # the target is a method: the receiver is not recorded
        self.target_spec = target
        self.name = name or (target if isinstance(target, str) else str(target))
        self.channel = channel
        self.returns = returns
        self.resolver = resolver
        self.record = record
        self._func = None
    @property
    def func(self):
        if self._func is None:
            f = self.resolver() if self.resolver else resolve(self.target_spec)
            if isinstance(f, (staticmethod, classmethod)):
                f = f.__func__
            self._func = f
        return self._func
    def qualname(self):
        f = self.func
        return f.__module__.split('.')[-1] + '.' + f.__qualname__
    def apply(self, I, func, args, kwargs):
        I.cfg.used_contracts.add(self.name)
        rec = tuple(args[1:]) if self.method else tuple(args)
        k = len(I.ctx.trace.get(self.channel, []))
        ret = self.returns
        ext_values = getattr(I.cfg, 'ext_values', None)
        if self.returns_shape is not None:
            if ext_values is not None:      # concrete run (interpreter cross-check): the values the native run drew
                ret = self.returns_shape.build(Builder('interp', values=ext_values, rng=random.Random(k)), "ext!%s!%d" % (self.channel, k))
            else:
                ret = self.returns_shape.build(Builder('sym', ctx=I.ctx), "ext!%s!%d" % (self.channel, k))
            rec = rec + (ret,)
        I.ctx.trace.setdefault(self.channel, []).append((rec, dict(kwargs)))
        I.ctx.trace.setdefault(self.channel + '@', []).append((_then(rec), {}))
        I.ctx.trace.setdefault('*', []).append((self.channel, rec, dict(kwargs)))
        if self.may_raise is not None and ext_values is not None:
            if ext_values.get("ext!%s!%d!raises" % (self.channel, k)):
                raise PyRaise(self.may_raise("<raised by the external %s>" % self.channel))
        elif self.may_raise is not None:
            b = I.ctx.fresh_bool("ext!%s!%d!raises" % (self.channel, k), is_input=True)
            if I.ctx.decide(b.t):
                raise PyRaise(self.may_raise("<raised by the external %s>" % self.channel))
        return ret

_NATIVE_TRACE = {}

def _then(rec):
    """shallow copies of the object arguments of a traced call: their fields as they were when the call was made"""
    out = []
    for a in rec:
        if hasattr(a, '__dict__') and not isinstance(a, (type, types.ModuleType, types.FunctionType)) and type(a).__module__.startswith('bacpypes'):
            c = object.__new__(type(a))
            c.__dict__.update(a.__dict__)
            out.append(c)
        else:
            out.append(a)
    return tuple(out)

def trace_then(channel):
    """like trace(), but each object argument is a shallow copy taken at the moment of the call (the same object may be re-addressed
    and handed on afterwards); use trace() where identity matters"""
    return [a for (a, k) in _NATIVE_TRACE.get(channel + '@', [])]

def _m_trace_then(I, channel):
    return [a for (a, k) in I.ctx.trace.get(channel + '@', [])]

def trace(channel):
    """in lemma bodies / contract expressions: the list of argument tuples of
    the calls made so far on a ghost-traced external channel"""
    return [a for (a, k) in _NATIVE_TRACE.get(channel, [])]

def trace_kw(channel):
    """keyword arguments of the calls made so far on a ghost-traced channel"""
    return [k for (a, k) in _NATIVE_TRACE.get(channel, [])]

def _m_trace_kw(I, channel):
    return [k for (a, k) in I.ctx.trace.get(channel, [])]

def _m_trace(I, channel):
    return [a for (a, k) in I.ctx.trace.get(channel, [])]

class _native_externals(object):
    """native replay: every ghost-traced external is replaced by a recorder"""
    def __init__(self, values=None, unit=None):
        self.values = values if values is not None else {}
        self.unit = unit
    def __enter__(self):
        self.saved = []
        values = self.values
        _NATIVE_TRACE.clear()
        for c in REGISTRY.values():
            if isinstance(c, TraceContract) and isinstance(c.target_spec, str) and _in_scope(c, self.unit):
                modname, _, qual = c.target_spec.partition(':')
                owner_spec, _, attr = qual.rpartition('.')
                owner = resolve(modname + (':' + owner_spec if owner_spec else ''))
                orig = owner.__dict__.get(attr) if isinstance(owner, type) else getattr(owner, attr)
                def mk(c=c):
                    def rec(*a, **k):
                        n = len(_NATIVE_TRACE.get(c.channel, []))
                        r = tuple(a[1:]) if c.method else tuple(a)
                        ret = c.returns
                        if c.returns_shape is not None:
                            ret = c.returns_shape.build(Builder('native', values=values, rng=random.Random(n)), "ext!%s!%d" % (c.channel, n))
                            r = r + (ret,)
                        _NATIVE_TRACE.setdefault(c.channel, []).append((r, dict(k)))
                        _NATIVE_TRACE.setdefault(c.channel + '@', []).append((_then(r), {}))
                        if c.may_raise is not None and values.get("ext!%s!%d!raises" % (c.channel, n)):
                            raise c.may_raise("<raised by the external %s>" % c.channel)
                        return ret
                    return rec
                setattr(owner, attr, mk())
                self.saved.append((owner, attr, orig))
        # trusted summary contracts come with a native stand-in implementing their post (the real callee is outside the unit)
        for target_spec, stub in NATIVE_STUBS:
            modname, _, qual = target_spec.partition(':')
            owner_spec, _, attr = qual.rpartition('.')
            owner = resolve(modname + (':' + owner_spec if owner_spec else ''))
            orig = owner.__dict__.get(attr) if isinstance(owner, type) else getattr(owner, attr)
            setattr(owner, attr, stub)
            self.saved.append((owner, attr, orig))
        return self
    def __exit__(self, *exc):
        for owner, attr, orig in reversed(self.saved):
            setattr(owner, attr, orig)
        return False

NATIVE_STUBS = []

def native_stub(target_spec, fn):
    """native replays / cross-checks run `fn` in place of the target (the stand-in of a trusted summary contract)"""
    NATIVE_STUBS.append((target_spec, fn))

def external(target, channel, local=False, **kw):
    """local=True: the external holds only for the units of the module that declares it (another module of the same plan may put the
    same function under contract with its real body)"""
    c = TraceContract(target, channel, **kw)
    c.module = sys._getframe(1).f_globals.get('__name__')
    c.local = local
    REGISTRY[c.name + ('@' + c.module if local else '')] = c
    return c

# ----------------------------------------------------------------------------
#   lemmas: client programs over contracts
# ----------------------------------------------------------------------------

class Lemma(object):
    def __init__(self, name, fn, params, uses_bodies=(), max_paths=None, note=None):
        self.name = name
        self.fn = fn
        self.params = params
        self.uses_bodies = tuple(uses_bodies)   # contract names whose *bodies* are inlined instead (listed)
        self.max_paths = max_paths
        self.note = note
        self.trusted = False

    def build_inputs(self, b):
        env = {}
        for name, sh in self.params.items():
            if not isinstance(sh, Shape):
                sh = Const(sh)
            env[name] = sh.build(b, name)
        return env

    def program(self, cfg):
        lem = self
        def run(ctx):
            I = Interp(ctx, cfg)
            b = Builder('sym', ctx=ctx)
            env = lem.build_inputs(b)
            sig = inspect.signature(lem.fn)
            args = [env[p] for p in sig.parameters]
            for kf in getattr(lem, 'known', []):
                ke = CExpr(kf['when'])
                kfr = Frame(func=None, globs=lem.fn.__globals__)
                kfr.locals.update(env)
                ctx.assume(I.not_(ke.eval(I, kfr, ke.eval_olds(I, kfr))))
            try:
                I.call_function(lem.fn, args, {})
                return 'return'
            except PyRaise as pr:
                ctx.oblige("%s/no-exception" % lem.name, False,
                           detail="lemma program raised %r at %s" % (pr.exc, '>'.join(I.call_stack)))
                return 'raise ' + type(pr.exc).__name__
        return run

    def native_check(self, values, rng=None):
        b = Builder('native', values=dict(values), rng=rng or random.Random(0))
        env = self.build_inputs(b)
        sig = inspect.signature(self.fn)
        args = [env[p] for p in sig.parameters]
        failures = []
        _NATIVE_STATE['failures'] = failures
        _NATIVE_STATE['skip'] = False
        try:
            with _native_externals(b.values):
                self.fn(*args)
            outcome = 'return'
        except _RequiresFalse:
            return 'precondition-false', [], {'inputs': b.values}
        except Exception as e:
            failures.append("lemma program raised %r" % (e,))
            outcome = 'raise ' + type(e).__name__
        return ('violated' if failures else 'holds'), failures, {'outcome': outcome, 'inputs': b.values}

class _RequiresFalse(Exception):
    pass

_NATIVE_STATE = {'failures': None}

def requires(cond):
    """in a lemma body: assumption (native run: skip the case when false)"""
    if not cond:
        raise _RequiresFalse()

def check(cond, label="check"):
    """in a lemma body: proof obligation (native run: recorded failure)"""
    if not cond:
        _NATIVE_STATE['failures'].append("check failed: %s" % label)

def _m_requires(I, cond):
    I.ctx.assume(I.truth_term(cond))

def _m_check(I, cond, label="check"):
    name = I.cfg.current_lemma if getattr(I.cfg, 'current_lemma', None) else 'lemma'
    I.ctx.oblige("%s/check:%s" % (name, label), I.truth_term(cond))

def lemma(name, params, **kw):
    def deco(fn):
        LEMMAS[name] = Lemma(name, fn, params, **kw)
        return fn
    return deco

# ----------------------------------------------------------------------------
#   engine: verify one unit (contract or lemma)
# ----------------------------------------------------------------------------

class UnitResult(object):
    def __init__(self, name, kind):
        self.name = name
        self.kind = kind            # 'function' | 'lemma'
        self.clauses = {}           # clause name -> dict(status, paths, solver_s, failures=[...])
        self.paths = 0
        self.completed = 0
        self.live = 0
        self.outcomes = {}
        self.unsupported = []
        self.budget = []
        self.solver_s = 0.0
        self.checks = 0
        self.assumptions = []
        self.inlined = []
        self.used_contracts = []
        self.notes = []
        self.wall_s = 0.0
        self.error = None

    def status(self):
        if self.error:
            return 'error'
        if self.unsupported or self.budget:
            return 'undecided'
        st = [c['status'] for c in self.clauses.values()]
        if any(s == 'refuted' for s in st):
            return 'refuted'
        if any(s == 'unknown' for s in st):
            return 'undecided'
        return 'proved'

    def to_json(self):
        return {k: getattr(self, k) for k in ('name', 'kind', 'clauses', 'paths', 'completed', 'live', 'outcomes',
                                              'unsupported', 'budget', 'solver_s', 'checks', 'assumptions', 'inlined',
                                              'used_contracts', 'notes', 'wall_s', 'error')}

class _ContractChoice(object):
    def __init__(self, alts):
        self.alts = list(alts)
    def apply(self, I, func, args, kwargs):
        for c in self.alts:
            r = c.apply(I, func, args, kwargs)
            if r is not NotImplemented:
                return r
        return NotImplemented

EXTRA_MODELS = {}       # id(callable) -> model(I, *args, **kwargs), registered by contract modules

def register_model(target, fn):
    EXTRA_MODELS[id(target)] = fn
    _KEEP.append(target)

_KEEP = []

def _in_scope(c, unit):
    return not getattr(c, 'local', False) or unit is None or getattr(unit, 'module', None) == c.module

def make_config(repo_root, verif_root, unit=None, extra_models=None):
    cfg = Config([repo_root], [verif_root])
    cfg.models.update(EXTRA_MODELS)
    for c in REGISTRY.values():
        if not _in_scope(c, unit):
            continue
        try:
            f = c.func
        except Exception as e:
            raise RuntimeError("contract %s: cannot resolve target: %r" % (c.name, e))
        if getattr(c, 'region', None) is not None:
            continue        # a contract on a block is verified, never substituted for calls of the function
        if isinstance(c, TraceContract) and not isinstance(f, types.FunctionType):
            cfg.models[id(f)] = (lambda c_, f_: (lambda I, *a, **k: c_.apply(I, f_, a, k)))(c, f)
            cfg.contract_funcs[id(f)] = f
            continue
        prev = cfg.contracts.get(id(f))
        if prev is not None and prev is not c:
            # several contracts on one function, told apart by applies_when: tried in registration order
            if isinstance(prev, _ContractChoice):
                prev.alts.append(c)
            else:
                cfg.contracts[id(f)] = _ContractChoice([prev, c])
        else:
            cfg.contracts[id(f)] = c
        cfg.contract_funcs[id(f)] = f
    cfg.models[id(requires)] = _m_requires
    cfg.models[id(check)] = _m_check
    cfg.models[id(trace)] = _m_trace
    cfg.models[id(trace_kw)] = _m_trace_kw
    cfg.models[id(trace_then)] = _m_trace_then
    if extra_models:
        cfg.models.update(extra_models)
    return cfg

def verify_unit(unit, repo_root, verif_root, rlimit=20000000, timeout_ms=60000, max_paths=4000, extra_models=None):
    """verify a Contract against its body, or a Lemma against contracts"""
    t0 = time.time()
    is_lemma = isinstance(unit, Lemma)
    res = UnitResult(unit.name, 'lemma' if is_lemma else 'function')
    try:
        cfg = make_config(repo_root, verif_root, unit=unit, extra_models=extra_models)
        if is_lemma:
            cfg.target = None
            cfg.current_lemma = unit.name
            for nm in unit.uses_bodies:
                c = REGISTRY[nm]
                cur = cfg.contracts.get(id(c.func))
                if isinstance(cur, _ContractChoice):
                    cur.alts = [a for a in cur.alts if a is not c]
                else:
                    cfg.contracts.pop(id(c.func), None)
        else:
            cfg.target = unit.func
        prog = unit.program(cfg)
        live = [0]
        def wrapped(ctx):
            label = prog(ctx)
            if ctx._check() == z3.sat:
                live[0] += 1
            return label
        er = explore(wrapped, max_paths=unit.max_paths or max_paths, rlimit=rlimit, timeout_ms=timeout_ms)
        res.paths, res.completed, res.live = er.paths, er.completed, live[0]
        res.outcomes = er.outcomes
        res.unsupported = [m for (_, m) in er.unsupported][:10]
        res.budget = er.budget
        res.solver_s = er.solver_time
        res.checks = er.checks
        res.assumptions = sorted(er.assumptions)
        res.notes = sorted(set(er.notes))[:20]
        res.inlined = sorted(cfg.inlined)
        res.used_contracts = sorted(cfg.used_contracts)
        for ob in er.obligations:
            c = res.clauses.setdefault(ob.name, {'status': 'proved', 'paths': 0, 'solver_s': 0.0, 'failures': [], 'max_size': 0, 'cvc5_paths': 0})
            c['paths'] += 1
            if ob.backend == 'cvc5':
                c['cvc5_paths'] += 1
            c['solver_s'] += ob.solver_s
            c['max_size'] = max(c['max_size'], ob.size)
            if ob.status == 'refuted':
                c['status'] = 'refuted'
                if len(c['failures']) < 3:
                    c['failures'].append({'inputs': ob.inputs, 'detail': ob.detail, 'path': ob.path})
            elif ob.status == 'unknown':
                if c['status'] != 'refuted':
                    c['status'] = 'unknown'
                if len(c['failures']) < 3:
                    c['failures'].append({'unknown': True, 'detail': ob.detail, 'smt2': ob.model})
    except Exception as e:
        res.error = "%s\n%s" % (repr(e), traceback.format_exc())
    res.wall_s = time.time() - t0
    return res
