"""
pyvc.bitfield -- canonical forms for the shift/mask/multiply/add idioms of
byte- and bit-shuffling codecs.

A non-negative int-like symbolic value may carry a *segment view*: a list of
segments, most significant first, each

    (B, Bbits, lo, w)    the w bits [lo, lo+w) of a base term B:
                         (B div 2**lo) mod 2**w           (Bbits: possible-bits
                         mask of B when B is known non-negative, else None)
    (None, None, 0, w)   w zero bits

and the value is the concatenation.  Shifts, masks, multiplication and
division by powers of two, and the addition / or-ing of values whose non-zero
segments do not overlap are done exactly on this view, so that

    (w >> 24) & 0xFF, (w >> 16) & 0xFF, ...     ((b0*256 + b1)*256 + b2)*256 + b3
    x |= bit << (7 - j)                         (x // 2**(7 - j)) % 2

meet in syntactically equal terms (and collapse to the base itself when the
segments cover all of it) instead of leaving div/mod recomposition identities
to the solver.  Every operation here is an exact identity on integers; when a
case is not covered the function returns None and the caller falls back to
the plain arithmetic encoding.
"""

import z3
from .sym import SInt, SBool, int_term

REG = {}        # z3 term id -> (term, segs, bits, tz): octets stored as raw terms in buffers keep their view

def _pow2(n):
    if isinstance(n, bool) or not isinstance(n, int) or n <= 0 or (n & (n - 1)):
        return None
    return n.bit_length() - 1

def _shifted_mask(n):
    """(s, w) if n == (2**w - 1) << s else None"""
    if isinstance(n, bool) or not isinstance(n, int) or n <= 0:
        return None
    s = (n & -n).bit_length() - 1
    m = n >> s
    if m & (m + 1):
        return None
    return s, m.bit_length()

def _zero(w):
    return (None, None, 0, w)

def _seg_mask(seg):
    B, Bb, lo, w = seg
    if B is None:
        return 0
    m = (1 << w) - 1
    if Bb is not None:
        m &= (Bb >> lo)
    return m

def _is_zero(seg):
    return seg[0] is None or _seg_mask(seg) == 0

def of(v):
    """segment view of a value, or None"""
    if isinstance(v, SInt):
        if v.fld is not None:
            return v.fld
        if v.bits is not None:
            if v.bits == 0:
                return []
            return [(v.t, v.bits, 0, v.bits.bit_length())]
        return None
    if isinstance(v, SBool):
        return [(int_term(v), 1, 0, 1)]
    if isinstance(v, bool):
        v = int(v)
    if isinstance(v, int) and v >= 0:
        if v == 0:
            return []
        return [(z3.IntVal(v), v, 0, v.bit_length())]
    return None

def _width(segs):
    return sum(s[3] for s in segs)

def _cut(seg, k):
    """split a segment at bit k (0 < k < w): (high, low)"""
    B, Bb, lo, w = seg
    if B is None:
        return _zero(w - k), _zero(k)
    return (B, Bb, lo + k, w - k), (B, Bb, lo, k)

def _split_at(segs, k):
    """(high part, low k bits) of a segment list"""
    if k <= 0:
        return list(segs), []
    low = []
    rest = list(segs)
    need = k
    while rest and need > 0:
        s = rest.pop()
        if s[3] <= need:
            low.insert(0, s)
            need -= s[3]
        else:
            hi, lo_ = _cut(s, need)
            low.insert(0, lo_)
            rest.append(hi)
            need = 0
    return rest, low

def _norm(segs):
    out = []
    for s in segs:
        if s[3] <= 0:
            continue
        if _is_zero(s):
            s = _zero(s[3])
        if out:
            p = out[-1]
            if p[0] is None and s[0] is None:
                out[-1] = _zero(p[3] + s[3])
                continue
            if p[0] is not None and s[0] is not None and p[0].eq(s[0]) and p[2] == s[2] + s[3]:
                out[-1] = (s[0], s[1], s[2], p[3] + s[3])
                continue
        out.append(s)
    while out and out[0][0] is None:
        out.pop(0)
    return out

def _seg_term(seg):
    B, Bb, lo, w = seg
    t = B if lo == 0 else B / z3.IntVal(1 << lo)
    if Bb is None or Bb.bit_length() > lo + w:
        t = t % z3.IntVal(1 << w)
    return t

def value(segs):
    """the canonical value (python int or SInt) of a segment list"""
    segs = _norm(segs)
    if not segs:
        return 0
    off = _width(segs)
    total = None
    bits = 0
    for s in segs:
        off -= s[3]
        if s[0] is None:
            continue
        t = _seg_term(s)
        if off:
            t = t * z3.IntVal(1 << off)
        total = t if total is None else total + t
        bits |= _seg_mask(s) << off
    if total is None:
        return 0
    total = z3.simplify(total)
    if z3.is_int_value(total):
        return total.as_long()
    tz = 0
    if segs[-1][0] is None:
        tz = segs[-1][3]
    r = SInt(total, bits, tz)
    if not (len(segs) == 1 and segs[0][2] == 0 and segs[0][1] is not None and segs[0][1].bit_length() <= segs[0][3]):
        r.fld = segs
    REG[total.get_id()] = (total, r.fld, bits, tz)
    return r

def wrap(term, default_bits=None):
    """SInt for a raw term, with its registered view if it has one"""
    ent = REG.get(term.get_id())
    if ent is not None and ent[0].eq(term):
        r = SInt(term, ent[2], ent[3])
        r.fld = ent[1]
        return r
    return SInt(term, default_bits)

def field(B, Bbits, lo, w):
    """the value (B div 2**lo) mod 2**w"""
    return value([(B, Bbits, lo, w)])

def rshift(v, k):
    s = of(v)
    if s is None or k < 0:
        return None
    hi, _ = _split_at(s, k)
    return value(hi)

def lshift(v, k):
    s = of(v)
    if s is None or k < 0:
        return None
    return value(list(s) + ([_zero(k)] if k else []))

def modpow2(v, k):
    s = of(v)
    if s is None or k < 0:
        return None
    _, lo = _split_at(s, k)
    return value(lo)

def and_mask(v, m):
    sm = _shifted_mask(m)
    s = of(v)
    if sm is None or s is None:
        return None
    sh, w = sm
    hi, _ = _split_at(s, sh)
    _, mid = _split_at(hi, w)
    return value(list(mid) + ([_zero(sh)] if sh else []))

def add(a, b):
    """a + b (== a | b) when the non-zero segments of a and b do not overlap"""
    sa, sb = of(a), of(b)
    if sa is None or sb is None:
        return None
    wa, wb = _width(sa), _width(sb)
    W = max(wa, wb)
    if wa < W:
        sa = [_zero(W - wa)] + list(sa)
    if wb < W:
        sb = [_zero(W - wb)] + list(sb)
    # cut both lists at the union of their boundaries (positions counted from the LSB)
    def bounds(segs):
        out = set()
        off = W
        for s in segs:
            off -= s[3]
            out.add(off)
        return out
    cuts = sorted((bounds(sa) | bounds(sb)) - {0}, reverse=True)
    def refine(segs):
        pieces = []
        rest = list(segs)
        # walk from the MSB, cutting at each boundary
        pos = W
        out = []
        for s in rest:
            top = pos
            bot = pos - s[3]
            inner = [c for c in cuts if bot < c < top]
            cur = s
            curtop = top
            for c in inner:            # descending
                hi, lo_ = _cut(cur, c - bot)
                out.append(hi)
                cur = lo_
            out.append(cur)
            pos = bot
        return out
    ra, rb = refine(sa), refine(sb)
    if len(ra) != len(rb):
        return None
    merged = []
    for x, y in zip(ra, rb):
        if x[3] != y[3]:
            return None
        if _is_zero(x):
            merged.append(y)
        elif _is_zero(y):
            merged.append(x)
        else:
            return None
    return value(merged)

def try_binop(opname, a, b):
    """canonical result of an integer operation, or None when the segment
    algebra does not apply; opname in '>>','<<','//','%','&','*','+','|'"""
    if opname == '>>' and isinstance(b, int) and not isinstance(b, bool):
        return rshift(a, b)
    if opname == '<<' and isinstance(b, int) and not isinstance(b, bool):
        return lshift(a, b)
    if opname == '//':
        k = _pow2(b)
        return rshift(a, k) if k is not None else None
    if opname == '%':
        k = _pow2(b)
        return modpow2(a, k) if k is not None else None
    if opname == '*':
        for (x, y) in ((a, b), (b, a)):
            k = _pow2(y)
            if k is not None and isinstance(x, (SInt, SBool)):
                return lshift(x, k)
        return None
    if opname == '&':
        for (x, y) in ((a, b), (b, a)):
            if isinstance(y, int) and not isinstance(y, bool) and y >= 0 and isinstance(x, (SInt, SBool)):
                return and_mask(x, y)
        return None
    if opname in ('+', '|'):
        if isinstance(a, (SInt, SBool)) or isinstance(b, (SInt, SBool)):
            return add(a, b)
        return None
    return None
