"""
pyvc.models -- models of builtins and of the few stdlib functions the target
code calls with symbolic arguments.  Every model that is an *axiom* (not a
definitional encoding) registers its name in ctx.assumptions when used.
"""

import builtins
import copy as _copy_mod
import struct as _struct
import types

import z3

from .sym import (Sym, SInt, SBool, SReal, SBuf, SOpaque, SIPStr, SDecStr, Blob, Unsupported, mk_int, mk_bool, mk_real,
                  int_term, real_term, bool_term, is_intlike, is_reallike, bits_of, buf_of, is_buflike,
                  _mask_upto, _t, _add)
from . import bufops

_MODELS = {}

def model(*targets):
    def deco(fn):
        for t in targets:
            _MODELS[id(t)] = (t, fn)
        return fn
    return deco

def lookup(interp, f):
    ent = _MODELS.get(id(f))
    if ent is not None and ent[0] is f:
        return ent[1]
    ent = interp.cfg.models.get(id(f))
    if ent is not None:
        return ent
    # bound builtin methods (list.append etc.) with symbolic args
    if isinstance(f, types.BuiltinMethodType) and getattr(f, '__self__', None) is not None \
            and not isinstance(f.__self__, types.ModuleType):
        owner = f.__self__
        name = f.__name__
        if (type(owner), name) in _STRUCTURAL_METHODS:
            return lambda interp_, *a, **kw: f(*a, **kw)
        m = _METHOD_MODELS.get((type(owner), name))
        if m is None:
            for k in type(owner).__mro__:
                m = _METHOD_MODELS.get((k, name))
                if m is not None:
                    break
        if m is not None:
            return lambda interp_, *a, **kw: m(interp_, owner, *a, **kw)
    return None

def _raise(interp, exc):
    from .interp import PyRaise
    raise PyRaise(exc)

# ----------------------------------------------------------------------------
#   builtins
# ----------------------------------------------------------------------------

@model(builtins.len)
def m_len(I, v):
    if isinstance(v, SBuf):
        n = v.length()
        return n if isinstance(n, int) else mk_int(n)
    if isinstance(v, Sym):
        _raise(I, TypeError("object of type %s has no len()" % type(v).__name__))
    if isinstance(v, (list, tuple, dict, set, frozenset, str, bytes, bytearray, range)):
        return len(v)
    f = I.lookup_class_attr(type(v), '__len__')
    if f is not None and isinstance(f[0], types.FunctionType) and I.cfg.interpretable(f[0]):
        return I.call_function(f[0], [v], {}, defclass=f[1])
    try:
        return len(v)
    except Exception as e:
        _raise(I, e)

@model(builtins.isinstance)
def m_isinstance(I, v, cls):
    from .interp import pytype_of
    if isinstance(v, Sym):
        t = pytype_of(v)
        try:
            return issubclass(t, cls)
        except TypeError as e:
            _raise(I, e)
    try:
        return isinstance(v, cls)
    except TypeError as e:
        _raise(I, e)

@model(builtins.type)
def m_type(I, *args):
    from .interp import pytype_of
    if len(args) == 1:
        return pytype_of(args[0])
    return type(*args)

@model(builtins.id)
def m_id(I, v):
    return id(v)

@model(builtins.hash)
def m_hash(I, v):
    if isinstance(v, Sym) or I._is_repo_instance(v):
        f = I.lookup_class_attr(type(v), '__hash__') if not isinstance(v, Sym) else None
        if f is not None and isinstance(f[0], types.FunctionType) and I.cfg.interpretable(f[0]):
            return I.call_function(f[0], [v], {}, defclass=f[1])
        if isinstance(v, Sym):
            raise Unsupported("hash of symbolic value")
    from .interp import has_sym
    if has_sym(v):
        return hash_model(I, v)
    return hash(v)

def hash_model(I, v):
    """hash of a tuple with symbolic members: an uninterpreted function of the
    members (equal tuples hash equal -- the only property relied on)"""
    I.ctx.assumptions.add("hash(): equal tuples hash equally (uninterpreted function of the members)")
    if isinstance(v, tuple):
        h = z3.IntVal(len(v))
        H = z3.Function('hash!pair', z3.IntSort(), z3.IntSort(), z3.IntSort())
        for x in v:
            h = H(h, _hash_term(I, x))
        return mk_int(h)
    return mk_int(_hash_term(I, v))

def _hash_term(I, x):
    if x is None:
        return z3.IntVal(-7)
    if isinstance(x, Sym) and not isinstance(x, (SBuf, SOpaque)):
        t = int_term(x)
        if t is not None:
            return t
    if isinstance(x, (bool, int)):
        return z3.IntVal(int(x))
    if isinstance(x, (bytes, bytearray)):
        x = SBuf.from_bytes(x)
    if isinstance(x, SBuf):
        HB = z3.Function('hash!oct', z3.IntSort(), z3.IntSort(), z3.IntSort())
        octs = bufops.expand(I.ctx, x)      # case split on the length when it is symbolic (bounded by the path condition)
        h = z3.IntVal(len(octs))
        for c in octs:
            h = HB(h, int_term(c))
        return h
    if isinstance(x, tuple):
        return int_term(hash_model(I, x))
    if isinstance(x, str):
        return z3.IntVal(hash(x) if False else sum(ord(c) * 131 ** i for i, c in enumerate(x)) + 1000003)
    raise Unsupported("hash of %s" % type(x).__name__)

@model(builtins.int)
def m_int(I, *args, **kw):
    if not args:
        return 0
    v = args[0]
    if isinstance(v, SInt):
        return v
    if isinstance(v, SBool):
        return mk_int(int_term(v), 1)
    if isinstance(v, SReal):
        # int() truncates toward zero
        I.ctx.assumptions.add("float arithmetic treated as exact real arithmetic")
        t = v.t
        return mk_int(z3.If(t >= 0, z3.ToInt(t), -z3.ToInt(-t)))
    if isinstance(v, SDecStr):
        I.ctx.assumptions.add("int(decimal text of n) == n (trusted)")
        return v.value
    if isinstance(v, Sym):
        raise Unsupported("int() of %s" % type(v).__name__)
    f = I.lookup_class_attr(type(v), '__int__') if I._is_repo_instance(v) else None
    if f is not None and isinstance(f[0], types.FunctionType):
        return I.call_function(f[0], [v], {}, defclass=f[1])
    try:
        return int(*args, **kw)
    except Exception as e:
        _raise(I, e)

@model(builtins.bool)
def m_bool(I, v=False):
    return I.truth_term(v)

@model(builtins.float)
def m_float(I, v=0.0):
    if isinstance(v, SReal):
        return v
    if isinstance(v, (SInt, SBool)):
        return mk_real(z3.ToReal(int_term(v)))
    if isinstance(v, Sym):
        raise Unsupported("float() of %s" % type(v).__name__)
    try:
        return float(v)
    except Exception as e:
        _raise(I, e)

@model(builtins.str, builtins.repr, builtins.format)
def m_str(I, *args, **kw):
    from .interp import has_sym, SYM_PLACEHOLDER_STR
    if any(has_sym(a) for a in args):
        return SYM_PLACEHOLDER_STR
    if args and I._is_repo_instance(args[0]):
        for name in ('__str__', '__repr__'):
            f = I.lookup_class_attr(type(args[0]), name)
            if f is not None and isinstance(f[0], types.FunctionType) and I.cfg.interpretable(f[0]):
                return I.call_function(f[0], [args[0]], {}, defclass=f[1])
    try:
        return str(*args, **kw)
    except Exception as e:
        _raise(I, e)

@model(builtins.abs)
def m_abs(I, v):
    if isinstance(v, SReal):
        return mk_real(z3.If(v.t >= 0, v.t, -v.t))
    if isinstance(v, (SInt, SBool)):
        t = int_term(v)
        return mk_int(z3.If(t >= 0, t, -t))
    return abs(v)

def _minmax(I, args, kw, is_min):
    if len(args) == 1:
        args = I.iterate(args[0])
    if not args:
        if 'default' in kw:
            return kw['default']
        _raise(I, ValueError("min()/max() arg is an empty sequence"))
    key = kw.get('key')
    best = args[0]
    for x in args[1:]:
        import ast
        a, b = (x, best)
        if key is not None:
            a, b = I.call(key, [x], {}), I.call(key, [best], {})
        better = I.compare(ast.Lt() if is_min else ast.Gt(), a, b)
        bt = I.truth_term(better)
        if isinstance(bt, bool):
            if bt:
                best = x
        elif is_intlike(x) and is_intlike(best):
            best = mk_int(z3.If(bt.t, int_term(x), int_term(best)))
        elif (is_reallike(x) or is_intlike(x)) and (is_reallike(best) or is_intlike(best)):
            best = mk_real(z3.If(bt.t, real_term(x), real_term(best)))
        elif isinstance(x, tuple) and isinstance(best, tuple) and len(x) == len(best) and key is None \
                and all(is_intlike(e) and not isinstance(e, bool) for e in x + best):
            # tuples of integers: member-wise if-then-else, no fork
            best = tuple(mk_int(z3.simplify(z3.If(bt.t, int_term(p), int_term(q)))) for p, q in zip(x, best))
        else:
            if I.ctx.decide(bt.t):
                best = x
    return best

@model(builtins.min)
def m_min(I, *args, **kw):
    return _minmax(I, args, kw, True)

@model(builtins.max)
def m_max(I, *args, **kw):
    return _minmax(I, args, kw, False)

@model(builtins.divmod)
def m_divmod(I, a, b):
    import ast
    return (I.binop(ast.FloorDiv(), a, b), I.binop(ast.Mod(), a, b))

@model(builtins.sum)
def m_sum(I, it, start=0):
    import ast
    acc = start
    for x in I.iterate(it):
        acc = I.binop(ast.Add(), acc, x)
    return acc

@model(builtins.any)
def m_any(I, it):
    for x in I.iterate(it):
        if I.truth(x):
            return True
    return False

@model(builtins.all)
def m_all(I, it):
    for x in I.iterate(it):
        if not I.truth(x):
            return False
    return True

@model(builtins.range)
def m_range(I, *args):
    if any(isinstance(a, Sym) for a in args):
        args = [I.concrete_int(a) for a in args]
    try:
        return range(*args)
    except Exception as e:
        _raise(I, e)

@model(builtins.enumerate)
def m_enumerate(I, it, start=0):
    return [(i, x) for i, x in enumerate(I.iterate(it), start)]

@model(builtins.zip)
def m_zip(I, *its):
    return list(zip(*[I.iterate(x) for x in its]))

@model(builtins.reversed)
def m_reversed(I, it):
    return list(reversed(I.iterate(it)))

@model(builtins.list)
def m_list(I, it=()):
    return list(I.iterate(it))

@model(builtins.dict)
def m_dict(I, *args, **kw):
    # copying / building a dict never compares or hashes the *values*
    if args and isinstance(args[0], Sym):
        _raise(I, TypeError("object is not iterable"))
    try:
        return dict(*args, **kw)
    except Exception as e:
        _raise(I, e)

@model(builtins.set, builtins.frozenset)
def m_set(I, it=()):
    if isinstance(it, dict):
        return set(it.keys())
    vals = I.iterate(it)
    if any(isinstance(v, Sym) for v in vals):
        raise Unsupported("set() of symbolic members")
    try:
        return set(vals)
    except Exception as e:
        _raise(I, e)

@model(builtins.tuple)
def m_tuple(I, it=()):
    return tuple(I.iterate(it))

@model(builtins.iter)
def m_iter(I, it):
    return iter(I.iterate(it))

@model(builtins.next)
def m_next(I, it, *default):
    if type(it).__name__ == 'GhostCounter':
        return _next_ghost(I, it, *default)
    m = I.cfg.models.get(('next', type(it)))
    if m is not None:
        return m(I, it, *default)
    try:
        return next(it, *default)
    except StopIteration as e:
        _raise(I, e)

@model(builtins.sorted)
def m_sorted(I, it, key=None, reverse=False):
    from .interp import has_sym
    vals = I.iterate(it)
    if key is None and not has_sym(vals):
        return sorted(vals, reverse=reverse)
    keys = [I.call(key, [v], {}) if key is not None else v for v in vals]
    if not has_sym(keys):
        order = sorted(range(len(vals)), key=lambda i: keys[i], reverse=reverse)
        return [vals[i] for i in order]
    # insertion sort with decisions (small lists only)
    import ast
    if len(vals) > 6:
        raise Unsupported("sorted() of more than 6 symbolic keys")
    out = []
    for v, k in zip(vals, keys):
        pos = len(out)
        for j, (w, kw_) in enumerate(out):
            if I.truth(I.compare(ast.Lt(), k, kw_)):
                pos = j
                break
        out.insert(pos, (v, k))
    res = [v for v, _ in out]
    return list(reversed(res)) if reverse else res

@model(builtins.getattr)
def m_getattr(I, obj, name, *default):
    if isinstance(name, Sym):
        raise Unsupported("getattr with symbolic name")
    if default:
        return I.getattr(obj, name, default[0], True)
    return I.getattr(obj, name)

@model(builtins.hasattr)
def m_hasattr(I, obj, name):
    from .interp import PyRaise
    try:
        I.getattr(obj, name)
        return True
    except PyRaise as e:
        if isinstance(e.exc, AttributeError):
            return False
        raise

@model(builtins.dir)
def m_dir(I, *args):
    # attribute names only: no field value is looked at
    if args and isinstance(args[0], Sym):
        raise Unsupported("dir() of a symbolic value")
    return dir(*args)

@model(builtins.setattr)
def m_setattr(I, obj, name, value):
    I.setattr(obj, name, value)

@model(builtins.delattr)
def m_delattr(I, obj, name):
    I.delattr(obj, name)

@model(object.__setattr__)
def m_object_setattr(I, obj, name, value):
    I.raw_setattr(obj, name, value)

@model(object.__getattribute__)
def m_object_getattribute(I, obj, name):
    return I.getattr(obj, name)

@model(object.__init__)
def m_object_init(I, obj, *args, **kw):
    if args or kw:
        # object.__init__ complains only if __new__ is not overridden
        _raise(I, TypeError("object.__init__() takes exactly one argument (the instance to initialize)"))
    return None

@model(builtins.super)
def m_super(I, cls, obj):
    from .interp import SuperProxy
    return SuperProxy(cls, obj)

@model(builtins.callable)
def m_callable(I, v):
    from .interp import BoundMethod, Closure, ModelMethod
    if isinstance(v, (BoundMethod, Closure, ModelMethod)):
        return True
    if isinstance(v, Sym):
        return False
    return callable(v)

@model(builtins.print)
def m_print(I, *a, **kw):
    return None

@model(builtins.issubclass)
def m_issubclass(I, a, b):
    try:
        return issubclass(a, b)
    except TypeError as e:
        _raise(I, e)

@model(builtins.ord)
def m_ord(I, c):
    if isinstance(c, Sym):
        raise Unsupported("ord of symbolic")
    try:
        return ord(c)
    except Exception as e:
        _raise(I, e)

@model(builtins.round)
def m_round(I, v, nd=None):
    if isinstance(v, Sym):
        raise Unsupported("round() of symbolic value")
    return round(v) if nd is None else round(v, nd)

# bytes / bytearray constructors

def _octets_from_iterable(I, vals):
    chunks = []
    for v in vals:
        if isinstance(v, (SInt, SBool)):
            t = int_term(v)
            if not I.ctx.decide(z3.And(t >= 0, t <= 255)):
                _raise(I, ValueError("bytes must be in range(0, 256)"))
            chunks.append(z3.simplify(t))
        elif isinstance(v, bool) or isinstance(v, int):
            if not (0 <= v <= 255):
                _raise(I, ValueError("bytes must be in range(0, 256)"))
            chunks.append(int(v))
        else:
            _raise(I, TypeError("%s object cannot be interpreted as an integer" % type(v).__name__))
    return chunks

def _mk_bytes(I, mutable, args, kw):
    from .interp import has_sym
    if not args:
        return SBuf([], mutable) if mutable else b''
    v = args[0]
    if isinstance(v, SBuf):
        return v.copy(mutable)
    if isinstance(v, (bytes, bytearray)):
        return SBuf.from_bytes(v, mutable) if mutable else bytes(v)
    if isinstance(v, (SInt, SBool)):
        raise Unsupported("bytes(n) with symbolic n")
    if isinstance(v, (list, tuple)) and has_sym(v):
        return SBuf(_octets_from_iterable(I, v), mutable)
    if isinstance(v, Sym):
        _raise(I, TypeError("cannot convert %s to bytes" % type(v).__name__))
    try:
        r = (bytearray if mutable else bytes)(*args, **kw)
    except Exception as e:
        _raise(I, e)
    return SBuf.from_bytes(r, True) if mutable else r

@model(builtins.bytes)
def m_bytes(I, *args, **kw):
    return _mk_bytes(I, False, args, kw)

@model(builtins.bytearray)
def m_bytearray(I, *args, **kw):
    # bytearrays are always modelled as SBuf (in-place mutation, aliasing)
    return _mk_bytes(I, True, args, kw)

# ----------------------------------------------------------------------------
#   methods of symbolic values
# ----------------------------------------------------------------------------

def sym_method(I, obj, name):
    from .interp import ModelMethod
    if isinstance(obj, SBuf):
        fn = _SBUF_METHODS.get(name)
        if fn is not None:
            return ModelMethod(fn, obj)
        return None
    if isinstance(obj, (SInt, SBool)):
        if name == 'bit_length':
            raise Unsupported("bit_length of symbolic int")
        if name in ('real', 'numerator'):
            return obj
        return None
    if isinstance(obj, SOpaque):
        fn = I.cfg.models.get(('opaque_method', name))
        if fn is not None:
            return ModelMethod(fn, obj)
    return None

def opaque_const(I, ot, other):
    """constant of ot's sort denoting the concrete value `other` (or None)"""
    fn = I.cfg.models.get(('opaque_const', str(ot.t.sort())))
    if fn is not None:
        return fn(I, other)
    return None

def _sb_extend(I, buf, other):
    if not buf.mutable:
        _raise(I, AttributeError("'bytes' object has no attribute 'extend'"))
    o = buf_of(other)
    if o is None:
        o = SBuf(_octets_from_iterable(I, I.iterate(other)))
    buf.chunks.extend(o.chunks)

def _sb_append(I, buf, v):
    if not buf.mutable:
        _raise(I, AttributeError("'bytes' object has no attribute 'append'"))
    buf.chunks.extend(_octets_from_iterable(I, [v]))

def _sb_decode(I, buf, *a, **kw):
    if buf.is_concrete():
        try:
            return buf.to_bytes().decode(*a, **kw)
        except Exception as e:
            _raise(I, e)
    fn = I.cfg.models.get(('bytes.decode',))
    if fn is not None:
        return fn(I, buf, *a, **kw)
    raise Unsupported("decode() of symbolic buffer")

def _sb_copy(I, buf):
    return buf.copy()

_SBUF_METHODS = {
    'extend': _sb_extend,
    'append': _sb_append,
    'decode': _sb_decode,
    'copy': _sb_copy,
}

# ----------------------------------------------------------------------------
#   methods of native containers that need care with symbolic members
# ----------------------------------------------------------------------------

_METHOD_MODELS = {}

# methods that only store or move their arguments (no comparison, no hashing): safe with symbolic values
_STRUCTURAL_METHODS = {(list, 'append'), (list, 'clear'), (list, 'copy'), (list, 'reverse'),
                       (dict, 'copy'), (dict, 'clear'), (dict, 'items'), (dict, 'keys'), (dict, 'values')}

def method_model(tp, name):
    def deco(fn):
        _METHOD_MODELS[(tp, name)] = fn
        return fn
    return deco

@method_model(dict, 'get')
def _dict_get(I, d, k, default=None):
    from .interp import has_sym, identity_key
    if isinstance(k, Sym) or (has_sym(k) and not identity_key(k)):
        for kk in list(d.keys()):
            if I.truth(I.eq(kk, k)):
                return d[kk]
        return default
    try:
        return d.get(k, default)
    except TypeError as e:
        _raise(I, e)

@method_model(dict, 'pop')
def _dict_pop(I, d, k, *default):
    from .interp import has_sym, identity_key
    if isinstance(k, Sym) or (has_sym(k) and not identity_key(k)):
        for kk in list(d.keys()):
            if I.truth(I.eq(kk, k)):
                return d.pop(kk)
        if default:
            return default[0]
        _raise(I, KeyError('<symbolic>'))
    try:
        return d.pop(k, *default)
    except KeyError as e:
        _raise(I, e)

@method_model(dict, 'setdefault')
def _dict_setdefault(I, d, k, default=None):
    if isinstance(k, Sym):
        raise Unsupported("dict.setdefault with symbolic key")
    return d.setdefault(k, default)

@method_model(dict, 'update')
def _dict_update(I, d, *a, **kw):
    d.update(*a, **kw)

@method_model(list, 'index')
def _list_index(I, lst, x, *rest):
    for i, e in enumerate(lst):
        if I.truth(I.eq(e, x)):
            return i
    _raise(I, ValueError("x not in list"))

@method_model(list, 'remove')
def _list_remove(I, lst, x):
    for i, e in enumerate(lst):
        if I.truth(I.eq(e, x)):
            del lst[i]
            return None
    _raise(I, ValueError("list.remove(x): x not in list"))

@method_model(list, 'count')
def _list_count(I, lst, x):
    import ast
    n = 0
    for e in lst:
        n = I.binop(ast.Add(), n, I.eq(e, x)) if True else n
    return n

@method_model(list, 'extend')
def _list_extend(I, lst, it):
    lst.extend(I.iterate(it))

@method_model(list, 'sort')
def _list_sort(I, lst, key=None, reverse=False):
    lst[:] = m_sorted(I, lst, key=key, reverse=reverse)

@method_model(list, 'pop')
def _list_pop(I, lst, idx=-1):
    if isinstance(idx, Sym):
        k = I.concretize_index(idx, len(lst), 'pop')
        if k is None:
            _raise(I, IndexError("pop index out of range"))
        return lst.pop(k)
    try:
        return lst.pop(idx)
    except IndexError as e:
        _raise(I, e)

@method_model(list, 'insert')
def _list_insert(I, lst, idx, v):
    if isinstance(idx, Sym):
        raise Unsupported("list.insert at symbolic index")
    lst.insert(idx, v)

@method_model(str, 'format')
def _str_format(I, s, *a, **kw):
    from .interp import has_sym, SYM_PLACEHOLDER_STR
    if has_sym(a) or has_sym(kw):
        return SYM_PLACEHOLDER_STR
    try:
        return s.format(*a, **kw)
    except Exception:
        return SYM_PLACEHOLDER_STR

@method_model(str, 'join')
def _str_join(I, s, it):
    from .interp import has_sym, SYM_PLACEHOLDER_STR
    vals = I.iterate(it)
    if has_sym(vals):
        return SYM_PLACEHOLDER_STR
    try:
        return s.join(vals)
    except Exception as e:
        _raise(I, e)

@method_model(bytes, 'join')
def _bytes_join(I, s, it):
    vals = I.iterate(it)
    out = SBuf([], False)
    first = True
    for v in vals:
        if not first:
            out.chunks.extend(SBuf.from_bytes(s).chunks)
        b = buf_of(v)
        if b is None:
            _raise(I, TypeError("sequence item: expected a bytes-like object"))
        out.chunks.extend(b.chunks)
        first = False
    if out.is_concrete():
        return out.to_bytes()
    return out

# ----------------------------------------------------------------------------
#   struct
# ----------------------------------------------------------------------------

_INT_CODES = {'B': (1, False), 'b': (1, True), 'H': (2, False), 'h': (2, True),
              'L': (4, False), 'l': (4, True), 'I': (4, False), 'i': (4, True),
              'Q': (8, False), 'q': (8, True)}

def _parse_fmt(fmt):
    if isinstance(fmt, bytes):
        fmt = fmt.decode()
    order = '@'
    if fmt and fmt[0] in '@=<>!':
        order = fmt[0]
        fmt = fmt[1:]
    if order in '@=':
        order = '<' if _struct.pack('=H', 1)[0] == 1 else '>'
        # native alignment is not modelled; only standard sizes are used in the target code
    items = []
    cnt = ''
    for ch in fmt:
        if ch.isdigit():
            cnt += ch
            continue
        n = int(cnt) if cnt else 1
        cnt = ''
        if ch == ' ':
            continue
        if ch in ('s', 'p'):
            items.append((ch, n))
        else:
            for _ in range(n):
                items.append((ch, 1))
    return ('>' if order in '>!' else '<'), items

F32_OVERFLOW_R = z3.RealVal((2 ** 25 - 1) * 2 ** 103)     # (2 - 2**-24) * 2**127

def f32_word(x):
    return z3.Function('f32_bits', z3.RealSort(), z3.IntSort())(x)

def f64_word(x):
    return z3.Function('f64_bits', z3.RealSort(), z3.IntSort())(x)

def f32_value(w):
    return z3.Function('f32_val', z3.IntSort(), z3.RealSort())(w)

def f64_value(w):
    return z3.Function('f64_val', z3.IntSort(), z3.RealSort())(w)

def _word_octets(w, size, order):
    """big-endian octets of the word term w (0 <= w < 2**(8*size)) as canonical field terms"""
    from . import bitfield
    octs = []
    for j in range(size):
        sh = 8 * (size - 1 - j)
        o = bitfield.field(w, (1 << (8 * size)) - 1, sh, 8)
        octs.append(o if isinstance(o, int) else o.t)
    if order == '<':
        octs.reverse()
    return octs

@model(_struct.pack)
def m_struct_pack(I, fmt, *vals):
    from .interp import has_sym
    if not has_sym(vals):
        try:
            return _struct.pack(fmt, *vals)
        except Exception as e:
            _raise(I, e)
    order, items = _parse_fmt(fmt)
    if len(items) != len(vals):
        _raise(I, _struct.error("pack expected %d items for packing (got %d)" % (len(items), len(vals))))
    chunks = []
    for (code, n), v in zip(items, vals):
        if code in _INT_CODES:
            size, signed = _INT_CODES[code]
            if isinstance(v, (SReal, float)) or (not is_intlike(v)):
                _raise(I, _struct.error("required argument is not an integer"))
            t = int_term(v)
            lo, hi = (-(1 << (8 * size - 1)), (1 << (8 * size - 1)) - 1) if signed else (0, (1 << (8 * size)) - 1)
            if not I.ctx.decide(z3.And(t >= lo, t <= hi)):
                _raise(I, _struct.error("argument out of range"))
            u = t % z3.IntVal(1 << (8 * size)) if signed else t
            chunks.extend(_word_octets(u, size, order))
        elif code in ('f', 'd'):
            r = real_term(v)
            if r is None:
                _raise(I, _struct.error("required argument is not a float"))
            size = 4 if code == 'f' else 8
            if code == 'f':
                # struct refuses finite values that round to infinity in binary32
                if I.ctx.decide(z3.Or(r >= F32_OVERFLOW_R, r <= -F32_OVERFLOW_R)):
                    _raise(I, OverflowError("float too large to pack with f format"))
            w = f32_word(r) if code == 'f' else f64_word(r)
            I.ctx.assumptions.add("struct.pack/unpack of IEEE-754 floats: uninterpreted word function with unpack(pack(x)) == round(x) axiom")
            I.ctx.fact(z3.And(w >= 0, w < (1 << (8 * size))))
            # unpack(pack(x)) is x rounded to the format (round64 is the identity on Python floats)
            if code == 'f':
                I.ctx.fact(f32_value(w) == z3.Function('round32', z3.RealSort(), z3.RealSort())(r))
            else:
                I.ctx.fact(f64_value(w) == r)
            chunks.extend(_word_octets(w, size, order))
        else:
            raise Unsupported("struct code %r with symbolic value" % code)
    return SBuf(chunks, False)

@model(_struct.unpack)
def m_struct_unpack(I, fmt, data):
    if isinstance(data, (bytes, bytearray)):
        try:
            return _struct.unpack(fmt, data)
        except Exception as e:
            _raise(I, e)
    if not isinstance(data, SBuf):
        _raise(I, TypeError("a bytes-like object is required"))
    if data.is_concrete():
        try:
            return _struct.unpack(fmt, data.to_bytes())
        except Exception as e:
            _raise(I, e)
    order, items = _parse_fmt(fmt)
    total = 0
    for code, n in items:
        if code in _INT_CODES:
            total += _INT_CODES[code][0]
        elif code == 'f':
            total += 4
        elif code == 'd':
            total += 8
        else:
            raise Unsupported("struct code %r on symbolic buffer" % code)
    n = data.length()
    if isinstance(n, int):
        ok = n == total
    else:
        ok = I.ctx.decide(n == total)
    if not ok:
        _raise(I, _struct.error("unpack requires a buffer of %d bytes" % total))
    pos = 0
    out = []
    for code, _ in items:
        size = _INT_CODES[code][0] if code in _INT_CODES else (4 if code == 'f' else 8)
        import ast as _ast
        octs = [bufops.index(I.ctx, data, pos + j) for j in range(size)]
        if order == '<':
            octs.reverse()
        acc = octs[0]
        for o in octs[1:]:
            acc = I.binop(_ast.Add(), I.binop(_ast.Mult(), acc, 256), o)     # field algebra recombines adjacent octets
        w = int_term(acc)
        if code in _INT_CODES:
            signed = _INT_CODES[code][1]
            if signed:
                w = z3.If(w >= (1 << (8 * size - 1)), w - (1 << (8 * size)), w)
                out.append(mk_int(z3.simplify(w)))
            else:
                # keep the segment view of the recombined octets
                out.append(acc if isinstance(acc, (int, SInt)) else mk_int(w, (1 << (8 * size)) - 1))
        else:
            I.ctx.assumptions.add("struct.pack/unpack of IEEE-754 floats: uninterpreted word function with unpack(pack(x)) == round(x) axiom")
            out.append(mk_real(f32_value(w) if code == 'f' else f64_value(w)))
        pos += size
    return tuple(out)

@model(_struct.calcsize)
def m_struct_calcsize(I, fmt):
    return _struct.calcsize(fmt)

# ----------------------------------------------------------------------------
#   copy
# ----------------------------------------------------------------------------

def _shallow(I, v):
    from .interp import has_sym
    if isinstance(v, SBuf):
        return v.copy()
    if isinstance(v, Sym):
        return v
    if isinstance(v, list):
        return list(v)
    if isinstance(v, dict):
        return dict(v)
    if isinstance(v, (set,)):
        return set(v)
    if I._is_repo_instance(v):
        f = I.lookup_class_attr(type(v), '__copy__')
        if f is not None and isinstance(f[0], types.FunctionType):
            return I.call_function(f[0], [v], {}, defclass=f[1])
        new = object.__new__(type(v)) if not isinstance(v, (list, dict)) else type(v).__new__(type(v))
        new.__dict__.update(v.__dict__)
        if isinstance(v, list):
            list.extend(new, v)
        if isinstance(v, dict):
            dict.update(new, v)
        return new
    return _copy_mod.copy(v)

@model(_copy_mod.copy)
def m_copy(I, v):
    return _shallow(I, v)

def _deep(I, v, memo):
    if id(v) in memo:
        return memo[id(v)]
    if isinstance(v, SBuf):
        r = v.copy()
    elif isinstance(v, Sym) or v is None or isinstance(v, (int, float, str, bytes, type, types.FunctionType, types.ModuleType, types.BuiltinFunctionType)):
        return v
    elif isinstance(v, bytearray):
        r = bytearray(v)
    elif isinstance(v, list) and type(v) is list:
        r = []
        memo[id(v)] = r
        r.extend(_deep(I, x, memo) for x in v)
        return r
    elif isinstance(v, tuple):
        r = tuple(_deep(I, x, memo) for x in v)
    elif isinstance(v, dict) and type(v) is dict:
        r = {}
        memo[id(v)] = r
        for k, x in v.items():
            r[k] = _deep(I, x, memo)
        return r
    elif isinstance(v, (set, frozenset)):
        r = type(v)(v)
    elif I._is_repo_instance(v):
        f = I.lookup_class_attr(type(v), '__deepcopy__')
        if f is not None and isinstance(f[0], types.FunctionType):
            return I.call_function(f[0], [v, memo], {}, defclass=f[1])
        r = type(v).__new__(type(v))
        memo[id(v)] = r
        for k, x in v.__dict__.items():
            r.__dict__[k] = _deep(I, x, memo)
        if isinstance(v, list):
            list.extend(r, [_deep(I, x, memo) for x in v])
        if isinstance(v, dict):
            for k, x in dict.items(v):
                dict.__setitem__(r, k, _deep(I, x, memo))
        return r
    else:
        r = _copy_mod.deepcopy(v)
    memo[id(v)] = r
    return r

@model(_copy_mod.deepcopy)
def m_deepcopy(I, v, memo=None):
    return _deep(I, v, {})

# ----------------------------------------------------------------------------
#   socket.inet_aton / inet_ntoa (trusted: mutually inverse on dotted quads)
# ----------------------------------------------------------------------------
import socket as _socket

def ip_octets(v):
    """the four octets a concrete dotted-quad string denotes, or None"""
    if isinstance(v, str):
        try:
            return tuple(_socket.inet_aton(v))
        except OSError:
            return None
    return None

@model(_socket.inet_ntoa)
def m_inet_ntoa(I, data):
    if isinstance(data, (bytes, bytearray)):
        try:
            return _socket.inet_ntoa(bytes(data))
        except Exception as e:
            _raise(I, e)
    if not isinstance(data, SBuf):
        _raise(I, TypeError("a bytes-like object is required"))
    n = data.length()
    ok = (n == 4) if isinstance(n, int) else I.ctx.decide(n == 4)
    if not ok:
        _raise(I, OSError("packed IP wrong length for inet_ntoa"))
    I.ctx.assumptions.add("socket.inet_aton/inet_ntoa are mutually inverse on four octets / dotted quads (trusted)")
    octs = [bufops.index(I.ctx, data, j) for j in range(4)]
    if all(isinstance(o, int) for o in octs):
        return _socket.inet_ntoa(bytes(octs))
    return SIPStr(octs)

@model(_socket.inet_aton)
def m_inet_aton(I, s):
    if isinstance(s, SIPStr):
        I.ctx.assumptions.add("socket.inet_aton/inet_ntoa are mutually inverse on four octets / dotted quads (trusted)")
        chunks = []
        for o in s.octets:
            chunks.append(o if isinstance(o, int) else int_term(o))
        return SBuf(chunks, False)
    if isinstance(s, Sym):
        raise Unsupported("inet_aton of symbolic text")
    try:
        return _socket.inet_aton(s)
    except Exception as e:
        _raise(I, e)

# ----------------------------------------------------------------------------
#   heapq: the algorithms of CPython's heapq.py (the C accelerator computes the
#   same arrangement), with `<` on possibly symbolic items decided by the
#   interpreter (tuples compare lexicographically)
# ----------------------------------------------------------------------------
import heapq as _heapq
import ast as _ast_mod

def _lt(I, a, b):
    return I.truth(I.compare(_ast_mod.Lt(), a, b))

def _siftdown(I, heap, startpos, pos):
    newitem = heap[pos]
    while pos > startpos:
        parentpos = (pos - 1) >> 1
        parent = heap[parentpos]
        if _lt(I, newitem, parent):
            heap[pos] = parent
            pos = parentpos
            continue
        break
    heap[pos] = newitem

def _siftup(I, heap, pos):
    endpos = len(heap)
    startpos = pos
    newitem = heap[pos]
    childpos = 2 * pos + 1
    while childpos < endpos:
        rightpos = childpos + 1
        if rightpos < endpos and not _lt(I, heap[childpos], heap[rightpos]):
            childpos = rightpos
        heap[pos] = heap[childpos]
        pos = childpos
        childpos = 2 * pos + 1
    heap[pos] = newitem
    _siftdown(I, heap, startpos, pos)

@model(_heapq.heappush)
def m_heappush(I, heap, item):
    if not isinstance(heap, list):
        _raise(I, TypeError("heap argument must be a list"))
    heap.append(item)
    _siftdown(I, heap, 0, len(heap) - 1)

@model(_heapq.heappop)
def m_heappop(I, heap):
    if not isinstance(heap, list):
        _raise(I, TypeError("heap argument must be a list"))
    if not heap:
        _raise(I, IndexError("index out of range"))
    lastelt = heap.pop()
    if heap:
        returnitem = heap[0]
        heap[0] = lastelt
        _siftup(I, heap, 0)
        return returnitem
    return lastelt

@model(_heapq.heapify)
def m_heapify(I, x):
    if not isinstance(x, list):
        _raise(I, TypeError("heap argument must be a list"))
    n = len(x)
    for i in reversed(range(n // 2)):
        _siftup(I, x, i)

# ----------------------------------------------------------------------------
#   itertools.count as a ghost counter
# ----------------------------------------------------------------------------

class GhostCounter(object):
    """stands for itertools.count(value): next() returns value and adds one"""
    def __init__(self, value):
        self.value = value
    def __repr__(self):
        return "GhostCounter(%r)" % (self.value,)

def _next_ghost(I, it, *default):
    import ast
    v = it.value
    it.value = I.binop(ast.Add(), v, 1)
    return v

import math as _math

@model(_math.floor)
def m_floor(I, x):
    if isinstance(x, SReal):
        return mk_int(z3.ToInt(x.t))
    if isinstance(x, (SInt, SBool)):
        return x
    try:
        return _math.floor(x)
    except Exception as e:
        _raise(I, e)

@model(_heapq._siftup)
def m_siftup(I, heap, pos):
    _siftup(I, heap, pos)

@model(_heapq._siftdown)
def m_siftdown(I, heap, startpos, pos):
    _siftdown(I, heap, startpos, pos)
