"""
pyvc.crosscheck -- the interpreter against CPython: for random concrete inputs
satisfying a contract's requires, the real function is run natively and
through the symbolic interpreter (with concrete values); outcome class, result
and every reachable field must agree.  A disagreement is a checker error
(exit 3), never a verdict about the code.
"""
import copy
import random
import types

from .sym import PathCtx, SBuf, Sym, Infeasible, Unsupported, PathBudget
from .interp import Interp, PyRaise
from . import contracts as C

def _key(k):
    """dict keys: values by repr, identity-hashed objects by their class (addresses differ between the two runs)"""
    if type(k).__repr__ is object.__repr__:
        return '<%s>' % type(k).__name__
    return repr(k)

def _norm(v, depth=0, seen=None):
    """comparable plain form of a value from either world"""
    if seen is None:
        seen = {}
    if isinstance(v, SBuf):
        if v.is_concrete():
            return ('bytes', bytes(v.chunks))
        return ('symbuf', repr(v))
    if isinstance(v, (bytes, bytearray)):
        return ('bytes', bytes(v))
    if isinstance(v, Sym):
        return ('sym', repr(v))
    if isinstance(v, bool) or v is None or isinstance(v, (int, str)):
        return v
    if isinstance(v, float):
        return ('float', repr(v))
    if depth > 5:
        return '...'
    if isinstance(v, (list, tuple)):
        return (type(v).__name__, [_norm(x, depth + 1, seen) for x in v])
    if isinstance(v, dict):
        try:
            return ('dict', sorted((_key(k), _norm(x, depth + 1, seen)) for k, x in v.items()))
        except Exception:
            return ('dict', len(v))
    if isinstance(v, types.MethodType):
        return ('method', getattr(v.__func__, '__qualname__', repr(v)))
    if type(v).__name__ in ('BoundMethod', 'NativeBound') and hasattr(v, 'func'):
        return ('method', getattr(v.func, '__qualname__', repr(v)))
    if isinstance(v, (type, types.FunctionType, types.ModuleType, types.BuiltinFunctionType)):
        return ('obj', getattr(v, '__qualname__', repr(v)))
    if type(v).__name__ == 'Tok':
        return ('tok', v.name)
    if type(v).__name__ == 'GhostCounter':
        return ('count', _norm(v.value))
    if type(v).__name__ == 'count' and type(v).__module__ == 'itertools':
        import re
        return ('count', int(re.match(r'count\((-?\d+)\)', repr(v)).group(1)))
    if id(v) in seen:
        return ('ref', type(v).__name__)       # a back reference (numbering by visit order would depend on how wrappers are represented)
    d = getattr(v, '__dict__', None)
    if isinstance(d, dict):
        seen[id(v)] = len(seen)
        return (type(v).__name__, sorted((k, _norm(x, depth + 1, seen)) for k, x in d.items()))
    return ('other', type(v).__name__)

def crosscheck(con, k, seed, repo_root, verif_root):
    out = {'runs': 0, 'skipped': 0, 'disagreements': []}
    if getattr(con, 'trusted', False) and not isinstance(con, C.Contract):
        return out
    if not isinstance(con, C.Contract) or con.region is not None:
        return out
    rng = random.Random((seed << 8) ^ (hash(con.name) & 0xffff))
    cfg = C.make_config(repo_root, verif_root, unit=con)
    cfg.target = con.func
    # pure interpretation of every body: this checks the interpreter, not the contracts (ghost-traced externals stay)
    kept = {}
    for fid, c in cfg.contracts.items():
        if isinstance(c, C.TraceContract) or (isinstance(c, C.Contract) and c.trusted):
            kept[fid] = c       # ghost-traced externals and trusted summaries (natively: their stand-ins) are the unit's boundary
        elif isinstance(c, C._ContractChoice):
            tr = [a for a in c.alts if isinstance(a, C.TraceContract) or (isinstance(a, C.Contract) and a.trusted)]
            if tr:
                kept[fid] = tr[0]
    cfg.contracts = kept
    tries = 0
    while out['runs'] < k and tries < 6 * k:
        tries += 1
        # native side
        b = C.Builder('native', rng=rng)
        try:
            env = con.build_inputs(b)
            glob = con.namespace
            if not all(r.native(glob, env, r.native_olds(glob, env)) for r in con.requires):
                out['skipped'] += 1
                continue
        except Exception:
            out['skipped'] += 1
            continue
        args, kwargs = con.call_args(env)
        saved_globals = []
        for gname, (gmod, gshape) in con.globals_.items():
            import importlib
            gv = (gshape if isinstance(gshape, C.Shape) else C.Const(gshape)).build(b, gname)
            mod = importlib.import_module(gmod)
            saved_globals.append((mod, gname, getattr(mod, gname)))
            setattr(mod, gname, gv)
            env[gname] = gv
        ext = C._native_externals(b.values, unit=con)
        ext.__enter__()
        try:
            nres = con.func(*args, **kwargs)
            nout = 'return'
        except Exception as e:
            nres = None
            nout = 'raise ' + type(e).__name__
        finally:
            ext.__exit__()
            for gname, (gmod, gshape) in con.globals_.items():
                import importlib
                env[gname] = getattr(importlib.import_module(gmod), gname)
            for mod, gname, orig in saved_globals:
                setattr(mod, gname, orig)
        values = dict(b.values)
        nstate = _norm({'result': nres, 'env': env})
        # interpreter side, same concrete values
        ctx = PathCtx()
        I = Interp(ctx, cfg)
        b2 = C.Builder('interp', values=dict(values), rng=random.Random(0))
        env2 = con.build_inputs(b2)
        gkeys = {}
        for gname, (gmod, gshape) in con.globals_.items():
            import importlib
            gv = (gshape if isinstance(gshape, C.Shape) else C.Const(gshape)).build(b2, gname)
            gkeys[gname] = (id(importlib.import_module(gmod).__dict__), gname)
            I.goverlay[gkeys[gname]] = gv
        cfg.ext_values = dict(values)
        args2, kwargs2 = con.call_args(env2)
        try:
            ires = I.call_function(con.func, args2, kwargs2, defclass=C._defclass(con.func))
            iout = 'return'
        except PyRaise as pr:
            ires = None
            iout = 'raise ' + type(pr.exc).__name__
        except (Unsupported, PathBudget, Infeasible) as e:
            out['skipped'] += 1
            continue
        out['runs'] += 1
        for gname, gk in gkeys.items():
            env2[gname] = I.goverlay[gk]
        istate = _norm({'result': ires, 'env': env2})
        if nout != iout or nstate != istate:
            if len(out['disagreements']) < 3:
                out['disagreements'].append("%s inputs=%r: CPython %s, interpreter %s%s" % (
                    con.name, values, nout, iout, '' if nout != iout else ' (final states differ: %s)' % _diff(nstate, istate)))
    return out

def _diff(a, b, path=''):
    """first difference between two normal forms"""
    if type(a) != type(b):
        return "%s: %r vs %r" % (path, a, b)
    if isinstance(a, (list, tuple)) and len(a) == len(b):
        for i, (x, y) in enumerate(zip(a, b)):
            if x != y:
                return _diff(x, y, path + '/%s' % (x[0] if isinstance(x, tuple) and x and isinstance(x[0], str) else i))
    s = "%s: CPython %r, interpreter %r" % (path, a, b)
    return s[:600]
